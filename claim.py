"""usage: python claim.py C05 [C06 ...] -- mark properties as validated, regenerate MANIFEST.json"""
import json, subprocess, sys
from pathlib import Path
H = Path(__file__).resolve().parent
c = set(json.loads((H / 'claimed.json').read_text())) | {a.upper() for a in sys.argv[1:]}
(H / 'claimed.json').write_text(json.dumps(sorted(c)))
subprocess.check_call([sys.executable, str(H / 'tools_manifest.py')])
