"""Regenerates the <!-- GEN:x --> blocks of DESIGN.md from evidence/, mutants/, seeded/, KNOWN_FINDINGS.json."""
import json, glob, re
from pathlib import Path
H = Path(__file__).resolve().parent
props = [json.loads(l) for l in open(H / 'properties.jsonl')]


def modules():
    out = ['| id | module lines | evaluations / distinct non-trivial (tier of the committed evidence) | floors | mutants | seeded | build flavours |', '|---|---|---|---|---|---|---|']
    for p in props:
        pid = p['id']
        ev = H / 'evidence' / f'{pid}.json'
        e = json.loads(ev.read_text()) if ev.exists() else None
        mut = H / 'mutants' / f'{pid}.json'
        nm = len(json.loads(mut.read_text())) if mut.exists() else 0
        ns = len(glob.glob(str(H / 'seeded' / f'{pid}-*')))
        src = H / 'vf' / 'props' / f'{pid.lower()}.py'
        extra = sum(len(open(f).read().splitlines()) for f in glob.glob(str(H / 'vf' / 'oracle' / f'{pid.lower()}_*.py')) + glob.glob(str(H / 'vf' / 'gen' / f'{pid.lower()}_*.py')))
        nl = len(src.read_text().splitlines()) if src.exists() else 0
        if e:
            c = e['coverage']
            out.append(f"| {pid} | {nl} + {extra} oracle/gen | {c['evaluations']} / {c['distinct_nontrivial']} ({e['tier']}) | {len(c.get('coverage_floors', {}))} | {nm} | {ns} | {', '.join(c.get('flavours', []))} |")
        else:
            out.append(f'| {pid} | {nl} + {extra} | - | - | {nm} | {ns} | - |')
    return '\n'.join(out)


def findings(kind):
    kf = json.loads((H / 'KNOWN_FINDINGS.json').read_text())['findings']
    if kind == 'fixed':
        out = ['| property | commit | what was wrong |', '|---|---|---|']
        for f in kf:
            if f['kind'] == 'fixed':
                w = re.sub(r'^fixed: property=\S+ \S+ ', '', f['what']).replace('|', '/')
                out.append(f"| {f['property']} | {f['commit']} | {w} |")
    else:
        out = ['| property | mechanism key | what fails |', '|---|---|---|']
        for f in kf:
            if f['kind'] == 'known':
                out.append(f"| {f['property']} | `{f['key']}` | {f['what'].replace('|', '/')} |")
    return '\n'.join(out)


def seeds():
    out = ['Per change, the verdict of the quick tier on the final harness (`python -m vf.selftest --seeded --record`):', '',
           '| id | verdict | first violation keys |', '|---|---|---|']
    for d in sorted(glob.glob(str(H / 'seeded' / '*' / 'meta.json'))):
        m = json.loads(open(d).read())
        db = m.get('detected_by') or {}
        out.append(f"| {m['id']} | {db.get('verdict', '?')} | {', '.join('`%s`' % k for k in db.get('violation_keys', [])[:3])} |")
    return '\n'.join(out)


s = (H / 'DESIGN.md').read_text()
for name, text in (('modules', modules()), ('fixed', findings('fixed')), ('known', findings('known')), ('seeds', seeds())):
    s = re.sub(rf'<!-- GEN:{name} -->.*?<!-- /GEN:{name} -->', lambda m: f'<!-- GEN:{name} -->\n{text}\n<!-- /GEN:{name} -->', s, flags=re.S)
(H / 'DESIGN.md').write_text(s)
print('DESIGN.md tables regenerated')
