"""Regenerates MANIFEST.json from the table below (python tools_manifest.py)."""
import json, os
from pathlib import Path
HERE = Path(__file__).resolve().parent
PY = '/venv/bin/python'
props = [json.loads(l) for l in open(HERE / 'properties.jsonl')]
# only properties listed in claimed.json (validated on the unchanged tree over several seeds, both tiers) are claimed
VALIDATED = set(json.loads((HERE / 'claimed.json').read_text()))
claimed = {}
for f in sorted((HERE / 'vf' / 'props').glob('c[0-9][0-9].py')):
    if f.stem.upper() in VALIDATED:
        claimed[f.stem.upper()] = True
SKIP = set(os.environ.get('VF_SKIP', '').split(',')) - {''}
NATIVE = {'C02', 'C03', 'C17'}
LEVEL_TEXT = json.loads((HERE / 'manifest_levels.json').read_text()) if (HERE / 'manifest_levels.json').exists() else {}
checks, na = [], []
for p in props:
    pid = p['id']
    if pid not in claimed or pid in SKIP:
        na.append({'property_id': pid, 'reason': 'check not built yet in this round (runtime monitors planned in DESIGN.md section 3); not claimed until its monitor runs clean on the unchanged tree'})
        continue
    lt = LEVEL_TEXT.get(pid, {})
    tech = 'runtime monitors on the real entry points + independent reference oracle over seeded stratified workloads'
    if pid in NATIVE:
        tech += '; bounds-checked build and ASan/UBSan build of the Cython extensions'
    checks.append({
        'property_id': pid,
        'quick_cmd': f'{PY} -m vf.check {pid} --tier quick',
        'thorough_cmd': f'{PY} -m vf.check {pid} --tier thorough',
        'evidence_file': f'/verif/evidence/{pid}.json',
        'replay_cmd_template': f'{PY} -m vf.replay {{path}}',
        'engine': 'vf',
        'level_claimed': {
            'category': 'exploration',
            'text': lt.get('text', 'Monitored executions of the real code (shadow copy of the current /repo tree with freshly compiled extensions) against an oracle written independently from definitions; held means held on the executions observed, whose counts, input classes and monitor evaluations are in the evidence file.'),
            'design_ref': f'DESIGN.md section 3, {pid}',
        },
        'level_note': lt.get('note', 'Trusted: numpy/scipy/LAPACK (shared by oracle and code under test), the oracle code under vf/oracle, the stated rounding bounds and exemptions (DESIGN.md section 3). Sampled, not exhaustive, except where the evidence says exhaustive for a sub-space.'),
        'technique': tech,
    })
doc = {
    'version': 1,
    'setup_cmd': f'{PY} -m vf.build --prebuild',
    'hooks': {
        'guard': 'ATOMMAN_VERIF',
        'enable': 'checks copy /repo/atomman to a temporary shadow tree, compile its .pyx files there and start workers with ATOMMAN_VERIF=1 (read at import of atomman.core.nlist)',
        'baseline_off_cmd': 'cd /repo && env -u ATOMMAN_VERIF /venv/bin/python setup.py -q build_ext --inplace && env -u ATOMMAN_VERIF /venv/bin/python -m pytest -ra -q -p no:cacheprovider --timeout=900 --continue-on-collection-errors',
        'source_commits': ['3190fbb'],
        'add_only': True,
    },
    'engines': [{'name': 'vf', 'path': '/verif/vf', 'serves_properties': sorted(c['property_id'] for c in checks),
                 'kind_free_text': 'runtime monitoring harness: shadow-tree builder (plain / bounds-checked / ASan+UBSan), worker fan-out, recording monitors, independent oracles, known-findings classifier, replay'}],
    'checks': checks,
    'not_applicable': na,
    'notes': 'Exit codes of every check: 0 held on what was observed, 1 VIOLATION (replay file written), 2 INCONCLUSIVE (coverage floor missed / harness error / watchdog). Known findings: /verif/KNOWN_FINDINGS.json.',
}
(HERE / 'MANIFEST.json').write_text(json.dumps(doc, indent=1) + '\n')
print('claimed', [c['property_id'] for c in checks], 'n/a', [n['property_id'] for n in na])
