"""Prints the markdown tables of DESIGN.md section 7 from evidence/, mutants/, seeded/, KNOWN_FINDINGS.json."""
import json, glob, os, re
from pathlib import Path
H = Path(__file__).resolve().parent
props = [json.loads(l) for l in open(H / 'properties.jsonl')]
print('| id | monitors (vf/props) | quick evaluations / distinct | coverage floors | mutants | seeded | flavours |')
print('|---|---|---|---|---|---|---|')
for p in props:
    pid = p['id']
    ev = H / 'evidence' / f'{pid}.json'
    e = json.loads(ev.read_text()) if ev.exists() else None
    mut = H / 'mutants' / f'{pid}.json'
    nm = len(json.loads(mut.read_text())) if mut.exists() else 0
    ns = len(glob.glob(str(H / 'seeded' / f'{pid}-*')))
    src = (H / 'vf' / 'props' / f'{pid.lower()}.py')
    nl = len(src.read_text().splitlines()) if src.exists() else 0
    if e:
        c = e['coverage']
        print(f"| {pid} | {nl} lines | {c['evaluations']} / {c['distinct_nontrivial']} ({e['tier']}) | {len(c.get('coverage_floors', {}))} | {nm} | {ns} | {','.join(c.get('flavours', []))} |")
    else:
        print(f'| {pid} | {nl} lines | - | - | {nm} | {ns} | - |')
print()
kf = json.loads((H / 'KNOWN_FINDINGS.json').read_text())['findings']
print('| property | commit | what was wrong |')
print('|---|---|---|')
for f in kf:
    if f['kind'] == 'fixed':
        w = re.sub(r'^fixed: property=\S+ \S+ ', '', f['what'])
        print(f"| {f['property']} | {f['commit']} | {w} |")
print()
print('| property | key | what fails |')
print('|---|---|---|')
for f in kf:
    if f['kind'] == 'known':
        print(f"| {f['property']} | `{f['key']}` | {f['what']} |")
