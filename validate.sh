#!/bin/bash
# usage: validate.sh C03 [seeds...]  -> quick tier on several seeds + seeded changes for that property
p=$1; shift; seeds=${@:-0 1 2}
for s in $seeds; do /venv/bin/python -m vf.check $p --tier quick --seed $s 2>&1 | grep -v "WARNING conda" | tail -4 | cut -c1-300; done
/venv/bin/python -m vf.selftest $p --seeded 2>&1 | grep -v "WARNING conda" | cut -c1-260
