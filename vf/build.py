"""Shadow tree of /repo/atomman with freshly compiled Cython extensions.

Every check runs the bytes that are in /repo's working tree *now*: the package
is copied (without stale build products) to a temporary directory and its five
.pyx files are compiled there.  Compiled objects are cached in /verif/.cache by
the hash of their sources and flags, so an unchanged .pyx costs nothing.

Flavours
--------
plain    gcc -O2, exactly what setup.py does
checked  same sources with every ``@cython.boundscheck(False)`` flipped to True
         in the shadow copy only (an out-of-range memoryview index raises
         IndexError at the .pyx line instead of corrupting memory)
asan     clang -O1 -g -fsanitize=address,undefined; workers must be started
         with the environment from ``asan_env()``
"""
from __future__ import annotations

import hashlib
import os
import shutil
import subprocess
import sys
import sysconfig
import tempfile
from concurrent.futures import ThreadPoolExecutor
from pathlib import Path

REPO = Path(os.environ.get('VF_REPO', '/repo'))
VERIF = Path(__file__).resolve().parent.parent
CACHE = VERIF / '.cache'
PYX = ['atomman/core/dmag.pyx', 'atomman/core/dvect.pyx', 'atomman/core/nlist.pyx',
       'atomman/defect/Strain.pyx', 'atomman/defect/slip_vector.pyx']
EXT_SUFFIX = sysconfig.get_config_var('EXT_SUFFIX')
ASAN_RT = '/usr/lib/llvm-14/lib/clang/14.0.6/lib/linux/libclang_rt.asan-x86_64.so'
FLAVOURS = ('plain', 'checked', 'asan')


def _ignore(_dir, names):
    out = []
    for n in names:
        if n == '__pycache__' or n.endswith(('.so', '.c', '.pyc', '.o')):
            out.append(n)
    return out


def tree_hash(root: Path = REPO) -> str:
    """Content hash of every source file of the package in the working tree."""
    h = hashlib.sha256()
    base = root / 'atomman'
    for p in sorted(base.rglob('*')):
        if p.is_file() and '__pycache__' not in p.parts and not p.name.endswith(('.so', '.c', '.pyc', '.o')):
            h.update(str(p.relative_to(base)).encode())
            h.update(b'\0')
            h.update(p.read_bytes())
    return h.hexdigest()[:16]


def _flags(flavour: str):
    inc = ['-I' + sysconfig.get_paths()['include']]
    try:
        import numpy
        inc.append('-I' + numpy.get_include())
    except Exception:  # pragma: no cover
        pass
    if flavour == 'asan':
        cc = 'clang'
        cflags = ['-O1', '-g', '-fno-omit-frame-pointer', '-fsanitize=address,undefined',
                  '-fno-sanitize-recover=undefined', '-fPIC', '-Wno-everything']
        ldflags = ['-shared', '-fsanitize=address,undefined', '-shared-libasan']
    else:
        cc = 'gcc'
        cflags = ['-O2', '-fPIC', '-fwrapv', '-w']
        ldflags = ['-shared']
    return cc, cflags + inc, ldflags


def _src_key(shadow: Path, rel: str, flavour: str) -> str:
    h = hashlib.sha256()
    h.update(flavour.encode())
    import Cython
    h.update(Cython.__version__.encode())
    h.update(sys.version.encode())
    h.update(' '.join(sum(map(list, _flags(flavour)[1:]), [])).encode())
    d = (shadow / rel).parent
    # a module depends on its own source and on every .pxd it may cimport
    for p in sorted([shadow / rel] + list((shadow / 'atomman/core').glob('*.pxd')) + list(d.glob('*.pxd'))):
        h.update(p.name.encode())
        h.update(p.read_bytes())
    return h.hexdigest()[:24]


def _build_one(shadow: Path, rel: str, flavour: str) -> str:
    key = _src_key(shadow, rel, flavour)
    name = Path(rel).stem
    target = (shadow / rel).with_name(name + EXT_SUFFIX)
    cached = CACHE / key / (name + EXT_SUFFIX)
    if cached.exists():
        shutil.copy2(cached, target)
        return 'cached'
    cfile = (shadow / rel).with_suffix('.c')
    cy = [sys.executable, '-m', 'cython'] + (['--line-directives'] if flavour == 'asan' else [])
    r = subprocess.run(cy + [rel, '-o', str(cfile)], cwd=shadow,
                       capture_output=True, text=True)
    if r.returncode != 0:
        raise RuntimeError(f'cython failed for {rel}:\n{r.stdout}\n{r.stderr}')
    cc, cflags, ldflags = _flags(flavour)
    r = subprocess.run([cc] + cflags + ldflags + [str(cfile), '-o', str(target)], cwd=shadow,
                       capture_output=True, text=True)
    if r.returncode != 0:
        raise RuntimeError(f'{cc} failed for {rel}:\n{r.stdout}\n{r.stderr}')
    cfile.unlink(missing_ok=True)
    try:
        cached.parent.mkdir(parents=True, exist_ok=True)
        tmp = cached.with_suffix('.tmp%d' % os.getpid())
        shutil.copy2(target, tmp)
        os.replace(tmp, cached)
    except OSError:
        pass
    return 'built'


def shadow(flavour: str = 'plain', repo: Path = REPO) -> Path:
    """Materialise the shadow tree; returns the directory to put on PYTHONPATH."""
    assert flavour in FLAVOURS
    root = Path(tempfile.mkdtemp(prefix=f'vf-shadow-{flavour}-'))
    shutil.copytree(repo / 'atomman', root / 'atomman', ignore=_ignore)
    if flavour == 'checked':
        for rel in PYX:
            p = root / rel
            s = p.read_text()
            p.write_text(s.replace('@cython.boundscheck(False)', '@cython.boundscheck(True)'))
    with ThreadPoolExecutor(len(PYX)) as ex:
        how = list(ex.map(lambda rel: _build_one(root, rel, flavour), PYX))
    (root / 'BUILD_INFO').write_text(f'{flavour} {tree_hash(repo)} {" ".join(how)}\n')
    return root


def remove(root: Path):
    shutil.rmtree(root, ignore_errors=True)


def worker_env(shadow_root: Path, flavour: str = 'plain', extra: dict | None = None) -> dict:
    env = dict(os.environ)
    env['PYTHONPATH'] = f'{shadow_root}:{VERIF}'
    env['ATOMMAN_VERIF'] = '1'
    env['PYTHONHASHSEED'] = '0'
    env['VF_SHADOW'] = str(shadow_root)
    env['VF_FLAVOUR'] = flavour
    env['PYTHONDONTWRITEBYTECODE'] = '1'
    env.setdefault('OMP_NUM_THREADS', '1')
    env.setdefault('OPENBLAS_NUM_THREADS', '1')
    env.setdefault('MKL_NUM_THREADS', '1')
    if flavour == 'asan':
        env['LD_PRELOAD'] = ASAN_RT
        env['PYTHONMALLOC'] = 'malloc'
        env['ASAN_OPTIONS'] = ('detect_leaks=0:halt_on_error=0:abort_on_error=0:'
                               'allocator_may_return_null=1:log_path=' + str(shadow_root / 'asan.log'))
        env['UBSAN_OPTIONS'] = 'print_stacktrace=1:log_path=' + str(shadow_root / 'ubsan.log')
    if extra:
        env.update(extra)
    return env


def sanitizer_reports(shadow_root: Path):
    """Count sanitizer report blocks written by workers (de-duplicated by the
    first frame inside an atomman extension)."""
    reports = {}
    for p in list(shadow_root.glob('asan.log*')) + list(shadow_root.glob('ubsan.log*')):
        try:
            text = p.read_text(errors='replace')
        except OSError:
            continue
        blocks = [b for b in text.split('=================================================================') if 'ERROR: AddressSanitizer' in b]
        blocks += [l for l in text.splitlines() if 'runtime error:' in l]
        for b in blocks:
            head = b.strip().splitlines()[0] if b.strip() else '?'
            frame = next((l.strip() for l in b.splitlines() if 'atomman' in l and ('.pyx' in l or '.c:' in l)), head)
            reports.setdefault(frame[:200], []).append(head[:300])
    return reports


def prebuild():
    for fl in FLAVOURS:
        r = shadow(fl)
        print(fl, (r / 'BUILD_INFO').read_text().strip())
        remove(r)


if __name__ == '__main__':
    if '--prebuild' in sys.argv:
        prebuild()
    else:
        print(tree_hash())
