"""Launcher: ``python -m vf.check C03 --tier quick``.

Builds the shadow tree(s) from /repo's current working tree, fans the property
module's workload out over worker processes, merges what the monitors
observed, classifies violations against KNOWN_FINDINGS.json, writes
evidence/<id>.json and replay files, and sets the exit status:

  0  held on everything observed (known findings are printed, not failed)
  1  a violation that is not a listed known finding  (VIOLATION line printed)
  2  inconclusive (coverage floor missed, harness error, watchdog)
"""
from __future__ import annotations

import argparse
import json
import os
import subprocess
import sys
import tempfile
import time
from concurrent.futures import ThreadPoolExecutor
from pathlib import Path

from . import build, findings
from .registry import config

VERIF = Path(__file__).resolve().parent.parent
PY = sys.executable


def _run_worker(job):
    prop, tier, seed, shard, nshards, flavour, shadow, outdir, timeout, only = job
    tag = f'{flavour}-s{seed}-{shard}of{nshards}'
    out = outdir / f'{tag}.json'
    prog = outdir / f'{tag}.progress'
    env = build.worker_env(shadow, flavour, {'VF_PROGRESS': str(prog), 'VF_FIRST_SEED': os.environ.get('VF_FIRST_SEED', '')})
    cmd = [PY, '-W', 'ignore', '-m', 'vf.worker', prop, '--tier', tier, '--seed', str(seed),
           '--shard', f'{shard}/{nshards}', '--out', str(out)]
    if only:
        cmd += ['--only', only]
    t0 = time.time()
    res = dict(tag=tag, flavour=flavour, seed=seed, shard=shard, status='ok', data=None, stderr='')
    try:
        p = subprocess.run(cmd, env=env, cwd=str(VERIF), capture_output=True, text=True, timeout=timeout)
        res['rc'] = p.returncode
        res['stderr'] = p.stderr[-3000:]
    except subprocess.TimeoutExpired as e:
        res['status'] = 'timeout'
        res['rc'] = None
        res['stderr'] = (e.stderr or b'')[-2000:].decode('utf-8', 'replace') if isinstance(e.stderr, bytes) else str(e.stderr)[-2000:]
    res['wall_s'] = time.time() - t0
    if out.exists():
        try:
            res['data'] = json.loads(out.read_text())
        except Exception as e:  # pragma: no cover
            res['status'] = 'badjson'
            res['stderr'] += f'\n{e}'
    if res['data'] is None and res['status'] == 'ok':
        res['status'] = 'crash'
    if prog.exists():
        res['progress'] = prog.read_text().strip()
    return res


def main(argv=None):
    ap = argparse.ArgumentParser()
    ap.add_argument('prop')
    ap.add_argument('--tier', default=os.environ.get('VERIF_TIER', 'quick'), choices=['quick', 'thorough'])
    ap.add_argument('--seed', type=int, default=None)
    ap.add_argument('--only', default=None, help='replay selection group:i[,..]')
    ap.add_argument('--flavour', default=None, help='restrict to one build flavour')
    ap.add_argument('--no-evidence', action='store_true')
    a = ap.parse_args(argv)
    prop = a.prop.upper()
    seed = a.seed if a.seed is not None else int(os.environ.get('VERIF_SEED', '0') or 0)
    tier = a.tier
    cfg = config(prop, tier)
    flavours = [a.flavour] if a.flavour else cfg['flavours']
    t0 = time.time()

    ncpu = os.cpu_count() or 4
    shadows = {}
    results = []
    try:
        for fl in flavours:
            shadows[fl] = build.shadow(fl)
        tree = build.tree_hash()
        with tempfile.TemporaryDirectory(prefix='vf-out-') as od:
            outdir = Path(od)
            jobs = []
            seeds = [seed + k for k in range(cfg['seeds'])]
            os.environ['VF_FIRST_SEED'] = str(seed)
            for fl in flavours:
                if a.only:
                    jobs.append((prop, tier, seed, 0, 1, fl, shadows[fl], outdir, cfg['timeout'], a.only))
                    continue
                fl_seeds = seeds if fl == 'plain' else seeds[:1]
                for s in fl_seeds:
                    for k in range(cfg['shards']):
                        jobs.append((prop, tier, s, k, cfg['shards'], fl, shadows[fl], outdir, cfg['timeout'], None))
            with ThreadPoolExecutor(min(ncpu, len(jobs))) as ex:
                results = list(ex.map(_run_worker, jobs))
        san = {}
        if 'asan' in shadows:
            san = build.sanitizer_reports(shadows['asan'])
    finally:
        for r in shadows.values():
            build.remove(r)

    # ---- merge -------------------------------------------------------------
    evaluations = 0
    fps, classes, samples, counters, refusals, floors = set(), {}, {}, {}, {}, {}
    violations, viol_keys, inconclusive = [], {}, []
    n_viol = 0
    per_flavour = {}
    rule, assumptions = '', []
    for r in results:
        d = r['data']
        if r['status'] == 'timeout':
            inconclusive.append(f"watchdog:{r['tag']} after {r['wall_s']:.0f}s at case {r.get('progress')}")
        elif r['status'] in ('crash', 'badjson'):
            # the interpreter died inside the real code (segfault/abort): that is
            # an observation, attributed to the case the worker had announced
            g, _, i = (r.get('progress') or '? -1').partition(' ')
            key = f"crash:{r['flavour']}"
            n_viol += 1
            viol_keys[key] = viol_keys.get(key, 0) + 1
            violations.append({'property': prop, 'clause': 'no crash of the interpreter in native code',
                               'key': key, 'seed': r['seed'], 'tier': tier, 'flavour': r['flavour'],
                               'group': g, 'case': int(i.strip() or -1),
                               'detail': {'returncode': r.get('rc'), 'stderr': r['stderr'][-1500:]}})
        if d is None:
            continue
        if d.get('harness_error'):
            inconclusive.append(f"harness:{r['tag']}: {d['harness_error'][-600:]}")
        if d.get('tree') and d['tree'] != tree:
            inconclusive.append(f"tree changed during run ({d['tree']} vs {tree})")
        rule = rule or d.get('rule', '')
        assumptions = assumptions or d.get('assumptions', [])
        evaluations += d['evaluations']
        fps.update(d['fps'])
        pf = per_flavour.setdefault(r['flavour'], {'workers': 0, 'evaluations': 0, 'wall_s': 0.0})
        pf['workers'] += 1
        pf['evaluations'] += d['evaluations']
        pf['wall_s'] = round(pf['wall_s'] + d.get('wall_s', 0.0), 1)
        for k, v in d['classes'].items():
            classes[k] = classes.get(k, 0) + v
        for g, lst in d['samples'].items():
            cur = samples.setdefault(g, [])
            for s_ in lst:
                if len(cur) < 2:
                    cur.append(s_)
        for src, dst in ((d['counters'], counters), (d['refusals'], refusals), (d['viol_keys'], viol_keys)):
            for k, v in src.items():
                dst[k] = dst.get(k, 0) + v
        for k, v in d['floors'].items():
            floors[k] = max(floors.get(k, 0), v)
        violations.extend(d['violations'])
        n_viol += d['n_violations']
    for frame, heads in san.items():
        key = 'sanitizer:' + frame
        n_viol += len(heads)
        viol_keys[key] = viol_keys.get(key, 0) + len(heads)
        violations.append({'property': prop, 'clause': 'no sanitizer report in the Cython extensions', 'key': key,
                           'seed': seed, 'tier': tier, 'flavour': 'asan', 'group': None, 'case': None,
                           'detail': {'reports': heads[:3], 'count': len(heads)}})

    if not a.only:
        if evaluations == 0:
            inconclusive.append('no case was evaluated')
        for name, minimum in sorted(floors.items()):
            if counters.get(name, 0) < minimum:
                inconclusive.append(f'floor:{name}={counters.get(name, 0)}<{minimum}')

    # ---- classify ----------------------------------------------------------
    known = findings.load(prop)
    lines, replay_paths = [], []
    unknown_keys = {}
    known_hit = {}
    for v in violations:
        kf = findings.match(known, v['key'])
        if kf is not None:
            known_hit.setdefault(kf['key'], kf)
        else:
            unknown_keys.setdefault(v['key'], []).append(v)
    # keys counted by workers beyond the violations written out in full
    for k in viol_keys:
        if findings.match(known, k) is None and k not in unknown_keys:
            unknown_keys[k] = []
    for kf in known_hit.values():
        lines.append(f"KNOWN-FINDING: property={prop} {kf['what']}")
    rdir = VERIF / 'replay'
    n = 0
    for key, vs in sorted(unknown_keys.items()):
        rdir.mkdir(exist_ok=True)
        path = rdir / f'{prop}-{seed}-{n}.json'
        n += 1
        first = vs[0] if vs else {'property': prop, 'key': key, 'seed': seed, 'tier': tier}
        path.write_text(json.dumps({'property': prop, 'key': key, 'count': viol_keys.get(key, len(vs)),
                                    'tree': tree, 'first': first, 'more': vs[1:4]}, indent=1))
        replay_paths.append(str(path))
        lines.append(f'VIOLATION property={prop} replay={path}')
        c = first.get('clause', key)
        lines.append(f'  clause: {c}  key: {key}  occurrences: {viol_keys.get(key, len(vs))}')

    status = 'violated' if unknown_keys else ('inconclusive' if inconclusive else 'held')
    wall = time.time() - t0

    # ---- evidence ----------------------------------------------------------
    if not a.no_evidence and not a.only:
        from . import evidence
        flat_samples = []
        for g, lst in sorted(samples.items()):
            for s_ in lst[:1]:
                flat_samples.append({'group': g, 'case': s_})
        evidence.write(prop, tier, seed, dict(
            evaluations=evaluations, distinct_nontrivial=len(fps), rule=rule, samples=flat_samples[:8] or ['(none)'],
            distinct_classes=len(classes),
            class_histogram=dict(sorted(classes.items(), key=lambda kv: -kv[1])[:40]),
            monitor_counters={k: v for k, v in sorted(counters.items())},
            refusals_accepted=refusals, coverage_floors=floors, per_flavour=per_flavour,
            sanitizer_reports=sum(len(h) for h in san.values()) if 'asan' in shadows else None,
            known_findings_hit=sorted(known_hit), violation_keys={k: viol_keys.get(k, 0) for k in unknown_keys},
            inconclusive=inconclusive, verdict=status, tree=tree, seeds=sorted({r['seed'] for r in results}),
            workers=len(results), flavours=flavours,
        ), wall, violations=len(unknown_keys), assumptions=assumptions)

    for ln in lines:
        print(ln)
    for r_ in inconclusive:
        print(f'INCONCLUSIVE property={prop} reason={r_}')
    print(f'{prop} {tier} seed={seed}: {status}; evaluations={evaluations} distinct={len(fps)} '
          f'classes={len(classes)} workers={len(results)} wall={wall:.1f}s tree={tree}')
    return 1 if unknown_keys else (2 if inconclusive else 0)


if __name__ == '__main__':
    sys.exit(main())
