"""Recorder / case context shared by every property module.

A property module exposes ``run(ctx)``.  Inside it iterates over numbered
cases with ``for i in ctx.cases('group', n):``; for each case ``ctx.rng`` is a
numpy Generator seeded by (seed, group, i), so any case can be replayed alone.
Monitors never raise into the code under test: they call ``ctx.rec.check`` /
``ctx.rec.fail`` which record an event and continue.
"""
from __future__ import annotations

import hashlib
import json
import os
import time
import traceback
import zlib

import numpy as np


def js(o, depth=0):
    """Best-effort conversion to something json.dump accepts."""
    if depth > 8:
        return repr(o)[:200]
    if o is None or isinstance(o, (bool, str)):
        return o
    if isinstance(o, (int, np.integer)):
        return int(o)
    if isinstance(o, (float, np.floating)):
        f = float(o)
        return f if np.isfinite(f) else repr(f)
    if isinstance(o, complex):
        return [o.real, o.imag]
    if isinstance(o, np.ndarray):
        if o.size > 400:
            return {'shape': list(o.shape), 'dtype': str(o.dtype), 'head': js(o.ravel()[:30].tolist(), depth + 1)}
        return js(o.tolist(), depth + 1)
    if isinstance(o, (list, tuple, set, frozenset)):
        return [js(x, depth + 1) for x in o]
    if isinstance(o, dict):
        return {str(k): js(v, depth + 1) for k, v in o.items()}
    if isinstance(o, (bytes, bytearray)):
        return o.decode('utf-8', 'replace')[:2000]
    if isinstance(o, BaseException):
        return f'{type(o).__name__}: {o}'[:500]
    return repr(o)[:300]


def fingerprint(*objs) -> str:
    h = hashlib.sha1()
    for o in objs:
        if isinstance(o, np.ndarray):
            h.update(str(o.shape).encode())
            h.update(np.ascontiguousarray(o).tobytes())
        else:
            h.update(json.dumps(js(o), sort_keys=True).encode())
    return h.hexdigest()[:16]


class Recorder:
    MAX_VIOL = 40        # violations written out in full per worker
    MAX_SAMPLES = 3      # per group per worker

    def __init__(self, prop, seed, tier, flavour='plain', shard=0, nshards=1):
        self.prop, self.seed, self.tier, self.flavour = prop, seed, tier, flavour
        self.shard, self.nshards = shard, nshards
        self.counters = {}
        self.evaluations = 0
        self.fps = set()            # fingerprints of distinct non-trivial cases
        self.classes = {}           # class signature -> count
        self.samples = {}
        self.violations = []
        self.n_violations = 0
        self.viol_keys = {}
        self.refusals = {}
        self.floors = {}
        self.cur = None             # (group, i)
        self.context = None         # free-text context of the code under test (e.g. pytest node id), copied into violations
        self._pfd = None
        p = os.environ.get('VF_PROGRESS')
        if p:
            self._pfd = os.open(p, os.O_WRONLY | os.O_CREAT, 0o644)

    # -- progress marker (survives a segfault) --------------------------------
    def _mark(self, group, i):
        self.cur = (group, i)
        if self._pfd is not None:
            os.pwrite(self._pfd, f'{group} {i}          \n'.encode(), 0)

    # -- bookkeeping ----------------------------------------------------------
    def count(self, name, n=1):
        self.counters[name] = self.counters.get(name, 0) + n

    def floor(self, name, minimum):
        """Declare that the merged counter ``name`` must reach ``minimum`` for a
        'held' verdict (otherwise the run is inconclusive)."""
        self.floors[name] = max(self.floors.get(name, 0), minimum)

    def case(self, sig, nontrivial=True, fp=None):
        """Register one evaluated case. ``sig`` is its class signature; ``fp``
        a fingerprint of its concrete inputs (defaults to group/index/seed)."""
        self.evaluations += 1
        s = json.dumps(js(sig))
        self.classes[s] = self.classes.get(s, 0) + 1
        if nontrivial:
            if fp is None:
                fp = f'{self.seed}:{self.cur}'
            self.fps.add(fp)

    def sample(self, obj, group=None):
        g = group or (self.cur[0] if self.cur else '-')
        lst = self.samples.setdefault(g, [])
        if len(lst) < self.MAX_SAMPLES:
            lst.append(js(obj))

    def refusal(self, kind):
        self.refusals[kind] = self.refusals.get(kind, 0) + 1

    def fail(self, clause, key=None, **detail):
        """Record a refuted clause.  ``key`` names the mechanism (entry point +
        input class + clause) and is what KNOWN_FINDINGS.json is matched on."""
        self.n_violations += 1
        key = key or clause
        self.viol_keys[key] = self.viol_keys.get(key, 0) + 1
        if len(self.violations) < self.MAX_VIOL and self.viol_keys[key] <= 5:
            self.violations.append({
                'property': self.prop, 'clause': clause, 'key': key, 'seed': self.seed,
                'tier': self.tier, 'flavour': self.flavour,
                'group': self.cur[0] if self.cur else None,
                'case': self.cur[1] if self.cur else None,
                'context': self.context,
                'detail': js(detail)})

    def check(self, ok, clause, key=None, **detail):
        self.count('clause:' + clause)
        if not bool(ok):
            self.fail(clause, key, **detail)
            return False
        return True

    def close(self, tol, a, b, clause, key=None, rtol=0.0, **detail):
        """|a-b| <= tol + rtol*|b| elementwise; shapes must agree."""
        a = np.asarray(a)
        b = np.asarray(b)
        self.count('clause:' + clause)
        if a.shape != b.shape:
            self.fail(clause, key, why='shape', got_shape=a.shape, exp_shape=b.shape, **detail)
            return False
        if a.size == 0:
            return True
        with np.errstate(all='ignore'):
            err = np.abs(a.astype(float) - b.astype(float))
            lim = tol + rtol * np.abs(b.astype(float))
            bad = ~(err <= lim)
        if bad.any():
            self.fail(clause, key, max_err=float(np.nanmax(err)) if np.isfinite(err).any() else 'nan',
                      tol=float(np.max(lim)), got=a, expected=b, **detail)
            return False
        return True

    def to_json(self):
        return {
            'prop': self.prop, 'seed': self.seed, 'tier': self.tier, 'flavour': self.flavour,
            'shard': self.shard, 'nshards': self.nshards,
            'evaluations': self.evaluations, 'fps': sorted(self.fps), 'classes': self.classes,
            'samples': self.samples, 'violations': self.violations, 'n_violations': self.n_violations,
            'viol_keys': self.viol_keys, 'refusals': self.refusals, 'counters': self.counters,
            'floors': self.floors,
        }


class Ctx:
    def __init__(self, rec: Recorder, only=None):
        self.rec = rec
        self.seed, self.tier = rec.seed, rec.tier
        self.quick = rec.tier == 'quick'
        self.flavour = rec.flavour
        self.only = only            # None or set of (group, i)
        self.rng = np.random.default_rng([rec.seed, 0])
        self.t0 = time.time()

    def pick(self, quick, thorough):
        return quick if self.quick else thorough

    def case_rng(self, group, i):
        return np.random.default_rng([self.seed, zlib.crc32(group.encode()), i])

    def cases(self, group, n):
        """Yield the case indices of ``group`` that belong to this worker's
        shard (or to the replay selection), seeding ``ctx.rng`` per case."""
        rec = self.rec
        for i in range(n):
            if self.only is not None:
                if (group, i) not in self.only:
                    continue
            elif i % rec.nshards != rec.shard:
                continue
            self.rng = self.case_rng(group, i)
            rec._mark(group, i)
            rec.count('cases:' + group)
            yield i

    def guard(self, clause, key=None, accept=()):
        """Context manager: an exception escaping the real code on an in-domain
        input refutes ``clause`` unless its type is in ``accept``."""
        return _Guard(self.rec, clause, key, accept)


class _Guard:
    def __init__(self, rec, clause, key, accept):
        self.rec, self.clause, self.key, self.accept = rec, clause, key, tuple(accept)
        self.exc = None

    def __enter__(self):
        return self

    def __exit__(self, et, ev, tb):
        if et is None:
            return False
        if issubclass(et, (KeyboardInterrupt, SystemExit, MemoryError)):
            return False
        self.exc = ev
        if self.accept and issubclass(et, self.accept):
            self.rec.refusal(f'{self.clause}:{et.__name__}')
            return True
        tbs = traceback.format_exception(et, ev, tb)
        self.rec.fail(self.clause + ':exception', self.key, exception=f'{et.__name__}: {ev}',
                      where=''.join(tbs[-3:])[-1500:])
        return True
