"""Reach monitor: which source lines of chosen atomman files did the workload
actually execute?  (sys.monitoring LINE events, Python >= 3.12; each line fires
once and is then disabled, so the overhead is negligible.)

    from vf import cover
    cover.start(['atomman/tools/miller.py'])          # path suffixes
    ... workload ...
    n = cover.hits('atomman/tools/miller.py', 339, 458)   # distinct lines hit in the range
    cover.lines('atomman/tools/miller.py')             # sorted list of executed lines

It is evidence of reach only (a floor such as ``rec.floor('reach:branch-x', 1)``
turns "the anchored code was never executed" into INCONCLUSIVE instead of
"held").  Cython code is invisible to it.
"""
from __future__ import annotations

import sys

_TOOL = 3          # sys.monitoring tool id (0-5 are free for applications; 3 is unused by debuggers/profilers)
_suffixes = []
_hit = {}          # filename -> set(lines)
_match_cache = {}
_on = False


def _want(filename):
    r = _match_cache.get(filename)
    if r is None:
        f = filename.replace('\\', '/')
        r = any(f.endswith(s) for s in _suffixes)
        _match_cache[filename] = r
    return r


def _line(code, line):
    fn = code.co_filename
    if _want(fn):
        _hit.setdefault(fn, set()).add(line)
    return sys.monitoring.DISABLE


def start(path_suffixes):
    """Begin (or extend) recording for files whose path ends with one of the suffixes."""
    global _on
    for s in path_suffixes:
        if s not in _suffixes:
            _suffixes.append(s)
    _match_cache.clear()
    if not hasattr(sys, 'monitoring'):
        return False
    m = sys.monitoring
    if not _on:
        try:
            m.use_tool_id(_TOOL, 'vf.cover')
        except ValueError:
            pass
        m.register_callback(_TOOL, m.events.LINE, _line)
        m.set_events(_TOOL, m.events.LINE)
        _on = True
    else:
        m.restart_events()
    return True


def stop():
    global _on
    if _on:
        m = sys.monitoring
        m.set_events(_TOOL, 0)
        m.register_callback(_TOOL, m.events.LINE, None)
        try:
            m.free_tool_id(_TOOL)
        except Exception:
            pass
        _on = False


def lines(path_suffix):
    out = set()
    for fn, s in _hit.items():
        if fn.replace('\\', '/').endswith(path_suffix):
            out |= s
    return sorted(out)


def hits(path_suffix, lo, hi):
    return sum(1 for ln in lines(path_suffix) if lo <= ln <= hi)


def hit(path_suffix, line):
    return line in lines(path_suffix)
