"""Writer for evidence/<id>.json (EVIDENCE.schema.json), with a self-check of
the keys the schema requires for the 'exploration' level."""
from __future__ import annotations

import json
from pathlib import Path

VERIF = Path(__file__).resolve().parent.parent


def write(prop, tier, seed, coverage, wall_s, violations=0, assumptions=()):
    cov = dict(coverage)
    cov.setdefault('rule', '')
    cov['exhaustive'] = bool(cov.get('exhaustive', False))
    doc = {
        'property_id': prop, 'tier': tier, 'seed': int(seed), 'level': 'exploration',
        'coverage': cov,
        'assumptions': list(assumptions),
        'wall_s': round(float(wall_s), 2), 'violations': int(violations),
    }
    # self-check against the schema's requirements for this level
    for k in ('evaluations', 'distinct_nontrivial', 'rule', 'samples'):
        assert k in cov, k
    assert isinstance(cov['samples'], list) and len(cov['samples']) >= 1
    d = VERIF / 'evidence'
    d.mkdir(exist_ok=True)
    (d / f'{prop}.json').write_text(json.dumps(doc, indent=1, sort_keys=False) + '\n')
    return doc
