"""KNOWN_FINDINGS.json: genuine defects recorded rather than repaired ('known')
and the log of repaired ones ('fixed', which suppress nothing).  Matched on the
mechanism key a monitor attaches to a violation -- never on seeds or values.
The file is read, never written, by the checks."""
from __future__ import annotations

import fnmatch
import json
from pathlib import Path

VERIF = Path(__file__).resolve().parent.parent


def load(prop):
    p = VERIF / 'KNOWN_FINDINGS.json'
    if not p.exists():
        return []
    doc = json.loads(p.read_text())
    return [f for f in doc.get('findings', []) if f.get('property') == prop and f.get('kind') == 'known']


def match(known, key):
    for f in known:
        if f['key'] == key:
            return f
    return None
