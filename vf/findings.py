"""KNOWN_FINDINGS.json: genuine defects recorded rather than repaired ('known')
and the log of repaired ones ('fixed', which suppress nothing).  Matched on the
mechanism key a monitor attaches to a violation -- never on seeds or values.
The file is read, never written, by the checks."""
from __future__ import annotations

import fnmatch
import json
from pathlib import Path

VERIF = Path(__file__).resolve().parent.parent


def load(prop):
    p = VERIF / 'KNOWN_FINDINGS.json'
    if not p.exists():
        return []
    items = list(json.loads(p.read_text()).get('findings', []))
    # per-property staging files (same entry format), merged into the main file when reviewed
    d = VERIF / 'KNOWN_FINDINGS.d'
    if d.is_dir():
        for q in sorted(d.glob('*.json')):
            items.extend(json.loads(q.read_text()).get('findings', []))
    return [f for f in items if f.get('property') == prop and f.get('kind') == 'known']


def match(known, key):
    for f in known:
        if f['key'] == key:
            return f
    return None
