"""C01 generators (numpy only): the cell classes of vf.gen.cells widened to the whole quantifier of the property
(length scales 1e-10 .. 1e4, origins up to 1e6 cell edges away), integer-valued cells, and the argument *forms*
(dtype / layout / container) in which a caller may hand arrays and scalars to a Box."""
from __future__ import annotations

import numpy as np

from . import cells
from ..oracle import geometry as G

KINDS = cells.KINDS                                  # 7 families + tilted + rotated
ORIGINS = ['zero', 'near', 'far', 'huge']            # 0, O(L), O(1e3 L), O(1e5..1e6 L)
SCALES = [1.0, 1e-10, 1e4, 1e-4]                     # metres .. 1e4 angstrom
ORTHO = ['cubic', 'tetragonal', 'orthorhombic']      # axis-aligned kinds


def stratified(i):
    """Round-robin over kind x origin class x length scale (144 classes)."""
    kind = KINDS[i % len(KINDS)]
    origin = ORIGINS[(i // len(KINDS)) % len(ORIGINS)]
    scale = SCALES[(i // (len(KINDS) * len(ORIGINS))) % len(SCALES)]
    return kind, origin, scale


def gen_cell(rng, kind, origin='zero', scale=1.0):
    """vf.gen.cells.gen_cell plus the 'huge' origin class and the 'integer' kind."""
    if kind == 'integer':
        return gen_integer_cell(rng, origin)
    if origin != 'huge':
        return cells.gen_cell(rng, kind, origin, scale)
    cell = cells.gen_cell(rng, kind, 'zero', scale)
    L = cell['L']
    cell['origin'] = rng.choice([-1.0, 1.0], 3) * rng.uniform(1e5, 1e6, 3) * L
    cell['origin_class'] = 'huge'
    return cell


def gen_integer_cell(rng, origin='near'):
    """LAMMPS-form cell whose lengths, tilts and origin are whole numbers (so that it can be given through integer
    arrays / python ints)."""
    lx, ly, lz = (int(x) for x in rng.integers(3, 10, 3))
    xy = int(rng.integers(-lx, lx + 1))
    xz = int(rng.integers(-lx, lx + 1))
    yz = int(rng.integers(-ly, ly + 1))
    v = G.vects_from_lammps(lx, ly, lz, xy, xz, yz)
    L = np.linalg.norm(v, axis=1).max()
    if origin == 'zero':
        o = np.zeros(3)
    elif origin == 'near':
        o = rng.integers(-12, 13, 3).astype(float)
    else:
        o = rng.integers(-20000, 20001, 3).astype(float)
    return dict(kind='integer', vects=v, origin=o, params=None, lammps=True, L=L, origin_class=origin, scale=1.0)


# ---------------------------------------------------------------------------------------------------------------------
# argument forms
# ---------------------------------------------------------------------------------------------------------------------
FLOAT_FORMS = ['f64', 'f64-view', 'f64-F', 'f64-ro', 'f32', 'list', 'tuple']
INT_FORMS = ['i64', 'i32', 'intlist', 'inttuple']
ARRAY_FORMS = FLOAT_FORMS + INT_FORMS
SCALAR_FORMS = ['float', 'np.float64', 'int', 'np.float32']


def _tuplify(x):
    return tuple(_tuplify(y) for y in x) if isinstance(x, list) else x


def as_form(arr, form):
    """A fresh object holding the values of ``arr`` in the requested form.  Integer forms require whole-number values.
    The float32 form rounds the values (the cell/points *given* are then the rounded ones)."""
    a = np.array(arr, dtype=float)
    if form == 'f64':
        return a.copy()
    if form == 'f64-view':                       # non-contiguous view into a larger buffer (like a column of a table)
        big = np.full(tuple(2 * s + 1 for s in a.shape) if a.ndim else (), -12345.678)
        if a.ndim == 0:
            return a.copy()
        sl = tuple(slice(1, None, 2) for _ in a.shape)
        big[sl] = a
        return big[sl]
    if form == 'f64-F':
        return np.asfortranarray(a.copy()) if a.ndim >= 2 else a.copy()
    if form == 'f64-ro':
        a = a.copy()
        a.flags.writeable = False
        return a
    if form == 'f32':
        return a.astype(np.float32)
    if form == 'list':
        return a.tolist()
    if form == 'tuple':
        return _tuplify(a.tolist())
    assert np.all(a == np.rint(a)), 'integer form needs whole numbers'
    if form == 'i64':
        return a.astype(np.int64)
    if form == 'i32':
        return a.astype(np.int32)
    if form == 'intlist':
        return a.astype(np.int64).tolist()
    if form == 'inttuple':
        return _tuplify(a.astype(np.int64).tolist())
    raise ValueError(form)


def scalar_as(x, form):
    if form == 'float':
        return float(x)
    if form == 'np.float64':
        return np.float64(x)
    if form == 'np.float32':
        return np.float32(x)
    if form == 'int':
        assert float(x) == int(x)
        return int(x)
    raise ValueError(form)


def value_of(x):
    """float64 value(s) actually carried by an argument object."""
    return np.array(x, dtype=float)          # always a copy: the expected value must not alias the argument


def form_of(x):
    """Form label of an argument object as a monitor sees it (stable vocabulary for mechanism keys)."""
    if isinstance(x, np.ndarray):
        s = str(x.dtype)
        if not x.flags.writeable:
            s += '-ro'
        elif x.ndim >= 1 and not (x.flags.c_contiguous or x.flags.f_contiguous):
            s += '-view'
        elif x.ndim >= 2 and x.flags.f_contiguous and not x.flags.c_contiguous:
            s += '-F'
        return s
    if isinstance(x, list):
        return 'list'
    if isinstance(x, tuple):
        return 'tuple'
    if isinstance(x, np.generic):
        return 'np.' + type(x).__name__
    return type(x).__name__


# ---------------------------------------------------------------------------------------------------------------------
# points
# ---------------------------------------------------------------------------------------------------------------------
SHAPES = ['single', 'N', 'MN', 'one', 'empty', 'KMN']
SHAPE_OF = {'single': (3,), 'N': (12, 3), 'MN': (3, 4, 3), 'one': (1, 3), 'empty': (0, 3), 'KMN': (2, 2, 3, 3)}


def gen_rel_points(rng, shape_class):
    """Relative coordinates with interior, exterior, far-exterior, near-face and on-face entries."""
    shape = SHAPE_OF[shape_class]
    n = int(np.prod(shape[:-1])) if len(shape) > 1 else 1
    rel = rng.uniform(-0.6, 1.6, (n, 3))
    k = rng.integers(0, 6, n)
    for j in range(n):
        if k[j] == 0:
            rel[j] = rng.uniform(0.05, 0.95, 3)                       # interior
        elif k[j] == 1:
            rel[j] = rng.uniform(-40, 40, 3)                          # far exterior
        elif k[j] == 2:                                               # just inside / outside a face
            ax = rng.integers(0, 3)
            rel[j] = rng.uniform(0.1, 0.9, 3)
            rel[j, ax] = rng.choice([0.0, 1.0]) + rng.choice([-1, 1]) * 10 ** rng.uniform(-6, -2)
        elif k[j] == 3:                                               # exactly on a face / edge / corner
            rel[j] = rng.uniform(0.1, 0.9, 3)
            for ax in range(3):
                if rng.random() < 0.5:
                    rel[j, ax] = rng.choice([0.0, 1.0])
    return rel.reshape(shape)
