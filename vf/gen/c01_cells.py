"""C01 generators (numpy only): the cell classes of vf.gen.cells widened to the whole quantifier of the property
(length scales 1e-10 .. 1e4, origins up to 1e6 cell edges away), integer-valued cells, and the argument *forms*
(dtype / layout / container) in which a caller may hand arrays and scalars to a Box."""
from __future__ import annotations

import numpy as np

from . import cells
from ..oracle import geometry as G

KINDS = cells.KINDS                                  # 7 families + tilted + rotated
ORIGINS = ['zero', 'near', 'far', 'huge']            # 0, O(L), O(1e3 L), O(1e5..1e6 L)
SCALES = [1.0, 1e-10, 1e4, 1e-4]                     # metres .. 1e4 angstrom
ORTHO = ['cubic', 'tetragonal', 'orthorhombic']      # axis-aligned kinds


def stratified(i):
    """Round-robin over kind x origin class x length scale (144 classes)."""
    kind = KINDS[i % len(KINDS)]
    origin = ORIGINS[(i // len(KINDS)) % len(ORIGINS)]
    scale = SCALES[(i // (len(KINDS) * len(ORIGINS))) % len(SCALES)]
    return kind, origin, scale


def gen_cell(rng, kind, origin='zero', scale=1.0):
    """vf.gen.cells.gen_cell plus the 'huge' origin class and the 'integer' kind."""
    if kind == 'integer':
        return gen_integer_cell(rng, origin)
    if origin != 'huge':
        return cells.gen_cell(rng, kind, origin, scale)
    cell = cells.gen_cell(rng, kind, 'zero', scale)
    L = cell['L']
    cell['origin'] = rng.choice([-1.0, 1.0], 3) * rng.uniform(1e5, 1e6, 3) * L
    cell['origin_class'] = 'huge'
    return cell


def gen_integer_cell(rng, origin='near'):
    """LAMMPS-form cell whose lengths, tilts and origin are whole numbers (so that it can be given through integer
    arrays / python ints)."""
    lx, ly, lz = (int(x) for x in rng.integers(3, 10, 3))
    xy = int(rng.integers(-lx, lx + 1))
    xz = int(rng.integers(-lx, lx + 1))
    yz = int(rng.integers(-ly, ly + 1))
    v = G.vects_from_lammps(lx, ly, lz, xy, xz, yz)
    L = np.linalg.norm(v, axis=1).max()
    if origin == 'zero':
        o = np.zeros(3)
    elif origin == 'near':
        o = rng.integers(-12, 13, 3).astype(float)
    else:
        o = rng.integers(-20000, 20001, 3).astype(float)
    return dict(kind='integer', vects=v, origin=o, params=None, lammps=True, L=L, origin_class=origin, scale=1.0)


# ---------------------------------------------------------------------------------------------------------------------
# argument forms
# ---------------------------------------------------------------------------------------------------------------------
FLOAT_FORMS = ['f64', 'f64-view', 'f64-F', 'f64-ro', 'f32', 'list', 'tuple']
INT_FORMS = ['i64', 'i32', 'intlist', 'inttuple']
ARRAY_FORMS = FLOAT_FORMS + INT_FORMS
SCALAR_FORMS = ['float', 'np.float64', 'int', 'np.float32']


def _tuplify(x):
    return tuple(_tuplify(y) for y in x) if isinstance(x, list) else x


def as_form(arr, form):
    """A fresh object holding the values of ``arr`` in the requested form.  Integer forms require whole-number values.
    The float32 form rounds the values (the cell/points *given* are then the rounded ones)."""
    a = np.array(arr, dtype=float)
    if form == 'f64':
        return a.copy()
    if form == 'f64-view':                       # non-contiguous view into a larger buffer (like a column of a table)
        big = np.full(tuple(2 * s + 1 for s in a.shape) if a.ndim else (), -12345.678)
        if a.ndim == 0:
            return a.copy()
        sl = tuple(slice(1, None, 2) for _ in a.shape)
        big[sl] = a
        return big[sl]
    if form == 'f64-F':
        return np.asfortranarray(a.copy()) if a.ndim >= 2 else a.copy()
    if form == 'f64-ro':
        a = a.copy()
        a.flags.writeable = False
        return a
    if form == 'f32':
        return a.astype(np.float32)
    if form == 'list':
        return a.tolist()
    if form == 'tuple':
        return _tuplify(a.tolist())
    assert np.all(a == np.rint(a)), 'integer form needs whole numbers'
    if form == 'i64':
        return a.astype(np.int64)
    if form == 'i32':
        return a.astype(np.int32)
    if form == 'intlist':
        return a.astype(np.int64).tolist()
    if form == 'inttuple':
        return _tuplify(a.astype(np.int64).tolist())
    raise ValueError(form)


def scalar_as(x, form):
    if form == 'float':
        return float(x)
    if form == 'np.float64':
        return np.float64(x)
    if form == 'np.float32':
        return np.float32(x)
    if form == 'int':
        assert float(x) == int(x)
        return int(x)
    raise ValueError(form)


def value_of(x):
    """float64 value(s) actually carried by an argument object."""
    return np.array(x, dtype=float)          # always a copy: the expected value must not alias the argument


def form_of(x):
    """Form label of an argument object as a monitor sees it (stable vocabulary for mechanism keys)."""
    if isinstance(x, np.ndarray):
        s = str(x.dtype)
        if not x.flags.writeable:
            s += '-ro'
        elif x.ndim >= 1 and not (x.flags.c_contiguous or x.flags.f_contiguous):
            s += '-view'
        elif x.ndim >= 2 and x.flags.f_contiguous and not x.flags.c_contiguous:
            s += '-F'
        return s
    if isinstance(x, list):
        return 'list'
    if isinstance(x, tuple):
        return 'tuple'
    if isinstance(x, np.generic):
        return 'np.' + type(x).__name__
    return type(x).__name__


# ---------------------------------------------------------------------------------------------------------------------
# points
# ---------------------------------------------------------------------------------------------------------------------
SHAPES = ['single', 'N', 'MN', 'one', 'empty', 'KMN']
SHAPE_OF = {'single': (3,), 'N': (12, 3), 'MN': (3, 4, 3), 'one': (1, 3), 'empty': (0, 3), 'KMN': (2, 2, 3, 3)}


def gen_rel_points(rng, shape_class):
    """Relative coordinates with interior, exterior, far-exterior, near-face and on-face entries."""
    shape = SHAPE_OF[shape_class]
    n = int(np.prod(shape[:-1])) if len(shape) > 1 else 1
    rel = rng.uniform(-0.6, 1.6, (n, 3))
    k = rng.integers(0, 6, n)
    for j in range(n):
        if k[j] == 0:
            rel[j] = rng.uniform(0.05, 0.95, 3)                       # interior
        elif k[j] == 1:
            rel[j] = rng.uniform(-40, 40, 3)                          # far exterior
        elif k[j] == 2:                                               # just inside / outside a face
            ax = rng.integers(0, 3)
            rel[j] = rng.uniform(0.1, 0.9, 3)
            rel[j, ax] = rng.choice([0.0, 1.0]) + rng.choice([-1, 1]) * 10 ** rng.uniform(-6, -2)
        elif k[j] == 3:                                               # exactly on a face / edge / corner
            rel[j] = rng.uniform(0.1, 0.9, 3)
            for ax in range(3):
                if rng.random() < 0.5:
                    rel[j, ax] = rng.choice([0.0, 1.0])
    return rel.reshape(shape)


# ---------------------------------------------------------------------------------------------------------------------
# cells with STRUCTURED zero patterns (exact zeros in chosen places, everything else clearly non-zero)
# ---------------------------------------------------------------------------------------------------------------------
# (pattern, sub-variant): the mask says which components of the 3x3 vector matrix are non-zero BEFORE the rows (which
# vector) and the columns (which Cartesian axis) are permuted
_U = [(0, 1), (0, 2), (1, 2)]
_FULL = np.ones((3, 3), bool)


def _mask(pattern, sub):
    m = np.eye(3, dtype=bool)
    if pattern == 'upper':                         # upper-triangular, everything above the diagonal populated
        m = np.triu(_FULL)
    elif pattern == 'lower':                       # lower-triangular = LAMMPS orientation (when the diagonal is > 0)
        m = np.tril(_FULL)
    elif pattern == 'diagonal':
        pass
    elif pattern == 'upper-one':                   # one single component above the diagonal (hexagonal with b along y, ...)
        m[_U[sub % 3]] = True
    elif pattern == 'upper-two':
        for k in range(3):
            if k != sub % 3:
                m[_U[k]] = True
    elif pattern == 'lower-one':
        r, c = _U[sub % 3]
        m[c, r] = True
    elif pattern == 'lower-two':
        for k in range(3):
            if k != sub % 3:
                r, c = _U[k]
                m[c, r] = True
    elif pattern == 'axis-general':                # one vector along a Cartesian axis, the other two general
        k = sub % 3
        m = _FULL.copy()
        m[k, :] = False
        m[k, k] = True
    elif pattern == 'block':                       # one vector along an axis, the other two in the plane normal to it
        k = sub % 3
        m = _FULL.copy()
        m[k, :] = False
        m[:, k] = False
        m[k, k] = True
    elif pattern == 'single-zero':                 # one exact zero in an otherwise general matrix
        m = _FULL.copy()
        m[(sub % 9) // 3, (sub % 9) % 3] = False
    elif pattern == 'hexagonal-setting':
        pass                                       # handled by value below
    else:
        raise ValueError(pattern)
    return m


PATTERNS = ['upper', 'lower', 'diagonal', 'upper-one', 'lower-one', 'axis-general', 'block', 'single-zero', 'upper-two',
            'lower-two', 'hexagonal-setting']
PERMS = [(0, 1, 2), (1, 2, 0), (2, 0, 1), (0, 2, 1), (2, 1, 0), (1, 0, 2)]


def structured_class(i):
    """Round-robin: pattern fastest; even rounds keep the pattern as named (upper-triangular stays upper-triangular),
    odd rounds permute rows (which vector) and columns (which axis) - all 36 arrangements occur within 24 rounds;
    sub-variant, origin class and length scale rotate on their own periods."""
    nP = len(PATTERNS)
    p = i % nP
    j = i // nP
    k = j // 2
    rowp, colp = (0, 0) if j % 2 == 0 else (k % 6, (k // 6 + p) % 6)
    return PATTERNS[p], (j + j // 6) % 9, rowp, colp, ORIGINS[i % 4], SCALES[(i // 4) % 4]


def _hexagonal_settings(rng, sub):
    a = rng.uniform(2.5, 6.0)
    c = a * rng.uniform(1.5, 2.4)
    s3 = np.sqrt(3.0) / 2
    if sub % 3 == 0:        # b along y, a 30 degrees below x  (exact zeros below the diagonal, one non-zero above)
        return np.array([[a * s3, -a / 2, 0.0], [0.0, a, 0.0], [0.0, 0.0, c]])
    if sub % 3 == 1:        # a and b symmetric about x
        return np.array([[a * s3, -a / 2, 0.0], [a * s3, a / 2, 0.0], [0.0, 0.0, c]])
    return np.array([[0.0, 0.0, c], [a, 0.0, 0.0], [-a / 2, a * s3, 0.0]]) if sub % 2 else \
        np.array([[a, 0.0, 0.0], [-a / 2, a * s3, 0.0], [0.0, 0.0, c]])


def gen_structured_cell(rng, pattern, sub=0, rowp=0, colp=0, origin='zero', scale=1.0, integer=False):
    """Right-handed, well-conditioned cell (volume >= 20 % of a*b*c, condition number <= 40) whose vector matrix has
    exact zeros exactly where the (row- and column-permuted) pattern says; all other components are at least 10 % of
    the largest one in magnitude.  ``integer``: all components (and the origin) are whole numbers."""
    rp, cp = list(PERMS[rowp % 6]), list(PERMS[colp % 6])
    for attempt in range(400):
        if pattern == 'hexagonal-setting' and not integer:
            base = _hexagonal_settings(rng, sub)
            mask = base != 0.0
        else:
            mask = _mask('upper-one' if pattern == 'hexagonal-setting' else pattern, sub)
            if integer:
                dia = rng.integers(4, 10, 3).astype(float)
                off = rng.integers(1, 5, (3, 3)).astype(float)
            else:
                L0 = rng.uniform(2.5, 8.0)
                dia = rng.uniform(0.6, 1.2, 3) * L0
                off = rng.uniform(0.15, 0.7, (3, 3)) * L0
            base = off * rng.choice([-1.0, 1.0], (3, 3))
            base[np.diag_indices(3)] = dia * rng.choice([1.0, 1.0, 1.0, -1.0], 3)
            base = np.where(mask, base, 0.0)
        v = base[rp][:, cp]
        m = mask[rp][:, cp]
        det = np.linalg.det(v)
        abc = np.prod(np.linalg.norm(v, axis=1))
        if abs(det) < 0.2 * abc or np.linalg.cond(v) > 40:
            continue
        if det < 0:                                 # make it right-handed without touching the zero pattern
            k = int(rng.integers(0, 3))
            v[k] = -v[k]
        break
    else:
        raise RuntimeError('no well-conditioned cell for ' + pattern)
    v = np.where(m, v, 0.0) * (1.0 if integer else scale)       # (-0.0 -> 0.0)
    L = np.linalg.norm(v, axis=1).max()
    if origin == 'zero':
        o = np.zeros(3)
    elif integer:
        o = rng.integers(-12, 13, 3).astype(float) if origin == 'near' else rng.integers(-20000, 20001, 3).astype(float)
    elif origin == 'near':
        o = rng.uniform(-2, 2, 3) * L
    elif origin == 'far':
        o = rng.uniform(-1e3, 1e3, 3) * L
    else:
        o = rng.choice([-1.0, 1.0], 3) * rng.uniform(1e5, 1e6, 3) * L
    return dict(kind='struct:' + pattern, vects=v, origin=o, params=None, lammps=G.is_lammps_form(v, 0.0), L=L,
                origin_class=origin, scale=scale, pattern=pattern, sub=sub, rowp=rowp % 6, colp=colp % 6, mask=m)


def zero_layout(v):
    """Labels of the zero pattern of a vector matrix as it stands (after all permutations), for coverage floors."""
    v = np.asarray(v)
    nz = v != 0.0
    below = nz[1, 0] or nz[2, 0] or nz[2, 1]
    above = nz[0, 1] or nz[0, 2] or nz[1, 2]
    out = ['zeros:%d' % int(9 - nz.sum())]
    if nz.all():
        out.append('no-zero')
    elif not below and not above:
        out.append('diagonal' if nz[0, 0] and nz[1, 1] and nz[2, 2] else 'other')
    elif not below and above:
        out.append('zero-below-nonzero-above')
    elif below and not above:
        out.append('zero-above-nonzero-below')
    else:
        out.append('mixed')
    if not (nz[0, 0] and nz[1, 1] and nz[2, 2]):
        out.append('zero-on-diagonal')
    return out


# ---------------------------------------------------------------------------------------------------------------------
# small changes of a cell (strain ladders)
# ---------------------------------------------------------------------------------------------------------------------
MAGS = [1e-12, 1e-11, 1e-10, 1e-9, 1e-8, 1e-7, 1e-6, 3e-6, 1e-5, 3e-5, 1e-4, 1e-3, 1e-2, 1e-1]
KEEP_ZERO_CHANGES = ['volumetric', 'normal', 'row-scale', 'single-component']          # zero components stay exactly zero
FILL_CHANGES = ['general-strain', 'shear', 'single-fill', 'rotation', 'row-mix']       # zero components get populated
SMALL_CHANGES = KEEP_ZERO_CHANGES + FILL_CHANGES
ZERO_ZONE = 2e-8             # components below 1e-9 of the largest are documented to be flushed to zero by Box: stay clear


def _small_change(rng, v, kind, e):
    v = np.array(v, float)
    n = v.copy()
    if kind == 'volumetric':
        n = v * (1.0 + e)
    elif kind == 'normal':
        w = rng.uniform(-1, 1, 3)
        w[int(rng.integers(0, 3))] = 1.0
        n = v * (1.0 + e * w)[None, :]
    elif kind == 'row-scale':
        k = int(rng.integers(0, 3))
        n[k] = v[k] * (1.0 + e)
    elif kind == 'single-component':
        idx = np.argwhere(v != 0.0)
        r, c = idx[int(rng.integers(0, len(idx)))]
        n[r, c] = v[r, c] * (1.0 + e)
    elif kind == 'general-strain':
        s = rng.uniform(-1, 1, (3, 3))
        s = (s + s.T) / 2
        s /= np.abs(s).max()
        n = v @ (np.eye(3) + e * s)
    elif kind == 'shear':
        j, k = [(0, 1), (0, 2), (1, 2), (1, 0), (2, 0), (2, 1)][int(rng.integers(0, 6))]
        s = np.eye(3)
        s[j, k] = e
        n = v @ s
    elif kind == 'single-fill':
        idx = np.argwhere(v == 0.0)
        if len(idx) == 0:
            idx = np.argwhere(v != 0.0)
        r, c = idx[int(rng.integers(0, len(idx)))]
        n[r, c] = v[r, c] + e * np.abs(v).max()
    elif kind == 'rotation':
        ax = rng.normal(size=3)
        ax /= np.linalg.norm(ax)
        K = np.array([[0, -ax[2], ax[1]], [ax[2], 0, -ax[0]], [-ax[1], ax[0], 0]])
        R = np.eye(3) + np.sin(e) * K + (1 - np.cos(e)) * (K @ K)
        n = v @ R.T
    elif kind == 'row-mix':
        k = int(rng.integers(0, 3))
        j = (k + 1 + int(rng.integers(0, 2))) % 3
        n[k] = v[k] + e * v[j]
    else:
        raise ValueError(kind)
    return n


def gen_small_change(rng, v, kind, mag):
    """New vectors differing from ``v`` by a relative change of size ``mag`` (sign random).  No component of the result
    lies in (0, ZERO_ZONE * largest): if the requested size would put a freshly populated component there, the size is
    raised (x100) until it does not.  Returns (new vects, size used, filled: a zero component became non-zero,
    kept: every zero component stayed exactly zero)."""
    v = np.array(v, float)
    sign = float(rng.choice([-1.0, 1.0]))
    used = mag
    fresh = v == 0.0
    for _ in range(6):
        n = _small_change(rng, v, kind, sign * used)
        a = np.abs(n)
        if not np.any((a > 0) & (a < ZERO_ZONE * a.max()) & fresh) and not np.array_equal(n, v):
            break
        used *= 100.0
    else:
        used = mag
        n = v * (1.0 + sign * mag)
    # components that were already that small (left by an earlier step through lengths and angles) are given as exact zeros
    a = np.abs(n)
    n[(a > 0) & (a < 4e-9 * a.max())] = 0.0
    zero = v == 0.0
    filled = bool(np.any(n[zero] != 0.0))
    return n, used, filled, not filled
