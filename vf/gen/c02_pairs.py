"""C02 workload generator: cells x periodicity x point pairs x call shapes.

numpy only.  Every class is a deterministic function of the case index (mixed
radix over cell kind x pbc x call shape; origin class and length scale rotate
with the round), only the numbers inside a class come from the rng.
"""
from __future__ import annotations

import numpy as np

from ..oracle import geometry as G
from . import cells

CELL_KINDS = ['ortho', 'mild', 'limit', 'beyond', 'family', 'rotated', 'rot-ortho']
SHAPES = ['one-one', 'one-many', 'many-one', 'many-many', 'list-tuple', 'layout', 'system-index', 'displacement']
PAIR_CLASSES = ['inside', 'wrapnear', 'face', 'corner', 'half', 'out1', 'out2', 'image']
ORIGINS = ['zero', 'near', 'far']
SCALES = [1.0, 1e-3, 1e3]
PBCS = cells.PBCS
FAMILIES4 = ['hexagonal', 'rhombohedral', 'monoclinic', 'triclinic']
NCOMBO = len(CELL_KINDS) * len(PBCS) * len(SHAPES)          # 448


def stratified(i):
    """case index -> (cell kind, pbc, call shape, origin class, scale, round)."""
    kind = CELL_KINDS[i % 7]
    pbc = PBCS[(i // 7) % 8]
    shape = SHAPES[(i // 56) % 8]
    rnd = i // NCOMBO
    origin = ORIGINS[(i + rnd) % 3]
    scale = SCALES[rnd % 3]
    return kind, pbc, shape, origin, scale, rnd


def pbc_name(pbc):
    return ''.join('T' if p else 'F' for p in pbc)


def _lengths(rng):
    lx = rng.uniform(3.0, 6.0)
    return lx, lx * rng.uniform(0.7, 1.5), lx * rng.uniform(0.7, 1.6)


def gen_cell(rng, kind, origin_class, scale, sub=0):
    """dict(vects, origin, L, kind, ortho(bool)).  Cells are right-handed and keep
    min perpendicular width >= 0.15 L so that the exhaustive search stays small."""
    for _ in range(200):
        if kind in ('ortho', 'rot-ortho'):
            lx, ly, lz = _lengths(rng)
            if sub % 3 == 0:
                ly = lz = lx                                   # cubic
            elif sub % 3 == 1:
                ly = lx                                        # tetragonal
            v = G.vects_from_lammps(lx, ly, lz)
            if kind == 'rot-ortho':
                v = v @ G.random_rotation(rng).T
        elif kind == 'mild':
            lx, ly, lz = _lengths(rng)
            t = rng.uniform(-0.3, 0.3, 3)
            t[np.abs(t) < 0.02] = 0.05
            v = G.vects_from_lammps(lx, ly, lz, t[0] * lx, t[1] * lx, t[2] * ly)
        elif kind == 'limit':
            lx, ly, lz = _lengths(rng)
            t = rng.choice([-0.5, 0.0, 0.5], 3)
            if not t.any():
                t[int(rng.integers(0, 3))] = rng.choice([-0.5, 0.5])
            v = G.vects_from_lammps(lx, ly, lz, t[0] * lx, t[1] * lx, t[2] * ly)
        elif kind == 'beyond':
            lx, ly, lz = _lengths(rng)
            t = rng.uniform(0.5, 1.6, 3) * rng.choice([-1.0, 1.0], 3)
            keep = rng.random(3) < 0.7
            if not keep.any():
                keep[int(rng.integers(0, 3))] = True
            t = np.where(keep, t, rng.uniform(-0.5, 0.5, 3))
            v = G.vects_from_lammps(lx, ly, lz, t[0] * lx, t[1] * lx, t[2] * ly)
        elif kind == 'family':
            v = cells.gen_cell(rng, FAMILIES4[sub % 4], 'zero', 1.0)['vects']
        elif kind == 'rotated':
            v = cells.gen_cell(rng, 'rotated', 'zero', 1.0)['vects']
        else:
            raise ValueError(kind)
        L = np.linalg.norm(v, axis=1).max()
        if G.volume(v) > 0 and G.perp_widths(v).min() >= 0.15 * L:
            break
    else:  # pragma: no cover
        raise RuntimeError('no acceptable cell for ' + kind)
    v = v * scale
    L = L * scale
    if origin_class == 'zero':
        o = np.zeros(3)
    elif origin_class == 'near':
        o = rng.uniform(-2, 2, 3) * L
    else:
        o = rng.uniform(-1e3, 1e3, 3) * L
    return dict(kind=kind, vects=v, origin=o, L=L, ortho=kind in ('ortho', 'rot-ortho'))


def strained(rng, vects, amount=0.04, diagonal=False):
    """A slightly deformed and tilted copy of a cell (the 'other' system of a displacement).
    diagonal=True: each cell vector is only rescaled (an orthogonal cell stays orthogonal)."""
    v = np.asarray(vects, float)
    if diagonal:
        return v * (1.0 + rng.uniform(-amount, amount, (3, 1)))
    F = np.eye(3) + rng.uniform(-amount, amount, (3, 3))
    return v @ F.T


def _rel_point(rng, cls):
    """One relative coordinate triple of class inside / face / corner / outside."""
    if cls == 'inside':
        return rng.uniform(0.0, 1.0, 3)
    if cls == 'face':
        r = rng.uniform(0.0, 1.0, 3)
        on = rng.random(3) < 0.5
        if not on.any():
            on[int(rng.integers(0, 3))] = True
        r[on] = rng.choice([0.0, 1.0], int(on.sum()))
        return r
    if cls == 'corner':
        return rng.choice([0.0, 1.0], 3)
    if cls == 'outside':
        r = rng.uniform(-5.0, 6.0, 3)
        ax = int(rng.integers(0, 3))
        if 0.0 <= r[ax] <= 1.0:                                # make sure it really is outside
            r[ax] += rng.choice([-1.0, 1.0]) * rng.uniform(1.01, 4.0)
        return r
    raise ValueError(cls)


def rel_pair(rng, cls, vects, r0=None):
    """Relative coordinates (r0, r1) of one pair of class ``cls``.  When ``r0``
    is given (one-to-many calls) only r1 is drawn, relative to that r0."""
    v = np.asarray(vects, float)
    fixed = r0 is not None
    if cls == 'inside':
        a = r0 if fixed else _rel_point(rng, 'inside')
        return a, _rel_point(rng, 'inside')
    if cls == 'wrapnear':
        # short true separation that crosses cell faces: r1 = (r0 + delta) mod 1
        a = r0 if fixed else np.where(rng.random(3) < 0.6, rng.choice([0.0, 1.0], 3) + rng.uniform(-0.08, 0.08, 3), rng.uniform(0, 1, 3)) % 1.0
        w = G.perp_widths(v).min()
        dirn = rng.normal(size=3)
        dcart = dirn / np.linalg.norm(dirn) * rng.uniform(0.02, 0.47) * w
        drel = np.linalg.solve(v.T, dcart)
        b = (a + drel) % 1.0
        return a, b
    if cls == 'face':
        a = r0 if fixed else _rel_point(rng, 'face')
        return a, _rel_point(rng, 'face')
    if cls == 'corner':
        a = r0 if fixed else _rel_point(rng, 'corner')
        return a, _rel_point(rng, 'corner')
    if cls == 'half':
        # exactly half a cell apart on some axes: equidistant images (ties)
        a = r0 if fixed else rng.integers(0, 5, 3) / 8.0 + (0.0 if rng.random() < 0.5 else 1.0 / 16)
        on = rng.random(3) < 0.6
        if not on.any():
            on[int(rng.integers(0, 3))] = True
        b = np.where(on, (np.asarray(a) + 0.5) % 1.0, rng.integers(0, 9, 3) / 8.0)
        return a, b
    if cls == 'out1':
        if fixed:
            return r0, _rel_point(rng, 'outside')
        if rng.random() < 0.5:
            return _rel_point(rng, 'inside'), _rel_point(rng, 'outside')
        return _rel_point(rng, 'outside'), _rel_point(rng, 'inside')
    if cls == 'out2':
        a = r0 if fixed else _rel_point(rng, 'outside')
        return a, _rel_point(rng, 'outside')
    if cls == 'image':
        # the same site, or the same site seen through a neighbouring cell
        a = r0 if fixed else _rel_point(rng, 'inside' if rng.random() < 0.7 else 'face')
        n = rng.integers(-1, 2, 3).astype(float) if rng.random() < 0.7 else np.zeros(3)
        return a, np.asarray(a) + n
    raise ValueError(cls)


def gen_pairs(rng, cell, n, offset=0, single0=None):
    """n pairs whose classes rotate over PAIR_CLASSES starting at ``offset``.
    Returns rel0 (n,3), rel1 (n,3), classes (list), pos0, pos1 (Cartesian).
    single0: class of the single reference point for one-to-many calls."""
    v, o = cell['vects'], cell['origin']
    r0s, r1s, cl = [], [], []
    fixed = None
    if single0 is not None:
        fixed = _rel_point(rng, single0)
    for k in range(n):
        c = PAIR_CLASSES[(k + offset) % len(PAIR_CLASSES)]
        a, b = rel_pair(rng, c, v, fixed)
        r0s.append(np.asarray(a, float))
        r1s.append(np.asarray(b, float))
        cl.append(c)
    r0s, r1s = np.array(r0s).reshape(n, 3), np.array(r1s).reshape(n, 3)
    return r0s, r1s, cl, G.cart(r0s, v, o), G.cart(r1s, v, o)
