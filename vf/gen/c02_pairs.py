"""C02 workload generator: cells x periodicity x point pairs x call shapes.

numpy only.  Every class is a deterministic function of the case index (mixed
radix over cell kind x pbc x call shape; origin class and length scale rotate
with the round), only the numbers inside a class come from the rng.
"""
from __future__ import annotations

import numpy as np

from ..oracle import geometry as G
from . import cells

CELL_KINDS = ['ortho', 'mild', 'limit', 'beyond', 'family', 'rotated', 'rot-ortho', 'flat', 'needle', 'skew']
# cells whose short lattice vectors are +-1 COMBINATIONS of the cell vectors (shorter than the cell vectors involved)
COMBO_KINDS = ('flat', 'needle', 'skew')
SHAPES = ['one-one', 'one-many', 'many-one', 'many-many', 'list-tuple', 'layout', 'system-index', 'displacement']
PAIR_CLASSES = ['inside', 'wrapnear', 'face', 'corner', 'half', 'out1', 'out2', 'image', 'shortvec', 'halfshort']
NEAR_SHORT = ('shortvec', 'halfshort')
ORIGINS = ['zero', 'near', 'far']
# the numbers a user meets through the working length unit: a cell of a few angstrom written in metres (1e-10),
# centimetres (1e-8), millimetres (1e-7), micrometres (1e-4), 1e-3, nanometres (1e-1), angstrom (1), picometres (1e2),
# 1e3 and 1e4.  Small and large alternate so that any stretch of consecutive indices sees both ends.
SCALES = [1.0, 1e-10, 1e4, 1e-8, 1e2, 1e-7, 1e-1, 1e-4, 1e3, 1e-3]
NS = len(SCALES)
PBCS = cells.PBCS
FAMILIES4 = ['hexagonal', 'rhombohedral', 'monoclinic', 'triclinic']
NK = len(CELL_KINDS)
NCOMBO = NK * len(PBCS) * len(SHAPES)                       # 640
WFRAC = 0.15              # smallest perpendicular width / longest cell vector, ordinary kinds
WFRAC_COMBO = 0.06        # ... for the flat / needle / skew kinds


def stratified(i):
    """case index -> (cell kind, pbc, call shape, origin class, scale, round)."""
    kind = CELL_KINDS[i % NK]
    pbc = PBCS[(i // NK) % 8]
    shape = SHAPES[(i // (NK * 8)) % 8]
    rnd = i // NCOMBO
    origin = ORIGINS[(i + rnd) % 3]
    # every (pbc, call shape) of a round meets all NS scales (one per cell kind, NK == NS); the pairing of kind and
    # scale moves by 3 with the round, so every (kind, call shape, scale) occurs within 3 rounds
    scale = SCALES[(i % NK + (i // NK) % 8 + 3 * rnd) % NS]
    return kind, pbc, shape, origin, scale, rnd


def scale_name(scale):
    return '%.0e' % scale


def pbc_name(pbc):
    return ''.join('T' if p else 'F' for p in pbc)


def _lengths(rng):
    lx = rng.uniform(3.0, 6.0)
    return lx, lx * rng.uniform(0.7, 1.5), lx * rng.uniform(0.7, 1.6)


def short_vectors(vects, axes=(True, True, True), min_nonzero=1):
    """The +-1 combinations n.vects (n_i in {-1,0,1}, n_i = 0 where axes[i] is False, one representative of each
    +-pair, at least ``min_nonzero`` non-zero coefficients), sorted by length.  Returns (ns, vectors, lengths)."""
    v = np.asarray(vects, float)
    ns = []
    for n in np.ndindex(3, 3, 3):
        n = np.array(n) - 1
        if np.any(n[~np.array(axes, bool)] != 0) or np.abs(n).sum() < min_nonzero:
            continue
        if tuple(n) < tuple(-n):                              # one of each +-pair
            continue
        ns.append(n)
    if not ns:
        return np.zeros((0, 3)), np.zeros((0, 3)), np.zeros(0)
    ns = np.array(ns, float)
    vs = ns @ v
    ls = np.linalg.norm(vs, axis=1)
    k = np.argsort(ls, kind='stable')
    return ns[k], vs[k], ls[k]


def combo_ratio(vects, axes=(True, True, True)):
    """(shortest +-1 combination of >= 2 cell vectors along ``axes``) / (shortest of the three cell vectors).
    Below 1: a lattice vector shorter than every cell vector is a combination.  inf when < 2 axes are flagged."""
    _, _, ls = short_vectors(vects, axes, min_nonzero=2)
    if not len(ls):
        return np.inf
    return float(ls[0] / np.linalg.norm(np.asarray(vects, float), axis=1).min())


def _tilt_fractions(rng):
    """Three tilt factors within the LAMMPS limits, each either exactly at the limit (+-0.5) or in 0.3..0.5."""
    f = np.where(rng.random(3) < 0.5, 0.5, rng.uniform(0.3, 0.5, 3))
    return f * rng.choice([-1.0, 1.0], 3)


def _axes_for(pbc):
    """Axes along which a short combination has to lie to be a lattice vector of the setting: the periodic ones when
    at least two are periodic, otherwise all (no combination is a lattice vector there; the cell is still skewed)."""
    if pbc is not None and sum(bool(x) for x in pbc) >= 2:
        return tuple(bool(x) for x in pbc)
    return (True, True, True)


def _combo_cell(rng, kind, sub, pbc):
    """One candidate cell of kind flat / needle / skew.  Returns (vects, accepted)."""
    axes = _axes_for(pbc)
    m = sub // 8                                              # sub = pbc index + 8 * (shape index + 8 * round)
    if kind == 'flat':
        # LAMMPS-normalised, tilts within the limits, one small perpendicular width: c -+ b (-+ a) is shorter than c
        lx = rng.uniform(3.0, 6.0)
        ly = lx * rng.uniform(0.7, 1.5)
        lz = lx * rng.uniform(0.1, 0.5)
        f = _tilt_fractions(rng)
        v = G.vects_from_lammps(lx, ly, lz, f[0] * lx, f[1] * lx, f[2] * ly)
        # the short combinations involve b and c: bring them onto the periodic axes (cyclic, keeps handedness);
        # identity = LAMMPS-normalised (used for F,T,T; one in three otherwise)
        perm = {(False, True, True): 0, (True, False, True): 1, (True, True, False): 2}.get(axes, m % 3)
        v = v[[[0, 1, 2], [2, 0, 1], [1, 2, 0]][perm]]
        return v, combo_ratio(v, axes) <= 0.95
    if kind == 'needle':
        # two short vectors and a long, tilted one (tilts within the LAMMPS limits); long axis c / a / b in turn
        lz = rng.uniform(3.0, 6.0)
        lx = lz * rng.uniform(0.15, 0.3)
        ly = lx * rng.uniform(0.8, 1.25)
        f = _tilt_fractions(rng)
        v = G.vects_from_lammps(lx, ly, lz, f[0] * lx, f[1] * lx, f[2] * ly)
        v = v[[[0, 1, 2], [2, 0, 1], [1, 2, 0]][m % 3]]
        return v, True
    if kind == 'skew':
        # a short cell vector sheared along a longer one, beyond the LAMMPS limits (triangular form kept, every other
        # one rotated to a general orientation): v_j + t v_k, so that v_j' - sign(t) v_k is shorter than all three
        pairs = [(j, k) for j in range(3) for k in range(j) if axes[j] and axes[k]]
        j, k = pairs[m % len(pairs)]
        o = 3 - j - k
        ln = np.empty(3)
        ln[k] = rng.uniform(3.0, 6.0)
        ln[j] = ln[k] * rng.uniform(0.45, 0.8)
        ln[o] = ln[k] * rng.uniform(0.8, 1.5)
        t0 = rng.uniform(-0.2, 0.2, 3)
        v = G.vects_from_lammps(ln[0], ln[1], ln[2], t0[0] * ln[0], t0[1] * ln[0], t0[2] * ln[1])
        t = rng.choice([-1.0, 1.0]) * (1.0 if m % 3 == 0 else rng.uniform(0.6, 1.4))
        v[j] = v[j] + t * v[k]
        if j == 2 and all(axes) and (m // 3) % 2 == 1:        # sheared along both others: three-vector combinations
            v[2] = v[2] + rng.choice([-1.0, 1.0]) * rng.uniform(0.6, 1.4) * v[1 - k]
        if m % 2 == 1:
            v = v @ G.random_rotation(rng).T
        return v, combo_ratio(v, axes) <= 0.95
    raise ValueError(kind)


def gen_cell(rng, kind, origin_class, scale, sub=0, pbc=None):
    """dict(vects, origin, L, kind, ortho(bool)).  Cells are right-handed and keep
    min perpendicular width >= 0.15 L (0.06 L for the flat / needle / skew kinds) so that the exhaustive search
    stays small.  ``pbc`` only steers which axes carry the short combinations of the flat / skew kinds."""
    wfrac = WFRAC_COMBO if kind in COMBO_KINDS else WFRAC
    for _ in range(400):
        ok = True
        if kind in COMBO_KINDS:
            v, ok = _combo_cell(rng, kind, sub, pbc)
        elif kind in ('ortho', 'rot-ortho'):
            lx, ly, lz = _lengths(rng)
            if sub % 3 == 0:
                ly = lz = lx                                   # cubic
            elif sub % 3 == 1:
                ly = lx                                        # tetragonal
            v = G.vects_from_lammps(lx, ly, lz)
            if kind == 'rot-ortho':
                v = v @ G.random_rotation(rng).T
        elif kind == 'mild':
            lx, ly, lz = _lengths(rng)
            t = rng.uniform(-0.3, 0.3, 3)
            t[np.abs(t) < 0.02] = 0.05
            v = G.vects_from_lammps(lx, ly, lz, t[0] * lx, t[1] * lx, t[2] * ly)
        elif kind == 'limit':
            lx, ly, lz = _lengths(rng)
            t = rng.choice([-0.5, 0.0, 0.5], 3)
            if not t.any():
                t[int(rng.integers(0, 3))] = rng.choice([-0.5, 0.5])
            v = G.vects_from_lammps(lx, ly, lz, t[0] * lx, t[1] * lx, t[2] * ly)
        elif kind == 'beyond':
            lx, ly, lz = _lengths(rng)
            t = rng.uniform(0.5, 1.6, 3) * rng.choice([-1.0, 1.0], 3)
            keep = rng.random(3) < 0.7
            if not keep.any():
                keep[int(rng.integers(0, 3))] = True
            t = np.where(keep, t, rng.uniform(-0.5, 0.5, 3))
            v = G.vects_from_lammps(lx, ly, lz, t[0] * lx, t[1] * lx, t[2] * ly)
        elif kind == 'family':
            v = cells.gen_cell(rng, FAMILIES4[sub % 4], 'zero', 1.0)['vects']
        elif kind == 'rotated':
            v = cells.gen_cell(rng, 'rotated', 'zero', 1.0)['vects']
        else:
            raise ValueError(kind)
        L = np.linalg.norm(v, axis=1).max()
        if ok and G.volume(v) > 0 and G.perp_widths(v).min() >= wfrac * L:
            break
    else:  # pragma: no cover
        raise RuntimeError('no acceptable cell for ' + kind)
    v = v * scale
    L = L * scale
    if origin_class == 'zero':
        o = np.zeros(3)
    elif origin_class == 'near':
        o = rng.uniform(-2, 2, 3) * L
    else:
        o = rng.uniform(-1e3, 1e3, 3) * L
    return dict(kind=kind, vects=v, origin=o, L=L, ortho=kind in ('ortho', 'rot-ortho'))


def strained(rng, vects, amount=0.04, diagonal=False):
    """A slightly deformed and tilted copy of a cell (the 'other' system of a displacement).
    diagonal=True: each cell vector is only rescaled (an orthogonal cell stays orthogonal)."""
    v = np.asarray(vects, float)
    if diagonal:
        return v * (1.0 + rng.uniform(-amount, amount, (3, 1)))
    F = np.eye(3) + rng.uniform(-amount, amount, (3, 3))
    return v @ F.T


def _rel_point(rng, cls):
    """One relative coordinate triple of class inside / face / corner / outside."""
    if cls == 'inside':
        return rng.uniform(0.0, 1.0, 3)
    if cls == 'face':
        r = rng.uniform(0.0, 1.0, 3)
        on = rng.random(3) < 0.5
        if not on.any():
            on[int(rng.integers(0, 3))] = True
        r[on] = rng.choice([0.0, 1.0], int(on.sum()))
        return r
    if cls == 'corner':
        return rng.choice([0.0, 1.0], 3)
    if cls == 'outside':
        r = rng.uniform(-5.0, 6.0, 3)
        ax = int(rng.integers(0, 3))
        if 0.0 <= r[ax] <= 1.0:                                # make sure it really is outside
            r[ax] += rng.choice([-1.0, 1.0]) * rng.uniform(1.01, 4.0)
        return r
    raise ValueError(cls)


def _inside(r):
    return bool(np.all((r >= 0.0) & (r <= 1.0)))


def near_short_pair(rng, cls, vects, pbc=None, r0=None):
    """A pair whose DIRECT separation is f * s + delta, s one of the shortest +-1 combinations of the cell vectors:

    shortvec   f = 1, |delta| = 1e-6 .. 0.2 |s| (sometimes 0): the separation is a short lattice vector +- an offset;
    halfshort  0.5 <= f < 1: the direct separation is short, yet the image d - s is shorter still.  Where s is
               shorter than every cell vector, f is mostly drawn so that |d| < (shortest cell vector) / 2 with delta
               perpendicular to s (a direct separation that looks as if it needed no image search).

    s is taken along the periodic axes (70 %; it then is a lattice vector of the setting) or along all axes (30 %, and
    whenever fewer than one axis is periodic; the shift must then not be applied along the free axes).  Both points
    are placed inside the cell (faces included); with a fixed r0 this is attempted with either sign of s."""
    v = np.asarray(vects, float)
    vmin = np.linalg.norm(v, axis=1).min()
    per = (True, True, True) if pbc is None else tuple(bool(x) for x in pbc)
    axes = per if (any(per) and rng.random() < 0.7) else (True, True, True)
    ns, vs, ls = short_vectors(v, axes, 1)
    multi = np.nonzero(np.abs(ns).sum(axis=1) >= 2)[0]
    idx = multi if (len(multi) and rng.random() < 0.8) else np.arange(len(ns))
    pick = int(idx[0] if rng.random() < 0.6 else idx[int(rng.integers(0, min(3, len(idx))))])
    n, s, ls_ = ns[pick], vs[pick], float(ls[pick])
    dirn = rng.normal(size=3)
    dirn /= np.linalg.norm(dirn)
    if cls == 'shortvec':
        f = 1.0
        delta = dirn * ls_ * (0.0 if rng.random() < 0.15 else 10.0 ** rng.uniform(-6.0, -0.7))
    elif cls == 'halfshort':
        if ls_ < 0.97 * vmin and rng.random() < 0.7:
            f = 0.5 + rng.uniform(0.15, 0.85) * (0.5 * vmin / ls_ - 0.5)
            perp = dirn - (dirn @ s) / (s @ s) * s
            perp /= max(np.linalg.norm(perp), 1e-300)
            delta = perp * rng.uniform(0.0, 0.5) * (0.5 * vmin - f * ls_)
        else:
            f = 0.5 if rng.random() < 0.1 else rng.uniform(0.5, 1.0)
            delta = dirn * ls_ * 10.0 ** rng.uniform(-4.0, -0.8)
    else:
        raise ValueError(cls)
    drel = np.linalg.solve(v.T, delta)
    big = np.abs(drel).max()
    if big > 0.45:                                             # offset kept well inside one cell (thin cells)
        drel = drel * (0.45 / big)
    best = None
    for sign in ((1.0, -1.0) if rng.random() < 0.5 else (-1.0, 1.0)):
        q = sign * f * n + drel
        over = np.abs(q) > 1.0
        q[over] -= 2.0 * drel[over]                            # offset turned inwards where it left the cell
        if r0 is None:
            lo = np.maximum(0.0, -q)
            hi = np.maximum(lo, np.minimum(1.0, 1.0 - q))
            a = rng.uniform(lo, hi)
            pin = rng.random(3) < 0.25                         # on the face where the range ends
            a = np.where(pin, np.where(rng.random(3) < 0.5, lo, hi), a)
            return a, a + q
        b = np.asarray(r0, float) + q
        if best is None or _inside(b):
            best = b
            if _inside(b):
                break
    return r0, best


def rel_pair(rng, cls, vects, r0=None, pbc=None):
    """Relative coordinates (r0, r1) of one pair of class ``cls``.  When ``r0``
    is given (one-to-many calls) only r1 is drawn, relative to that r0."""
    v = np.asarray(vects, float)
    fixed = r0 is not None
    if cls in NEAR_SHORT:
        return near_short_pair(rng, cls, v, pbc, r0)
    if cls == 'inside':
        a = r0 if fixed else _rel_point(rng, 'inside')
        return a, _rel_point(rng, 'inside')
    if cls == 'wrapnear':
        # short true separation that crosses cell faces: r1 = (r0 + delta) mod 1
        a = r0 if fixed else np.where(rng.random(3) < 0.6, rng.choice([0.0, 1.0], 3) + rng.uniform(-0.08, 0.08, 3), rng.uniform(0, 1, 3)) % 1.0
        w = G.perp_widths(v).min()
        dirn = rng.normal(size=3)
        dcart = dirn / np.linalg.norm(dirn) * rng.uniform(0.02, 0.47) * w
        drel = np.linalg.solve(v.T, dcart)
        b = (a + drel) % 1.0
        return a, b
    if cls == 'face':
        a = r0 if fixed else _rel_point(rng, 'face')
        return a, _rel_point(rng, 'face')
    if cls == 'corner':
        a = r0 if fixed else _rel_point(rng, 'corner')
        return a, _rel_point(rng, 'corner')
    if cls == 'half':
        # exactly half a cell apart on some axes: equidistant images (ties)
        a = r0 if fixed else rng.integers(0, 5, 3) / 8.0 + (0.0 if rng.random() < 0.5 else 1.0 / 16)
        on = rng.random(3) < 0.6
        if not on.any():
            on[int(rng.integers(0, 3))] = True
        b = np.where(on, (np.asarray(a) + 0.5) % 1.0, rng.integers(0, 9, 3) / 8.0)
        return a, b
    if cls == 'out1':
        if fixed:
            return r0, _rel_point(rng, 'outside')
        if rng.random() < 0.5:
            return _rel_point(rng, 'inside'), _rel_point(rng, 'outside')
        return _rel_point(rng, 'outside'), _rel_point(rng, 'inside')
    if cls == 'out2':
        a = r0 if fixed else _rel_point(rng, 'outside')
        return a, _rel_point(rng, 'outside')
    if cls == 'image':
        # the same site, or the same site seen through a neighbouring cell
        a = r0 if fixed else _rel_point(rng, 'inside' if rng.random() < 0.7 else 'face')
        n = rng.integers(-1, 2, 3).astype(float) if rng.random() < 0.7 else np.zeros(3)
        return a, np.asarray(a) + n
    raise ValueError(cls)


def gen_pairs(rng, cell, n, offset=0, single0=None, pbc=None):
    """n pairs whose classes rotate over PAIR_CLASSES starting at ``offset``.
    Returns rel0 (n,3), rel1 (n,3), classes (list), pos0, pos1 (Cartesian).
    single0: class of the single reference point for one-to-many calls.
    pbc: the periodicity setting the pairs will be used with (steers the near-short-lattice-vector classes only)."""
    v, o = cell['vects'], cell['origin']
    r0s, r1s, cl = [], [], []
    fixed = None
    if single0 is not None:
        fixed = _rel_point(rng, single0)
    for k in range(n):
        c = PAIR_CLASSES[(k + offset) % len(PAIR_CLASSES)]
        a, b = rel_pair(rng, c, v, fixed, pbc)
        r0s.append(np.asarray(a, float))
        r1s.append(np.asarray(b, float))
        cl.append(c)
    r0s, r1s = np.array(r0s).reshape(n, 3), np.array(r1s).reshape(n, 3)
    return r0s, r1s, cl, G.cart(r0s, v, o), G.cart(r1s, v, o)


# ---------------------------------------------------------------------------------------------------------------
# Cells whose matrix of cell vectors has a STRUCTURED ZERO PATTERN (second case group).  A shortcut that decides
# "no tilt" / "orthogonal" / "axis-aligned" from a few entries of the matrix is only right for some of these
# arrangements; all of them are ordinary, right-handed, well-conditioned cells.
ZKINDS = ['upper', 'lower', 'diag', 'perm-diag', 'perm-tri', 'block', 'onezero', 'fewzero']
NZ = len(ZKINDS)
NZCOMBO = NZ * len(PBCS) * len(SHAPES)                      # 512
ZORTHO = ('diag', 'perm-diag')
PERMS6 = [(0, 1, 2), (1, 2, 0), (2, 0, 1), (0, 2, 1), (2, 1, 0), (1, 0, 2)]
TRI_SUBSETS = [(0,), (1,), (2,), (0, 1), (0, 2), (1, 2), (0, 1, 2)]
UPPER_POS = [(0, 1), (0, 2), (1, 2)]
LOWER_POS = [(1, 0), (2, 0), (2, 1)]
DIAG_SIGNS = [(1, 1, 1), (-1, -1, 1), (-1, 1, -1), (1, -1, -1)]       # right-handed sign patterns
_CELLS9 = [(r, c) for r in range(3) for c in range(3)]
ZERO_PAIRS = [(a, b) for a in range(9) for b in range(a + 1, 9)]                                        # 36
ZERO_TRIPLES = [(a, b, c) for a in range(9) for b in range(a + 1, 9) for c in range(b + 1, 9)
                if not (a // 3 == b // 3 == c // 3) and not (a % 3 == b % 3 == c % 3)]                   # 78 (no empty row/column)


def stratified_z(j):
    """case index of the structured-zero group -> (kind, pbc, call shape, origin class, scale, round, pattern index).
    Full cross of kind x pbc x call shape per round; the pattern index m = shape + 8 round + 16 pbc moves the
    arrangement inside a kind against both the periodicity setting and the call shape."""
    zk = j % NZ
    p = (j // NZ) % 8
    s = (j // (NZ * 8)) % 8
    rnd = j // NZCOMBO
    origin = ORIGINS[(j + rnd) % 3]
    scale = SCALES[(zk + p + s + 3 * rnd + 5) % NS]
    return ZKINDS[zk], PBCS[p], SHAPES[s], origin, scale, rnd, s + 8 * rnd + 16 * p


def _tilt(rng, cls):
    """A tilt fraction: 0 mild (0.05..0.45), 1 exactly 0.5 (the LAMMPS limit), 2 beyond it (0.55..1.3); random sign."""
    mag = [rng.uniform(0.05, 0.45), 0.5, rng.uniform(0.55, 1.3)][cls % 3]
    return mag * rng.choice([-1.0, 1.0])


def _triangular(rng, upper, subset, t0):
    """Triangular matrix with positive diagonal; only the off-diagonal positions in ``subset`` are non-zero.
    lower: LAMMPS form (xy, xz, yz); upper: its mirror (the a / b vectors carry the tilts)."""
    ln = _lengths(rng)
    v = np.diag(ln).astype(float)
    pos = UPPER_POS if upper else LOWER_POS
    for k in subset:
        r, c = pos[k]
        v[r, c] = _tilt(rng, t0 + k) * ln[c]
    return v


def _general(rng, rotated):
    """A matrix without any zero: a rotated triclinic cell, or a diagonally dominant one with all six off-diagonal
    components between 5 % and 45 % of the diagonal."""
    if rotated:
        return cells.gen_cell(rng, 'rotated', 'zero', 1.0)['vects'].copy()
    ln = np.array(_lengths(rng))
    v = rng.uniform(0.05, 0.45, (3, 3)) * rng.choice([-1.0, 1.0], (3, 3)) * ln[None, :]
    v[np.diag_indices(3)] = ln
    return v


def _right_handed(v, r):
    if G.volume(v) < 0:
        v[r] = -v[r]
    return v


def _zcell(rng, kind, m):
    """One candidate matrix of a structured-zero kind -> (vects, pattern label)."""
    if kind in ('upper', 'lower'):
        sub = TRI_SUBSETS[m % 7]
        v = _triangular(rng, kind == 'upper', sub, m // 7)
        return v, kind + ':' + '+'.join('%d%d' % (UPPER_POS if kind == 'upper' else LOWER_POS)[k] for k in sub)
    if kind == 'diag':
        lx, ly, lz = _lengths(rng)
        sym = (m // 4) % 3
        if sym == 0:
            ly = lz = lx
        elif sym == 1:
            ly = lx
        sg = DIAG_SIGNS[m % 4]
        return np.diag([sg[0] * lx, sg[1] * ly, sg[2] * lz]).astype(float), 'diag:' + ''.join('+' if x > 0 else '-' for x in sg)
    if kind == 'perm-diag':
        perm = PERMS6[1 + m % 5]
        ln = _lengths(rng)
        v = np.zeros((3, 3))
        for i in range(3):
            v[i, perm[i]] = ln[i]
        r = (m // 5) % 3
        v = _right_handed(v, r)
        if (m // 15) % 2:
            v[(r + 1) % 3] *= -1.0
            v[(r + 2) % 3] *= -1.0
        return v, 'perm-diag:%d%d%d' % perm
    if kind == 'perm-tri':
        rp, cp, upper = PERMS6[m % 6], PERMS6[(m // 6) % 6], (m // 36) % 2 == 1
        sub = TRI_SUBSETS[6 if (m // 72) % 2 == 0 else (m // 144) % 6]
        v = _triangular(rng, upper, sub, m // 3)[list(rp)][:, list(cp)]
        return _right_handed(v, m % 3), 'perm-tri:%s:rows%d%d%d' % (('upper' if upper else 'lower',) + rp)
    if kind == 'block':
        r, col, variant = m % 3, (m // 3) % 3, (m // 9) % 3
        b = _general(rng, False)
        v = b[:, [(c + r - col) % 3 for c in range(3)]]        # cyclic: the dominant entry of vector r lands on axis col
        others = [k for k in range(3) if k != r]
        ocols = [c for c in range(3) if c != col]
        if variant in (0, 1):                                  # vector r lies along the Cartesian axis col
            v[r, ocols] = 0.0
        if variant in (0, 2):                                  # the other two lie in the coordinate plane normal to it
            v[others, col] = 0.0
        return v, 'block:%s:axis%d' % (('2x2', 'axis-vector', 'plane-vectors')[variant], col)
    if kind == 'onezero':
        r, c = _CELLS9[m % 9]
        v = _general(rng, (m // 9) % 2 == 0 or r == c)         # a zero ON the diagonal: rotated base only
        v[r, c] = 0.0
        return _right_handed(v, m % 3), 'onezero:%d%d' % (r, c)
    if kind == 'fewzero':
        if m % 2 == 0:
            pos = ZERO_PAIRS[(m // 4) % len(ZERO_PAIRS)]
        else:
            pos = ZERO_TRIPLES[(m // 4) % len(ZERO_TRIPLES)]
        v = _general(rng, (m // 2) % 2 == 0 or any(q % 4 == 0 for q in pos))
        for q in pos:
            v[_CELLS9[q]] = 0.0
        return _right_handed(v, m % 3), 'fewzero:%d' % len(pos)
    raise ValueError(kind)


def gen_zcell(rng, kind, origin_class, scale, m=0):
    """dict(vects, origin, L, kind, pattern, ortho) of a structured-zero cell; right-handed, smallest perpendicular
    width >= 0.15 L.  Zeros are exact (and stay exact under the power-of-ten scale)."""
    for _ in range(400):
        v, label = _zcell(rng, kind, m)
        L = np.linalg.norm(v, axis=1).max()
        if G.volume(v) > 0 and G.perp_widths(v).min() >= WFRAC * L:
            break
    else:  # pragma: no cover
        raise RuntimeError('no acceptable cell for ' + kind + ' %d' % m)
    v = v * scale
    L = L * scale
    if origin_class == 'zero':
        o = np.zeros(3)
    elif origin_class == 'near':
        o = rng.uniform(-2, 2, 3) * L
    else:
        o = rng.uniform(-1e3, 1e3, 3) * L
    return dict(kind=kind, pattern=label, vects=v, origin=o, L=L, ortho=kind in ZORTHO)
