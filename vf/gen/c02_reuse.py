"""C02 workload generator, third case group: ONE Box / System queried, changed in place, and queried again.

numpy only.  A case is a history

    construct (one of CPATHS)  ->  first query through one entry point (kept)  ->  change in place (one of ROUTES)
    ->  query through every entry point  ->  restore in place  ->  first query repeated

and every class of it (route, first entry point, relation of the new cell to the old one, construction path,
periodicity, scale, origin class, index form, argument form of the extra integer call) is a deterministic function
of the case index.  Only the numbers inside a class come from the rng.
"""
from __future__ import annotations

import numpy as np

from ..oracle import geometry as G
from . import c02_pairs as P
from . import cells

# what happens to the object between the first query and the later ones
ROUTES = ['vects=',             # box.vects = v1                                      (origin kept)
          'set(vects)',         # box.set(vects=v1[, origin=o1])
          'set(avect)',         # box.set(avect=, bvect=, cvect=[, origin=])
          'set(lengths)',       # box.set(lx=, ly=, lz=, xy=, xz=, yz=[, origin=])
          'set(hilo)',          # box.set(xlo=, xhi=, ... xy=, xz=, yz=)
          'set(abc)',           # box.set(a=, b=, c=, alpha=, beta=, gamma=[, origin=])
          'set()',              # box.set(): back to the default unit cell
          'model',              # box.model(<data model of another Box>): loaded in place
          'box_set',            # system.box_set(vects=, origin=)                    (absolute positions kept)
          'box_set(scale)',     # system.box_set(vects=, origin=, scale=True)        (relative positions kept)
          'wrap',               # system.wrap(): non-periodic directions are extended, positions wrapped
          'origin=',            # box.origin = o1                                     (cell vectors unchanged)
          'pbc=',               # system.pbc = ..., the pbc list handed to dvect/dmag edited in place
          'positions',          # system.atoms.pos[:] = ...: the same position arrays hold other numbers
          'other-instance']     # nothing changed: another Box / System instance is queried in between
NR = len(ROUTES)
TRI_ROUTES = ('set(lengths)', 'set(hilo)', 'set(abc)')          # the new cell is given in LAMMPS / lattice parameters
CELL_ROUTES = ('vects=', 'set(vects)', 'set(avect)', 'set(lengths)', 'set(hilo)', 'set(abc)', 'set()', 'model',
               'box_set', 'box_set(scale)')                      # routes that replace the cell vectors
KEEP_POS_ROUTES = ('box_set(scale)', 'wrap')                     # routes after which the positions are what atomman made them

# how the object that is queried first came into being
CPATHS = ['vects',               # Box(vects=, origin=)
          'avect',               # Box(avect=, bvect=, cvect=, origin=)
          'default-then-assign', # Box() ; box.vects = ; box.origin =
          'model',               # Box(model=<DataModelDict of an equal Box>)
          'model-json',          # Box(model=<its JSON text>)
          'deepcopy-used',       # deepcopy of a Box that was queried with ANOTHER cell, then set to this one
          'pickle-used',         # pickle round trip of such a Box, then set
          'system-model',        # System(model=<data model of a System>): its own Box
          'system-deepcopy-used',  # deepcopy of a System that was queried with another cell, then box_set
          'safecopy',            # System(..., box=<a queried Box>, safecopy=True), then box_set
          'lengths',             # Box(lx=, ly=, lz=, xy=, xz=, yz=, origin=)
          'hilo',                # Box(xlo=, xhi=, ..., xy=, xz=, yz=)
          'abc',                 # Box(a=, b=, c=, alpha=, beta=, gamma=, origin=)
          'classmethod']         # Box.cubic / hexagonal / tetragonal / trigonal / orthorhombic / monoclinic / triclinic
NC = len(CPATHS)
TRI_CPATHS = ('lengths', 'hilo', 'abc')
SYSTEM_CPATHS = ('system-model', 'system-deepcopy-used', 'safecopy')
CLASSMETHODS = ['cubic', 'hexagonal', 'tetragonal', 'trigonal', 'orthorhombic', 'monoclinic', 'triclinic']
_FAMILY = dict(cubic='cubic', hexagonal='hexagonal', tetragonal='tetragonal', trigonal='rhombohedral',
               orthorhombic='orthorhombic', monoclinic='monoclinic', triclinic='triclinic')

EPS = ['dvect', 'dmag', 'System.dvect', 'System.dmag', 'displacement[final]', 'displacement[initial]']
NE = len(EPS)
RELS = ['strained', 'other-kind', 'rescaled']
RESCALE = [1.5, 0.5, 10.0, 0.1, 1e3, 1e-3]
TRI_KINDS = ['ortho', 'mild', 'limit', 'beyond']                 # lower-triangular with a positive diagonal
NCOMBO = NR * NE * len(RELS)                                     # 270: full cross route x first entry point x relation
INDEX_FORMS = ['list,list', 'slice,slice', 'intarray,intarray', 'slice,list']
# integer-valued positions handed to dvect / dmag (documented: numpy.ndarray, list, or tuple)
ARG_FORMS = ['int64', 'int32', 'narrowest-int', 'unsigned', 'int-list', 'int-tuple', 'float32-of-int', 'bool-pbc-int']


def stratified_r(j):
    """case index -> dict of classes."""
    r = j % NR
    q = j // NR
    blk = j // (NR * NE)
    route = ROUTES[r]
    cpath = CPATHS[(j + q) % NC]
    tri = route in TRI_ROUTES or cpath in TRI_CPATHS
    kind0 = TRI_KINDS[(j // 2) % 4] if tri else P.CELL_KINDS[(j // 3 + j + q) % P.NK]
    kind1 = TRI_KINDS[(j // 5 + 1) % 4] if tri else P.CELL_KINDS[(j // 7 + 3 + j) % P.NK]
    return dict(route=route, first=EPS[q % NE], rel=RELS[(q + blk) % 3], cpath=cpath, tri=tri, kind0=kind0, kind1=kind1,
                pbc=P.PBCS[(j + j // 120) % 8], scale=P.SCALES[(j + j // 10) % P.NS], origin=P.ORIGINS[(j + j // 3) % 3],
                index_form=(j // 4) % len(INDEX_FORMS), arg_form=ARG_FORMS[(j + j // 8) % len(ARG_FORMS)],
                classmethod=CLASSMETHODS[(j // NC) % len(CLASSMETHODS)], rnd=j // NCOMBO,
                omit_origin=j % 4 == 3, rescale=RESCALE[(j // NCOMBO + j) % len(RESCALE)])


def lammps_params(v):
    """(lx, ly, lz, xy, xz, yz) of a lower-triangular matrix of cell vectors (LAMMPS manual, triclinic boxes)."""
    v = np.asarray(v, float)
    return dict(lx=float(v[0, 0]), ly=float(v[1, 1]), lz=float(v[2, 2]), xy=float(v[1, 0]), xz=float(v[2, 0]), yz=float(v[2, 1]))


def acceptable(v, wfrac=0.05):
    v = np.asarray(v, float)
    return bool(np.all(np.isfinite(v)) and G.volume(v) > 0 and G.perp_widths(v).min() >= wfrac * np.linalg.norm(v, axis=1).max())


def initial_cell(rng, sp):
    """The cell of the first query.  For the 'classmethod' path: lattice parameters of the family (the cell is then
    whatever the classmethod builds; the harness reads it back)."""
    if sp['cpath'] == 'classmethod':
        fam = _FAMILY[sp['classmethod']]
        p = cells.family_params(rng, fam)
        for k in 'abc':
            p[k] *= sp['scale']
        v = G.vects_from_lammps(*G.lammps_from_abc(**p))
        L = np.linalg.norm(v, axis=1).max()
        o = dict(zero=np.zeros(3), near=rng.uniform(-2, 2, 3) * L, far=rng.uniform(-1e3, 1e3, 3) * L)[sp['origin']]
        return dict(kind='classmethod:' + sp['classmethod'], vects=v, origin=o, L=L, params=p,
                    ortho=fam in ('cubic', 'tetragonal', 'orthorhombic'))
    return P.gen_cell(rng, sp['kind0'], sp['origin'], sp['scale'], sub=int(rng.integers(0, 64)), pbc=sp['pbc'])


def new_cell(rng, sp, v0, o0):
    """(vects, origin) of the cell the object is changed to, by the relation class of the case.  Lower-triangular
    whenever the old one is and the relation is not 'other-kind' (element-wise strain keeps exact zeros)."""
    v0 = np.asarray(v0, float)
    L0 = np.linalg.norm(v0, axis=1).max()
    rel = sp['rel']
    if sp['route'] in TRI_ROUTES and not G.is_lammps_form(v0, 0.0):
        rel = 'other-kind'
    for _ in range(200):
        if rel == 'strained':
            v1 = v0 * (1.0 + rng.uniform(-0.07, 0.07, (3, 3)))
            o1 = o0 + rng.uniform(-0.05, 0.05, 3) * L0
        elif rel == 'rescaled':
            v1 = v0 * sp['rescale']
            o1 = o0 * sp['rescale']
        else:
            c = P.gen_cell(rng, sp['kind1'], sp['origin'], sp['scale'], sub=int(rng.integers(0, 64)), pbc=sp['pbc'])
            v1, o1 = c['vects'], c['origin']
        if acceptable(v1):
            return v1, np.asarray(o1, float), rel
    raise RuntimeError('no acceptable new cell')  # pragma: no cover


def abc_params(v):
    a, b, c, al, be, ga = G.lengths_angles(v)
    return dict(a=float(a), b=float(b), c=float(c), alpha=float(al), beta=float(be), gamma=float(ga))


def index_pair(h, form):
    """Atoms k and h + k (k < h) are the k-th pair: the two index arguments of System.dvect / dmag."""
    name = INDEX_FORMS[form]
    if name == 'list,list':
        return list(range(h)), list(range(h, 2 * h))
    if name == 'slice,slice':
        return slice(0, h), slice(h, 2 * h)
    if name == 'intarray,intarray':
        return np.arange(h), np.arange(h, 2 * h)
    return slice(None, h), list(range(h, 2 * h))


def integer_points(p0, p1, form):
    """The pairs rounded to integer coordinates, in the argument form ``form``.  Returns (a0, a1, float copies)."""
    i0, i1 = np.rint(p0), np.rint(p1)
    big = max(np.abs(i0).max(), np.abs(i1).max(), 1.0)
    if big > 2.0 ** 52:                                    # pragma: no cover (scales stop at 1e4 x 1e3 L)
        return i0, i1, i0, i1, 'float64'
    if form == 'int64':
        return i0.astype(np.int64), i1.astype(np.int64), i0, i1, form
    if form == 'int32' and big < 2 ** 31:
        return i0.astype(np.int32), i1.astype(np.int32), i0, i1, form
    if form == 'narrowest-int':
        dt = np.int8 if big < 2 ** 7 else np.int16 if big < 2 ** 15 else np.int32 if big < 2 ** 31 else np.int64
        return i0.astype(dt), i1.astype(dt), i0, i1, 'narrowest-int:' + np.dtype(dt).name
    if form == 'unsigned' and min(i0.min(), i1.min()) >= 0:
        dt = np.uint8 if big < 2 ** 8 else np.uint16 if big < 2 ** 16 else np.uint32 if big < 2 ** 32 else np.uint64
        return i0.astype(dt), i1.astype(dt), i0, i1, 'unsigned:' + np.dtype(dt).name
    if form == 'int-list':
        return [[int(x) for x in r] for r in i0], [[int(x) for x in r] for r in i1], i0, i1, form
    if form == 'int-tuple':
        return tuple(tuple(int(x) for x in r) for r in i0), tuple(tuple(int(x) for x in r) for r in i1), i0, i1, form
    if form == 'float32-of-int' and big < 2 ** 24:
        return i0.astype(np.float32), i1.astype(np.float32), i0, i1, form
    return i0.astype(np.int64), i1.astype(np.int64), i0, i1, 'int64'
