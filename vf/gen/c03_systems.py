"""C03 workload generator: stratified hostile atomic configurations for the
neighbour list (numpy only).  Class choice is a function of the case index;
only the numbers inside a class come from the case's rng.

Every system has all atoms inside the cell (relative coordinates in [0,1],
faces included), which is the precondition of the property.
"""
from __future__ import annotations

import numpy as np

from ..oracle import geometry as G
from . import cells

CONFIGS = ['sparse', 'sparse_cross', 'dense', 'cluster', 'crystal', 'faces', 'binedge', 'bigcutoff', 'exact', 'tiny']
SIZES = [(1, 1), (1, 3), (2, 1), (5, 7), (20, 10)]
MAXBINS = 40000          # keeps the (nx,ny,nz,41) bin table of the code under test below ~15 MB


def stratum(i):
    """Deterministic classes of case i."""
    nc = len(CONFIGS)
    config = CONFIGS[i % nc]
    kind, origin, scale = cells.stratified(i)            # i % 9, (i//9) % 3, (i//27) % 3
    q = i // nc
    pbc = cells.PBCS[q % 8]
    sizes = SIZES[(q + i % nc) % 5]                      # crossed with config and pbc
    sub = (q // 8) % 6                                   # slow sub-class selector inside a config
    sel = (q + q // 8) % 6                               # second selector (cutoff ladder), not locked to pbc parity
    return dict(config=config, kind=kind, origin=origin, scale=scale, pbc=pbc, sizes=sizes, sub=sub, sel=sel)


# ---------------------------------------------------------------- bins (documented construction)
def bin_grid(vects, origin, cutoff):
    """Cutoff-sized bins over the axis-aligned bounding box of the cell padded by
    1.01*cutoff (properties.jsonl, anchors/mechanism).  Returns (supermin, counts)."""
    v = np.asarray(vects, float)
    o = np.asarray(origin, float)
    corners = np.array([o + x * v[0] + y * v[1] + z * v[2] for x in (0, 1) for y in (0, 1) for z in (0, 1)])
    lo = corners.min(axis=0) - 1.01 * cutoff
    hi = corners.max(axis=0) + 1.01 * cutoff
    counts = np.ceil((hi + cutoff - lo) / cutoff).astype(int) + 1
    return lo, counts


def cap_cutoff(vects, origin, cutoff):
    """Raise the cutoff until the bin grid has at most MAXBINS bins."""
    n = 0
    while np.prod(bin_grid(vects, origin, cutoff)[1].astype(float)) > MAXBINS and n < 200:
        cutoff *= 1.1
        n += 1
    return cutoff


# ---------------------------------------------------------------- helpers
def _cart(rel, cell):
    return G.cart(np.asarray(rel, float).reshape(-1, 3), cell['vects'], cell['origin'])


def _rel(pos, cell):
    return G.rel(np.asarray(pos, float).reshape(-1, 3), cell['vects'], cell['origin'])


def _wrap_rel(rel):
    r = rel - np.floor(rel)
    r[r >= 1.0] = 0.0
    return r


def _unit(rng, n=None):
    u = rng.normal(size=3 if n is None else (n, 3))
    return u / np.linalg.norm(u, axis=-1, keepdims=True)


def _integer_cell(rng, sub):
    """Cell, origin and lattice spacing made of small dyadic numbers only, so
    that every separation, its square and the squared cutoff are exact."""
    a = [1.0, 2.0, 0.5][sub % 3]
    n = rng.integers(2, 5, 3)
    if sub % 2 == 0:
        n[:] = n[0]
    v = np.diag(n * a).astype(float)
    tilt = False
    if sub >= 3:                                  # integer tilts map the lattice onto itself
        v[1, 0] = a * rng.integers(-1, 2)
        v[2, 0] = a * rng.integers(-1, 2)
        v[2, 1] = a * rng.integers(-1, 2)
        tilt = bool(v[1, 0] or v[2, 0] or v[2, 1])
    o = a * rng.integers(-6, 7, 3).astype(float)
    return v, o, a, n, tilt


# ---------------------------------------------------------------- the generator
def gen_system(rng, i, thorough=False, shrink=1):
    """Returns dict(vects, origin, pbc, pos, cutoff, sizes, exact, meta...)."""
    st = stratum(i)
    config, pbc, sub, sel = st['config'], st['pbc'], st['sub'], st['sel']
    meta = dict(st)
    exact = False
    if config == 'exact':
        v, o, a, nrep, tilt = _integer_cell(rng, sub)
        cell = dict(vects=v, origin=o, L=np.linalg.norm(v, axis=1).max(), kind='integer-tilted' if tilt else 'integer', lammps=True)
        meta['kind'] = cell['kind']
        meta['origin'] = 'integer'
        meta['scale'] = a
    else:
        cell = cells.gen_cell(rng, st['kind'], st['origin'], st['scale'])
    v, o = cell['vects'], cell['origin']
    w = G.perp_widths(v)
    wmin, wmax = w.min(), w.max()
    L = np.linalg.norm(v, axis=1).max()
    per_axes = [k for k in range(3) if pbc[k]]
    notes = {}

    if config == 'tiny':
        n = 1 + sub % 3
        rel = rng.uniform(0, 1, (n, 3))
        if n >= 2 and sub >= 3:                   # a close pair
            rel[1] = _wrap_rel(_rel(_cart(rel[0], cell) + _unit(rng) * 0.2 * wmin, cell))[0]
        f = [0.08, 0.45, 0.95, 1.2, 1.6, 2.4][sel]
        cutoff = f * wmin
        pos = _cart(rel, cell)
        cclass = 'tiny:%g' % f

    elif config == 'sparse':
        n = int(rng.integers(2, 13))
        cutoff = cap_cutoff(v, o, rng.uniform(0.05, 0.22) * wmin)
        nb = max(1, n // 2)
        rel = rng.uniform(0, 1, (nb, 3))
        base = _cart(rel, cell)
        partners = base[rng.integers(0, nb, n - nb)] + _unit(rng, n - nb) * (cutoff * rng.uniform(0.2, 1.3, (n - nb, 1)))
        pos = np.vstack([base, _cart(_wrap_rel(_rel(partners, cell)), cell)])
        cclass = 'small'

    elif config == 'sparse_cross':
        # pairs whose only short separation crosses one or more periodic faces, in an otherwise empty cell
        cutoff = cap_cutoff(v, o, rng.uniform(0.08, 0.2) * wmin)
        npairs = int(rng.integers(1, 5))
        pts = []
        made = 0
        for _ in range(npairs):
            if per_axes:
                k = int(rng.integers(1, len(per_axes) + 1))
                S = list(rng.choice(per_axes, size=k, replace=False))
            else:
                S = []
            urel = rng.uniform(0.2, 0.8, 3)
            side = {}
            for ax in S:
                side[ax] = int(rng.integers(0, 2))           # 0: u near the low face, 1: near the high face
                t = rng.uniform(0.0, 0.5) * cutoff / w[ax]
                urel[ax] = t if side[ax] == 0 else 1.0 - t
            u = _cart(urel, cell)[0]
            vrel = None
            for _try in range(60):
                d = _unit(rng) * cutoff * rng.uniform(0.3, 0.98)
                r = _rel(u + d, cell)[0]
                ok = True
                for ax in range(3):
                    if ax in S:
                        ok &= (r[ax] < 0) if side[ax] == 0 else (r[ax] > 1)
                    else:
                        ok &= 0 <= r[ax] <= 1
                if ok:
                    vrel = r
                    made += 1 if S else 0
                    break
            if vrel is None:
                vrel = _rel(u + _unit(rng) * cutoff * 0.7, cell)[0]
            pts.append(urel)
            pts.append(_wrap_rel(vrel))
        pos = _cart(np.array(pts), cell)
        notes['cross_pairs_built'] = made
        cclass = 'small'

    elif config == 'dense':
        ladder = [5, 20, 60, 150, 400]
        n = ladder[sub % 5]
        if thorough and i % 400 == 2:
            n = [1000, 2000, 4000][(i // 400) % 3]
        n = max(2, n // shrink)
        vol = abs(G.volume(v))
        which = (i // len(CONFIGS)) % 3
        if which == 0:                                # a few neighbours each
            target = rng.uniform(3, 9)
            cutoff = (3 * target * vol / (4 * np.pi * n)) ** (1 / 3)
            cclass = 'small'
        elif which == 1:                              # tens of neighbours: row growth for every storage size
            target = rng.uniform(22, 45) if n >= 60 else rng.uniform(3, 9)
            cutoff = (3 * target * vol / (4 * np.pi * n)) ** (1 / 3)
            cclass = 'mid'
        else:
            cutoff = rng.uniform(0.3, 0.9) * wmin
            # keep the expected coordination below ~60
            cmax = (3 * 60 * vol / (4 * np.pi * n)) ** (1 / 3)
            cutoff = min(cutoff, cmax)
            cclass = 'mid'
        cutoff = cap_cutoff(v, o, cutoff)
        pos = _cart(rng.uniform(0, 1, (n, 3)), cell)

    elif config == 'cluster':
        # > 40 / > 50 / > 60 atoms inside one bin (hence inside one cutoff sphere) + background atoms
        ncl = [int(rng.integers(42, 49)), int(rng.integers(52, 59)), int(rng.integers(62, 67))][sub % 3]
        cutoff = cap_cutoff(v, o, rng.uniform(0.3, 0.8) * wmin)
        lo, _cnt = bin_grid(v, o, cutoff)
        crel = rng.uniform(0.15, 0.85, 3)
        c = _cart(crel, cell)[0]
        k = np.floor((c - lo) / cutoff)
        # distance from the centre to the faces of its bin and to the faces of the cell
        dbin = np.minimum(c - (lo + k * cutoff), lo + (k + 1) * cutoff - c).min()
        dcell = (np.minimum(crel, 1 - crel) * w).min()
        r = 0.9 * min(dbin, dcell, 0.45 * cutoff)
        pts = c + _unit(rng, ncl) * (r * rng.uniform(0.05, 1.0, (ncl, 1)) ** (1 / 3))
        nbg = int(rng.integers(0, 25))
        pos = np.vstack([pts, _cart(rng.uniform(0, 1, (nbg, 3)), cell)])
        pos = pos[rng.permutation(len(pos))]
        notes['cluster_size'] = ncl
        cclass = 'mid'

    elif config == 'crystal':
        basis = [np.zeros((1, 3)), np.array([[0, 0, 0], [.5, .5, .5]]),
                 np.array([[0, 0, 0], [.5, .5, 0], [.5, 0, .5], [0, .5, .5]])][sub % 3]
        hi = 5 if not thorough else (9 if i % 200 == 4 else 6)
        nrep = rng.integers(2, max(3, hi // (1 if shrink == 1 else 2)), 3)
        grid = np.array([[x, y, z] for x in range(nrep[0]) for y in range(nrep[1]) for z in range(nrep[2])], float)
        rel = ((grid[:, None, :] + basis[None, :, :]) / nrep).reshape(-1, 3)
        pos = _cart(rel, cell)
        # shells of the primitive pattern (separations of atom 0's basis images), cutoff between two shells
        prim = v / nrep[:, None]
        cand = []
        for b in basis:
            for x in range(-2, 3):
                for y in range(-2, 3):
                    for z in range(-2, 3):
                        d = np.linalg.norm((np.array([x, y, z]) + b) @ prim)
                        if d > 1e-9 * L:
                            cand.append(d)
        cand = np.unique(np.round(np.array(cand) / L, 9)) * L
        ks = int(rng.integers(0, 4))
        if sub >= 3 and ks < len(cand):
            cutoff = float(cand[ks])                  # exactly on a shell: those pairs are exempt
            cclass = 'on-shell'
        else:
            cutoff = float(0.5 * (cand[ks] + cand[ks + 1]))
            cclass = 'between-shells'
        cutoff = cap_cutoff(v, o, cutoff)

    elif config == 'faces':
        n = int(rng.integers(8, 60))
        rel = rng.uniform(0, 1, (n, 3))
        pick = rng.random((n, 3))
        rel[pick < 0.25] = 0.0
        rel[pick > 0.75] = 1.0
        # periodic images of one another: same atom on the two opposite faces
        m = n // 4
        for j in range(m):
            ax = int(rng.integers(0, 3))
            rel[j, ax] = 0.0
            rel[n - 1 - j] = rel[j]
            rel[n - 1 - j, ax] = 1.0
        cutoff = cap_cutoff(v, o, rng.uniform(0.25, 1.1) * wmin)
        pos = _cart(rel, cell)
        notes['on_face_coords'] = int(((rel == 0) | (rel == 1)).sum())
        cclass = 'mid'

    elif config == 'binedge':
        n = int(rng.integers(10, 70))
        cutoff = cap_cutoff(v, o, rng.uniform(0.15, 0.7) * wmin)
        lo, _cnt = bin_grid(v, o, cutoff)
        pos = _cart(rng.uniform(0.02, 0.98, (n, 3)), cell)
        moved = 0
        deltas = [0.0, 1e-12 * L, -1e-12 * L, 1e-9 * cutoff, -1e-9 * cutoff, None, None]
        for j in range(0, n - 1, 2):
            ax = int(rng.integers(0, 3))
            k = np.round((pos[j, ax] - lo[ax]) / cutoff)
            e = lo[ax] + k * cutoff
            dl = deltas[int(rng.integers(0, len(deltas)))]
            new = np.array(pos[j])
            if dl is None:
                new[ax] = np.nextafter(e, e + (1 if rng.random() < 0.5 else -1))
            else:
                new[ax] = e + dl
            partner = np.array(new)
            partner[ax] = e - (new[ax] - e) if new[ax] != e else np.nextafter(e, e - 1)   # mirror image on the other side of the edge
            rr = _rel(np.array([new, partner]), cell)
            if (rr >= 0).all() and (rr <= 1).all():
                pos[j] = new
                pos[j + 1] = partner
                moved += 2
        notes['binedge_atoms'] = moved
        cclass = 'mid'

    elif config == 'bigcutoff':
        n = max(1, int(rng.integers(1, 31)) // shrink)
        cutoff = rng.uniform(1.0, 1.5) * wmax
        pos = _cart(rng.uniform(0, 1, (n, 3)), cell)
        cclass = 'above-cell'

    elif config == 'exact':
        exact = True
        # simple-cubic sites a*(x,y,z) + origin that lie in the half-open cell (integer tilts keep the count nx*ny*nz)
        ext = int(np.abs(v / a).sum(axis=0).max()) + 1
        rg = np.arange(-ext, ext + 1)
        grid = np.array([[x, y, z] for x in rg for y in rg for z in rg], float)
        gr = np.linalg.solve(v.T, (grid * a).T).T
        grid = grid[((gr > -1e-9) & (gr < 1 - 1e-9)).all(axis=1)]
        if sub % 2 == 1:                              # vacancies
            keep = rng.random(len(grid)) > 0.25
            keep[0] = True
            grid = grid[keep]
        pos = grid * a + o                            # integer multiples of a: exact
        cutoff = a * [1.0, 2.0, 3.0, 5.0, 1.5, 2.5][sel]
        cclass = 'exact:%g' % (cutoff / a)
    else:
        raise ValueError(config)

    pos = np.ascontiguousarray(pos, float)
    rel = _rel(pos, cell)
    inside = bool((rel >= -1e-9).all() and (rel <= 1 + 1e-9).all())
    meta.update(cclass=cclass, natoms=len(pos), wmin=float(wmin), wmax=float(wmax), L=float(L), notes=notes,
                cutoff_over_wmin=float(cutoff / wmin), inside=inside,
                nbins=int(np.prod(bin_grid(v, o, cutoff)[1].astype(float))))
    return dict(vects=v, origin=o, pbc=tuple(bool(x) for x in pbc), pos=pos, cutoff=float(cutoff),
                sizes=st['sizes'], exact=exact, meta=meta)


# ================================================================ call histories (round 4)
# One case = a chain of builds whose results are all kept and judged again after every later build,
# copy, dump and load.  Step kinds, entry points, storage class and density class are functions of the
# case index; only the numbers come from the rng.
HSTEPS = ['moved-inplace', 'pos-reassigned', 'perturbed-inplace', 'pbc-changed-inplace', 'other-system-same-cell',
          'other-cell-same-natoms', 'cutoff-changed', 'repeat-equal', 'box-rescaled-inplace', 'one-atom-fewer',
          'one-atom-more', 'default-sizes']
HHOWS = ['NeighborList', 'System.neighborlist', 'nlist', 'nlist-positional', 'rebuild']
HSIZES = ['defaults', 'roomy', 'tight']
HTARGETS = ['sparse', 'mid', 'dense']
HAUX = ['deepcopy', 'pickle', 'copy', 'load:path', 'load:content', 'load:stream', 'load:pathlib',
        'load:System.neighborlist', 'none']
HTIGHT = [(1, 1), (1, 3), (2, 1), (5, 7)]
HLEN = 4                                     # builds per chain (A, B, C, D)


def history_stratum(i):
    K = len(HSTEPS)
    steps = [HSTEPS[i % K], HSTEPS[(5 * i + i // K + 1) % K], HSTEPS[(7 * i + 3 * (i // K) + 2) % K]]
    hows = [HHOWS[(i + 2 * k) % len(HHOWS)] for k in range(HLEN)]
    kind, origin, scale = cells.stratified(i)
    tiny = i % 7 == 6
    return dict(steps=steps, hows=hows, sizes_class=HSIZES[(i // K) % 3], target=HTARGETS[(i // (3 * K)) % 3],
                kind=kind, origin=origin, scale=scale, pbc=cells.PBCS[(i // 5) % 8], tiny=tiny,
                natoms_tiny=1 + (i // 7) % 3, aux=HAUX[(i // 5) % len(HAUX)], scribble=(i // K) % 2 == 0)


def _hist_cutoff(rng, cell, n, target, tiny):
    v, o = cell['vects'], cell['origin']
    w = G.perp_widths(v)
    if tiny:
        c = rng.uniform(0.3, 1.3) * w.min()
    else:
        t = {'sparse': rng.uniform(0.4, 1.5), 'mid': rng.uniform(3, 8), 'dense': rng.uniform(12, 26)}[target]
        c = (3 * t * abs(G.volume(v)) / (4 * np.pi * n)) ** (1 / 3)
        c = min(c, 1.4 * w.max())
    return float(cap_cutoff(v, o, c))


def gen_history(rng, i):
    """Returns dict(meta, sizes, frames): frames[k] = dict(step, how, vects, origin, pbc, pos, cutoff, default_sizes).
    frames[0] is the first system; frames[k] says what the k-th build is made on and how it derives from k-1.
    All atoms are strictly inside the cell (relative coordinates in (0.001, 0.999))."""
    st = history_stratum(i)
    cell = cells.gen_cell(rng, st['kind'], st['origin'], st['scale'])
    n = st['natoms_tiny'] if st['tiny'] else int(rng.integers(6, 61))
    rel = rng.uniform(0.001, 0.999, (n, 3))
    cutoff = _hist_cutoff(rng, cell, n, st['target'], st['tiny'])
    if st['sizes_class'] == 'defaults':
        sizes = None
    elif st['sizes_class'] == 'roomy':
        sizes = (int(rng.integers(27, 40)), int(rng.integers(1, 12)))
    else:
        sizes = HTIGHT[(i // (3 * len(HSTEPS))) % len(HTIGHT)]
    cur = dict(vects=np.array(cell['vects']), origin=np.array(cell['origin']), pbc=tuple(bool(x) for x in st['pbc']),
               pos=_cart(rel, cell), cutoff=cutoff)
    frames = [dict(cur, step='first', how=st['hows'][0], default_sizes=False)]
    for k, step in enumerate(st['steps'], start=1):
        c = dict(vects=cur['vects'], origin=cur['origin'])
        new = dict(cur)
        nn = len(cur['pos'])
        if step == 'one-atom-fewer' and nn < 2:
            step = 'one-atom-more'
        if step in ('moved-inplace', 'pos-reassigned', 'other-system-same-cell', 'default-sizes'):
            new['pos'] = _cart(rng.uniform(0.001, 0.999, (nn, 3)), c)
        elif step == 'perturbed-inplace':
            moved = cur['pos'] + _unit(rng, nn) * (cur['cutoff'] * rng.uniform(0.0, 0.3, (nn, 1)))
            r = np.clip(_wrap_rel(_rel(moved, c)), 0.001, 0.999)
            new['pos'] = _cart(r, c)
        elif step == 'pbc-changed-inplace':
            idx = cells.PBCS.index(tuple(cur['pbc']))
            new['pbc'] = cells.PBCS[(idx + 1 + int(rng.integers(0, 7))) % 8]
        elif step == 'other-cell-same-natoms':
            kind2 = cells.KINDS[(cells.KINDS.index(st['kind']) + 1 + int(rng.integers(0, 8))) % len(cells.KINDS)]
            cell2 = cells.gen_cell(rng, kind2, st['origin'], st['scale'])
            r = _rel(cur['pos'], c)
            new['vects'], new['origin'] = np.array(cell2['vects']), np.array(cell2['origin'])
            new['pos'] = _cart(np.clip(r, 0.001, 0.999), cell2)
            f = (abs(G.volume(cell2['vects'])) / abs(G.volume(cur['vects']))) ** (1 / 3)
            new['cutoff'] = float(cap_cutoff(new['vects'], new['origin'], cur['cutoff'] * f))
        elif step == 'cutoff-changed':
            f = rng.uniform(0.6, 0.95) if rng.random() < 0.5 else rng.uniform(1.05, 1.4)
            new['cutoff'] = float(cap_cutoff(cur['vects'], cur['origin'], cur['cutoff'] * f))
        elif step == 'repeat-equal':
            pass
        elif step == 'box-rescaled-inplace':
            s = rng.uniform(0.8, 1.25, 3)
            r = _rel(cur['pos'], c)
            new['vects'] = cur['vects'] * s[:, None]
            new['pos'] = _cart(r, dict(vects=new['vects'], origin=cur['origin']))     # what scale=True is documented to do
            new['cutoff'] = float(cap_cutoff(new['vects'], new['origin'], cur['cutoff']))
        elif step == 'one-atom-fewer':
            new['pos'] = np.array(cur['pos'][:-1])
        elif step == 'one-atom-more':
            new['pos'] = np.vstack([cur['pos'], _cart(rng.uniform(0.001, 0.999, (1, 3)), c)])
        else:
            raise ValueError(step)
        new['pos'] = np.ascontiguousarray(new['pos'], float)
        frames.append(dict(new, step=step, how=st['hows'][k], default_sizes=(step == 'default-sizes')))
        cur = new
    return dict(meta=st, sizes=sizes, frames=frames)
