"""C04 workload generators: decorated unit cells, supersize multipliers, integer
vector sets, Miller-Bravais sets, centred conventional cells and their
primitive cells.  numpy only, never atomman.  Everything random comes from the
``rng`` handed in; every class choice is made by the caller from the case index.
"""
from __future__ import annotations

import itertools
from math import gcd

import numpy as np

from . import cells
from ..oracle import geometry as G

ELEMENTS = ('Al', 'Cu', 'Ni', 'Fe', 'Ti')

# ------------------------------------------------------------------------------------------------
# decorated unit cells
# ------------------------------------------------------------------------------------------------
POS_CLASSES = ('generic', 'corner+generic', 'special', 'mixed', 'face')
_SPECIAL = np.array([p for p in itertools.product((0.0, 0.5), repeat=3)])


def _min_image_sep(rel, vects):
    """Smallest distance between two different atoms modulo the lattice (27 images)."""
    n = len(rel)
    if n < 2:
        return np.inf
    d = rel[:, None, :] - rel[None, :, :]
    d -= np.rint(d)
    sh = np.array(list(itertools.product((-1, 0, 1), repeat=3)), float)
    c = (d[:, :, None, :] + sh[None, None, :, :]) @ vects
    ln = np.linalg.norm(c, axis=-1).min(axis=-1)
    ln[np.arange(n), np.arange(n)] = np.inf
    return ln.min()


def gen_rel_positions(rng, natoms, pos_class, vects, extra_translations=()):
    """natoms distinct relative positions of the requested class.  ``extra_translations``:
    centring translations under which the atoms must stay distinct as well."""
    lmin = np.linalg.norm(vects, axis=1).min()
    for _ in range(200):
        rel = rng.uniform(0.04, 0.96, (natoms, 3))
        if pos_class == 'generic':
            pass
        elif pos_class == 'corner+generic':
            rel[0] = 0.0
        elif pos_class == 'special':
            pick = rng.permutation(len(_SPECIAL))[:natoms]
            rel = _SPECIAL[pick].copy()
        elif pos_class == 'mixed':
            rel[0] = 0.0
            if natoms > 1:
                rel[1] = _SPECIAL[1 + int(rng.integers(0, 7))]
        elif pos_class == 'face':                      # on a face / on an edge of the cell, otherwise generic
            for j in range(natoms):
                ax = int(rng.integers(0, 3))
                rel[j, ax] = 0.0
                if j % 2 == 1:
                    rel[j, (ax + 1) % 3] = 0.0
        else:
            raise ValueError(pos_class)
        full = rel
        if len(extra_translations):
            full = np.vstack([rel] + [rel + np.asarray(t, float) for t in extra_translations])
            full = full - np.floor(full)
        if _min_image_sep(full, vects) > 0.12 * lmin:
            return rel
    raise RuntimeError('could not place atoms')


def decorate(rng, natoms, ntypes):
    """Types (every type used), an integer scalar property with a distinct value per
    atom and a float 3-vector property."""
    ntypes = min(ntypes, natoms)
    atype = np.concatenate([np.arange(1, ntypes + 1), rng.integers(1, ntypes + 1, natoms - ntypes)])
    atype = atype[rng.permutation(natoms)].astype(int)
    idn = (100 + rng.permutation(50)[:natoms] * 3).astype(int)
    vec = rng.normal(size=(natoms, 3))
    symbols = tuple(ELEMENTS[(k + int(rng.integers(0, 5))) % 5] for k in range(ntypes))
    if len(set(symbols)) < ntypes:
        symbols = ELEMENTS[:ntypes]
    return atype, idn, vec, tuple(symbols)


ORIGINS4 = ('zero', 'small', 'near', 'far')
# 'lattice': the cell corner sits on a non-zero lattice point (every frame reading of "maps through the rotation"
# coincides there); 'small' / 'near' / 'far' are generic NON-lattice vectors of growing size (the readings differ)
ORIGINS5 = ('zero', 'lattice', 'small', 'near', 'far')


def origin_cell(rng, kind, origin_class, scale=1.0):
    """cells.gen_cell plus the origin classes 'small' (the Cartesian origin lies within 0.9 cell
    vectors of the cell corner along every axis, generic) and 'lattice' (the corner is a non-zero
    integer combination of the cell vectors, up to 3 cells away)."""
    if origin_class not in ('small', 'lattice'):
        return cells.gen_cell(rng, kind, origin_class, scale)
    c = cells.gen_cell(rng, kind, 'zero', scale)
    if origin_class == 'small':
        c['origin'] = rng.uniform(-0.9, 0.9, 3) @ c['vects']
    else:
        n = np.zeros(3)
        while not np.any(n):
            n = rng.integers(-3, 4, 3).astype(float)
        c['origin'] = n @ c['vects']
    c['origin_class'] = origin_class
    return c


def lattice_offset(vects, origin):
    """Distance (in cell fractions, max over axes) of the cell corner from the nearest lattice point
    of the lattice through the Cartesian origin: 0 means the frame readings 'plain rotation about 0'
    and 'rotation about the cell corner' cannot be told apart."""
    s = np.linalg.solve(np.asarray(vects, float).T, np.asarray(origin, float))
    return float(np.abs(s - np.rint(s)).max())


MIRRORS = ('lh-a', 'lh-b', 'lh-c', 'lh-all')


def mirror_description(u, how):
    """The SAME infinite crystal (same Cartesian atom positions modulo the same lattice) described by a
    LEFT-HANDED cell: the cell vector(s) named by ``how`` ('lh-a', 'lh-b', 'lh-c', 'lh-all') are reversed and
    the cell corner is moved to the far end of the reversed vectors, so the new cell covers the same region
    of space.  Relative coordinates along a reversed axis become 1 - s (0 stays 0: that atom is moved by one
    lattice vector, which leaves the crystal unchanged), so atoms on faces stay on (low) faces and every atom
    stays inside the cell.  Works for dicts from gen_unit_cell, gen_conventional and primitive_of."""
    axes = {'lh-a': [0], 'lh-b': [1], 'lh-c': [2], 'lh-all': [0, 1, 2]}[how]
    v = np.array(u['vects'], float)
    o = np.array(u['origin'], float)
    rel = np.array(u['rel'], float)
    for ax in axes:
        o = o + v[ax]
    for ax in axes:
        v[ax] = -v[ax]
        r = 1.0 - rel[:, ax]
        r[rel[:, ax] == 0.0] = 0.0
        rel[:, ax] = r
    out = dict(u)
    out.update(vects=v, origin=o, rel=rel, pos=G.cart(rel, v, o), hand=how)
    return out


def mirror_uvws(M, how):
    """Components, along the cell vectors of ``mirror_description(u, how)``, of the lattice vectors whose
    components along the cell vectors of ``u`` are the rows of M (columns of the reversed axes change sign)."""
    M = np.array(M).copy()
    for ax in {'lh-a': [0], 'lh-b': [1], 'lh-c': [2], 'lh-all': [0, 1, 2]}[how]:
        M[:, ax] = -M[:, ax]
    return M


def gen_unit_cell(rng, kind, origin_class, scale, natoms, ntypes, pos_class):
    """dict(vects, origin, rel, pos, atype, idn, vec, symbols, kind, L ...)."""
    c = origin_cell(rng, kind, origin_class, scale)
    v, o = c['vects'], c['origin']
    if pos_class == 'special':
        natoms = min(natoms, 8)
    rel = gen_rel_positions(rng, natoms, pos_class, v)
    atype, idn, vec, symbols = decorate(rng, natoms, ntypes)
    return dict(kind=kind, origin_class=origin_class, scale=scale, vects=v, origin=o, L=c['L'], rel=rel,
                pos=G.cart(rel, v, o), atype=atype, idn=idn, vec=vec, symbols=symbols, pos_class=pos_class,
                natoms=natoms, ntypes=len(symbols))


# ------------------------------------------------------------------------------------------------
# supersize multipliers
# ------------------------------------------------------------------------------------------------
MULT_CLASSES = ('positive', 'negative', 'two-sided', 'half-tuples', 'numpy-int', 'numpy-tuple', 'mixed', 'unit')


def _spec(rng, kind, big=4):
    k = int(rng.integers(1, big + 1))
    m = int(rng.integers(1, 3))
    n = int(rng.integers(1, 3))
    if kind == 'pint':
        return k, (0, k)
    if kind == 'nint':
        return -k, (-k, 0)
    if kind == 'two':
        return (-m, n), (-m, n)
    if kind == 'lohalf':
        return (-k, 0), (-k, 0)
    if kind == 'hihalf':
        return (0, k), (0, k)
    if kind == 'np_pos':
        return np.int64(k), (0, k)
    if kind == 'np_neg':
        return np.int32(-k), (-k, 0)
    if kind == 'np_two':
        return (np.int64(-m), np.int32(n)), (-m, n)
    raise ValueError(kind)


def expected_range(spec):
    """(lo, hi) of the replication block from the documented meaning of a multiplier:
    a positive integer k means images 0..k-1, a negative one -k..-1 , a tuple (m, n) m..n-1.
    Returns None for values the documentation does not allow."""
    if isinstance(spec, (bool, np.bool_)):
        return None
    if isinstance(spec, (int, np.integer)):
        k = int(spec)
        if k > 0:
            return (0, k)
        if k < 0:
            return (k, 0)
        return None
    if isinstance(spec, tuple) and len(spec) == 2 and all(isinstance(x, (int, np.integer)) and not isinstance(x, (bool, np.bool_)) for x in spec):
        m, n = int(spec[0]), int(spec[1])
        if m <= 0 <= n and n - m > 0:
            return (m, n)
    return None


def gen_multipliers(rng, mclass, max_images=64):
    """Three multiplier arguments of the requested class (their documented ranges are
    recovered with ``expected_range``)."""
    table = {
        'positive': ('pint', 'pint', 'pint'),
        'negative': ('nint', 'nint', 'nint'),
        'two-sided': ('two', 'two', 'two'),
        'half-tuples': ('lohalf', 'hihalf', 'two'),
        'numpy-int': ('np_pos', 'np_neg', 'np_pos'),
        'numpy-tuple': ('np_two', 'np_two', 'np_two'),
        'mixed': ('pint', 'nint', 'two'),
        'unit': ('one', 'pint', 'two'),
    }[mclass]
    order = rng.permutation(3)
    for _ in range(100):
        specs = []
        for ax in range(3):
            kind = table[order[ax]]
            if kind == 'one':
                specs.append([1, -1, (0, 1), (-1, 0), np.int64(1)][int(rng.integers(0, 5))])
            else:
                specs.append(_spec(rng, kind)[0])
        n = 1
        for s in specs:
            lo, hi = expected_range(s)
            n *= hi - lo
        if n <= max_images:
            return tuple(specs)
    raise RuntimeError('multipliers')


# ------------------------------------------------------------------------------------------------
# integer vector sets
# ------------------------------------------------------------------------------------------------
def det3(m):
    """Exact integer determinant of a 3x3 integer matrix."""
    m = [[int(x) for x in r] for r in np.asarray(m).tolist()]
    return (m[0][0] * (m[1][1] * m[2][2] - m[1][2] * m[2][1])
            - m[0][1] * (m[1][0] * m[2][2] - m[1][2] * m[2][0])
            + m[0][2] * (m[1][0] * m[2][1] - m[1][1] * m[2][0]))


_ENUM = {}


def enum_matrices(bound=1):
    """All integer 3x3 matrices with entries in [-bound, bound] and non-zero determinant
    (11 808 for bound 1), in lexicographic order."""
    if bound not in _ENUM:
        vals = np.arange(-bound, bound + 1)
        grid = np.array(np.meshgrid(*([vals] * 9), indexing='ij')).reshape(9, -1).T.reshape(-1, 3, 3)
        d = (grid[:, 0, 0] * (grid[:, 1, 1] * grid[:, 2, 2] - grid[:, 1, 2] * grid[:, 2, 1])
             - grid[:, 0, 1] * (grid[:, 1, 0] * grid[:, 2, 2] - grid[:, 1, 2] * grid[:, 2, 0])
             + grid[:, 0, 2] * (grid[:, 1, 0] * grid[:, 2, 1] - grid[:, 1, 1] * grid[:, 2, 0]))
        _ENUM[bound] = grid[d != 0]
    return _ENUM[bound]


def sample_matrix(rng, bound, want_sign=0, max_det=None):
    """Random integer matrix with entries in [-bound, bound], det != 0 (of the wanted sign
    if want_sign = +-1), at least one entry of magnitude ``bound``."""
    for _ in range(10000):
        m = rng.integers(-bound, bound + 1, (3, 3))
        d = det3(m)
        if d == 0 or np.abs(m).max() != bound:
            continue
        if want_sign and (d > 0) != (want_sign > 0):
            continue
        if max_det and abs(d) > max_det:
            continue
        return m
    raise RuntimeError('matrix')


# the seven ways of re-describing a vector set by the same three lattice vectors (up to sign and order) with
# the OPPOSITE handedness: one vector reversed, two vectors exchanged, all three reversed
FLIPS = ('neg-row0', 'neg-row1', 'neg-row2', 'swap01', 'swap12', 'swap02', 'neg-all')


def flip_handedness(M, flip):
    M = np.array(M).copy()
    if flip.startswith('neg-row'):
        k = int(flip[-1])
        M[k] = -M[k]
    elif flip.startswith('swap'):
        j, k = int(flip[-2]), int(flip[-1])
        M[[j, k]] = M[[k, j]]
    elif flip == 'neg-all':
        M = -M
    else:
        raise ValueError(flip)
    return M


def coplanar_matrix(rng, bound=2):
    for _ in range(10000):
        m = rng.integers(-bound, bound + 1, (3, 3))
        if rng.random() < 0.5:
            m[2] = m[0] + m[1]
        if det3(m) == 0 and np.abs(m).sum(axis=1).min() > 0:
            return m
    raise RuntimeError('coplanar')


def hex4_rows(M3, style):
    """Miller-Bravais [uvtw] rows describing (a positive multiple of) the lattice vectors
    U a1 + V a2 + W c given by the rows of M3.  From the definition a3 = -(a1 + a2):
    [uvtw] with u = 2U - V, v = 2V - U, t = -(U + V), w = 3W is three times the vector.
    style 'reduced': divided by the gcd of the four indices; 'raw': as is."""
    rows = []
    for U, V, W in np.asarray(M3).tolist():
        r = [2 * U - V, 2 * V - U, -(U + V), 3 * W]
        if style == 'reduced':
            g = 0
            for x in r:
                g = gcd(g, abs(x))
            r = [x // g for x in r]
        rows.append(r)
    return np.array(rows, dtype=int)


def hex4_to_lattice(rows4):
    """Exact integer components (U, V, W) of u a1 + v a2 + t a3 + w c with a3 = -(a1 + a2),
    and the same reduced to the shortest parallel lattice vector."""
    exact, reduced = [], []
    for u, v, t, w in np.asarray(rows4).tolist():
        e = [u - t, v - t, w]
        g = 0
        for x in e:
            g = gcd(g, abs(x))
        exact.append(e)
        reduced.append([x // g for x in e])
    return np.array(exact, dtype=int), np.array(reduced, dtype=int)


# ------------------------------------------------------------------------------------------------
# centred conventional cells and their primitive cells
# ------------------------------------------------------------------------------------------------
# Centring translations (International Tables A, centring types P I F A B C, R obverse / reverse).
CENTERING = {
    'p': [],
    'i': [(0.5, 0.5, 0.5)],
    'f': [(0.5, 0.5, 0.0), (0.5, 0.0, 0.5), (0.0, 0.5, 0.5)],
    'a': [(0.0, 0.5, 0.5)],
    'b': [(0.5, 0.0, 0.5)],
    'c': [(0.5, 0.5, 0.0)],
    't1': [(2 / 3, 1 / 3, 1 / 3), (1 / 3, 2 / 3, 2 / 3)],      # obverse
    't2': [(1 / 3, 2 / 3, 1 / 3), (2 / 3, 1 / 3, 2 / 3)],      # reverse
}
# families for which (family, centring) is one of the 14 Bravais lattices in the sense the dump
# style documents (its check_family list); 't' is the generic trigonal request (t1 or t2 basis).
COMPATIBLE = {
    'p': ['cubic', 'hexagonal', 'tetragonal', 'rhombohedral', 'orthorhombic', 'monoclinic', 'triclinic'],
    'i': ['orthorhombic', 'tetragonal', 'cubic'],
    'f': ['orthorhombic', 'cubic'],
    'a': ['monoclinic', 'orthorhombic'],
    'b': ['monoclinic', 'orthorhombic'],
    'c': ['monoclinic', 'orthorhombic'],
    't1': ['hexagonal'],
    't2': ['hexagonal'],
}
# (requested setting, basis actually present, family) - 22 combinations
CONVERSION_TABLE = ([(s, s, f) for s in ('p', 'i', 'f', 'a', 'b', 'c', 't1', 't2') for f in COMPATIBLE[s]]
                    + [('t', 't1', 'hexagonal'), ('t', 't2', 'hexagonal')])
# Centred cells of families that are not among the 14 conventional Bravais cells (a face-centred tetragonal cell, a
# body-centred monoclinic one ...): every centring translation set is closed modulo the cell, so the crystal is a
# perfectly good one, and conventional_to_primitive documents check_family=False for exactly these.
NONCONVENTIONAL_TABLE = [('i', 'i', 'monoclinic'), ('i', 'i', 'triclinic'), ('f', 'f', 'tetragonal'), ('f', 'f', 'triclinic'),
                         ('a', 'a', 'tetragonal'), ('b', 'b', 'cubic'), ('c', 'c', 'hexagonal'),
                         ('t1', 't1', 'orthorhombic'), ('t2', 't2', 'triclinic')]

# Primitive cell vectors in units of the conventional ones, in the convention the two dump styles
# share (needed only to *construct* primitive input cells that the styles accept; it is not used
# to judge a result).  ``verify_primitive_tables`` checks them against the definition of each
# centring: rows are lattice vectors of the centred lattice and span a cell of volume 1/multiplicity.
PRIMITIVE = {
    'p': [[1, 0, 0], [0, 1, 0], [0, 0, 1]],
    'a': [[1, 0, 0], [0, .5, .5], [0, -.5, .5]],
    'b': [[.5, 0, .5], [0, 1, 0], [-.5, 0, .5]],
    'c': [[.5, .5, 0], [-.5, .5, 0], [0, 0, 1]],
    'i': [[.5, .5, .5], [-.5, .5, -.5], [-.5, -.5, .5]],
    'f': [[.5, .5, 0], [0, .5, .5], [.5, 0, .5]],
    't1': [[2 / 3, 1 / 3, 1 / 3], [-1 / 3, 1 / 3, 1 / 3], [-1 / 3, -2 / 3, 1 / 3]],
    't2': [[-2 / 3, -1 / 3, 1 / 3], [1 / 3, -1 / 3, 1 / 3], [1 / 3, 2 / 3, 1 / 3]],
}


def multiplicity(setting):
    return 1 + len(CENTERING[setting])


def in_centred_lattice(vec, setting, tol=1e-9):
    """Is vec (conventional-cell units) an integer vector plus nothing or one centring translation?"""
    vec = np.asarray(vec, float)
    for t in [(0, 0, 0)] + list(CENTERING[setting]):
        d = vec - np.asarray(t, float)
        if np.abs(d - np.rint(d)).max() < tol:
            return True
    return False


def verify_primitive_tables():
    """[(name, ok)] - the PRIMITIVE rows follow from the centring definitions."""
    out = []
    for s, P in PRIMITIVE.items():
        P = np.array(P, float)
        ok = all(in_centred_lattice(r, s) for r in P)
        ok = ok and abs(np.linalg.det(P) - 1.0 / multiplicity(s)) < 1e-12          # right-handed, right volume
        ok = ok and np.abs(np.linalg.inv(P) - np.rint(np.linalg.inv(P))).max() < 1e-9   # conventional vectors are integer combinations
        out.append((f'primitive vectors of setting {s}', bool(ok)))
    return out


# Motif classes of a centred conventional cell.  'corner+generic': first motif atom ON the lattice point 0,0,0 (what the
# basis check of conventional_to_primitive demands); the others have NO atom on a lattice point ("complex unit cells where
# no atoms are at the lattice site [0, 0, 0]", the documented use of check_basis=False): 'generic' positions, atoms on
# cell faces / edges, one atom 1e-4 x the shortest cell vector away from the lattice point (any direction, so it may sit
# just below an upper face), and simple fractions (0, 1/4, 1/3, 1/2, 2/3, 3/4 - diamond-like motifs, atoms on the faces
# of the primitive cell) that are not lattice points.
MOTIF_CLASSES = ('corner+generic', 'generic', 'face', 'near-corner', 'fractions')
_FRACTIONS = np.array([0.0, 0.25, 1 / 3, 0.5, 2 / 3, 0.75])
NEAR_CORNER = 1e-4


def gen_motif(rng, nmotif, motif_class, vects, basis):
    """nmotif relative positions (conventional cell) of the requested motif class, distinct under the centring
    translations of ``basis``."""
    tr = CENTERING[basis]
    if motif_class in ('corner+generic', 'generic', 'face'):
        return gen_rel_positions(rng, nmotif, motif_class, vects, tr)
    lmin = np.linalg.norm(vects, axis=1).min()
    for _ in range(400):
        if motif_class == 'near-corner':
            rel = rng.uniform(0.04, 0.96, (nmotif, 3))
            d = rng.normal(size=3)
            d *= NEAR_CORNER * lmin / np.linalg.norm(d)
            rel[0] = np.linalg.solve(np.asarray(vects, float).T, d)
            rel[0] -= np.floor(rel[0])
        elif motif_class == 'fractions':
            rel = _FRACTIONS[rng.integers(0, len(_FRACTIONS), (nmotif, 3))]
            if any(in_centred_lattice(r, basis) for r in rel):
                continue
        else:
            raise ValueError(motif_class)
        full = np.vstack([rel] + [rel + np.asarray(t, float) for t in tr])
        full = full - np.floor(full)
        if _min_image_sep(full, vects) > (0.12 if motif_class == 'near-corner' else 0.05) * lmin:
            return rel
    raise RuntimeError('could not place motif')


def gen_conventional(rng, basis, family, nmotif, ntypes, origin_class='zero', motif_class='corner+generic'):
    """Conventional cell of ``family`` whose atoms are a motif (class ``motif_class``; by default the first
    atom at the lattice point 0,0,0) repeated by the centring translations of ``basis``.  Atoms related by
    a centring translation carry the same type and property values (otherwise the crystal would not have
    that lattice)."""
    c = origin_cell(rng, family, origin_class, 1.0)
    v, o = c['vects'], c['origin']
    tr = CENTERING[basis]
    mrel = gen_motif(rng, nmotif, motif_class, v, basis)
    atype, idn, vec, symbols = decorate(rng, nmotif, ntypes)
    shifts = [np.zeros(3)] + [np.asarray(t, float) for t in tr]
    rel = np.vstack([mrel + s for s in shifts])
    rel = rel - np.floor(rel)
    rel[np.abs(rel - 1.0) < 1e-12] = 0.0
    k = len(shifts)
    return dict(kind=family, basis=basis, origin_class=origin_class, vects=v, origin=o, L=c['L'], rel=rel, pos=G.cart(rel, v, o),
                atype=np.tile(atype, k), idn=np.tile(idn, k), vec=np.tile(vec, (k, 1)), symbols=symbols,
                natoms=nmotif * k, nmotif=nmotif, motif_rel=mrel, motif_class=motif_class,
                site_atom=bool(any(in_centred_lattice(r, basis, 1e-12) for r in mrel)),
                motif=dict(atype=atype, idn=idn, vec=vec))


def primitive_of(conv, rng=None, orientation='raw'):
    """The primitive cell (PRIMITIVE convention) of a conventional cell made by
    ``gen_conventional``: same origin, motif atoms wrapped into it.  orientation 'raw':
    vectors as they come (not a LAMMPS orientation unless basis = p); 'rotated': the whole
    cell turned by a random rotation about its origin."""
    P = np.array(PRIMITIVE[conv['basis']], float)
    pv = P @ conv['vects']
    o = conv['origin']
    mpos = G.cart(conv['motif_rel'], conv['vects'], o)
    rel = G.rel(mpos, pv, o)
    rel = rel - np.floor(rel + 1e-12)
    rel[np.abs(rel) < 1e-12] = 0.0
    pos = G.cart(rel, pv, o)
    if orientation == 'rotated':
        R = G.random_rotation(rng)
        pv = pv @ R.T
        pos = o + (pos - o) @ R.T
    m = conv['motif']
    return dict(kind=conv['kind'], basis=conv['basis'], vects=pv, origin=o, L=np.linalg.norm(pv, axis=1).max(),
                rel=rel, pos=pos, atype=m['atype'], idn=m['idn'], vec=m['vec'], symbols=conv['symbols'],
                natoms=len(rel), orientation=orientation)
