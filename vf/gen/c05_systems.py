"""Stratified system generator for C05 (numpy only, never atomman).

A case is a plain dict: cell (vects, origin), pbc, atom positions (Cartesian,
computed here from the generating relative coordinates), atom types and extra
per-atom properties.  Classes are a function of the case index; the moduli of
the class tables (9, 32, 25, 7, 13) are pairwise coprime, so every combination
of classes is met within lcm cases and every single class within a few cases.

Length scales: the same crystal expressed in every working length unit a user
can select (1 angstrom = 1e-10 m = 1e-8 cm = 1e-7 mm = 1e-4 um = 0.1 nm =
1.89 bohr = 100 pm = 1e5 fm) plus the historical 1e4.  Nothing the property
states depends on the unit, so every class is crossed with every scale.

Histories (``HISTORIES``): sequences of calls on ONE System / Box object (cell
replaced, atoms moved, periodicity changed, scaled reads in between); the
helpers ``new_cell`` and ``displaced`` supply the intermediate inputs.
"""
from __future__ import annotations

import numpy as np

from ..oracle import geometry as G
from . import cells

HANDS = ['right', 'left-c', 'right', 'left-swap', 'left-mirror']        # i % 5
PROFILES = ['mixed', 'far', 'faces', 'near', 'inside']                   # (i // 5) % 5
ORIGINS7 = ['zero', 'near', 'far', 'near', 'zero', 'far', 'near']        # i % 7
SCALES13 = [1.0, 1e-10, 0.1, 1e-8, 1e4, 1.0, 1e-7, 1e-4, 1e-10, 100.0, 1.8897261246, 1e-8, 1e5]   # i % 13
SCALE_NAMES = {1.0: 'angstrom', 1e-10: 'm', 0.1: 'nm', 1e-8: 'cm', 1e4: '1e4', 1e-7: 'mm', 1e-4: 'um', 100.0: 'pm',
               1.8897261246: 'bohr', 1e5: 'fm'}
TINY = 1e-8                                                              # scales <= TINY: every cell component is < ~3e-7
# call histories on one System (i % 11); the second table says which need a fully periodic system (normalize)
HISTORIES = ['wrap-move-wrap', 'wrap-newcell-wrap', 'read-boxset-scaled-wrap', 'strain-loop', 'wrap-pbc-wrap',
             'read-normalize', 'boxset-scaled-normalize', 'wrap-normalize-normalize', 'normalize-twice',
             'normalize-output-reused', 'box-set-direct-wrap']
PERIODIC_HISTORIES = {'read-normalize', 'boxset-scaled-normalize', 'wrap-normalize-normalize', 'normalize-twice',
                      'normalize-output-reused'}
NEWCELLS = ['strain-tiny', 'other', 'strain', 'rotated', 'strain-small', 'rehanded', 'rescaled']   # (i // 3) % 7
CELL_STYLES = ['avect', 'vects', 'abc']                                                          # i % 3
MOVE_STYLES = ['prop-cart', 'prop-scaled', 'view']                                               # (i // 2) % 3
NATOMS = ['one', 'two', 'few', 'many']                                   # (i // 8) % 4
FAR = 50


def scale_name(scale):
    return SCALE_NAMES.get(scale, '%g' % scale)


def classes(i, periodic_only=False, scale=None):
    kind = cells.KINDS[i % 9]
    pbc = (True, True, True) if periodic_only else cells.PBCS[7 - i % 8]
    nat = NATOMS[(i // 8) % 4]
    hand = HANDS[i % 5]
    profile = PROFILES[(i // 5) % 5]
    return dict(kind=kind, pbc=pbc, natoms=nat, hand=hand, profile=profile,
                origin=ORIGINS7[i % 7], scale=SCALES13[i % 13] if scale is None else scale)


def make_left(vects, origin, how):
    """A left-handed description built from a right-handed cell."""
    v = np.array(vects, float)
    o = np.array(origin, float)
    if how == 'left-c':                 # third vector reversed
        v[2] = -v[2]
    elif how == 'left-swap':            # first two vectors exchanged
        v = v[[1, 0, 2]]
    elif how == 'left-mirror':          # mirror image in the xy plane
        v[:, 2] = -v[:, 2]
    else:
        raise ValueError(how)
    return v, o


def gen_rel(rng, n, profile):
    """Relative coordinates of n atoms for a placement profile, with the
    per-atom placement tags (interior / near / far / face / hairline)."""
    rel = np.empty((n, 3))
    tags = []
    menu = {'inside': ['interior'],
            'near': ['near', 'interior', 'near'],
            'far': ['far', 'far', 'near'],
            'faces': ['face', 'face', 'farface', 'interior'],
            'mixed': ['far', 'face', 'hairline', 'near', 'farface', 'interior']}[profile]
    start = int(rng.integers(0, len(menu)))
    for j in range(n):
        t = menu[(start + j) % len(menu)] if n > 1 else menu[0]
        if t == 'interior':
            r = rng.uniform(0.05, 0.95, 3)
        elif t == 'near':
            r = rng.uniform(-1.6, 2.6, 3)
        elif t == 'far':
            r = rng.integers(-FAR, FAR + 1, 3) + rng.uniform(0.0, 1.0, 3)
        elif t == 'face':                                   # exactly on a face / edge / corner of the cell
            r = rng.uniform(0.1, 0.9, 3)
            ax = int(rng.integers(0, 3))
            r[ax] = float(rng.integers(0, 2))
            for a2 in range(3):
                if a2 != ax and rng.random() < 0.3:
                    r[a2] = float(rng.integers(0, 2))
        elif t == 'farface':                                # exactly on a face of a distant periodic image
            r = rng.uniform(0.1, 0.9, 3) + rng.integers(-FAR, FAR + 1, 3)
            ax = int(rng.integers(0, 3))
            r[ax] = float(rng.integers(-FAR, FAR + 1))
        elif t == 'hairline':                               # a hair inside / outside a face
            r = rng.uniform(0.1, 0.9, 3)
            ax = int(rng.integers(0, 3))
            r[ax] = float(rng.integers(0, 2)) + float(rng.choice([-1, 1])) * 10 ** rng.uniform(-13, -5)
        else:
            raise ValueError(t)
        rel[j] = r
        tags.append(t)
    return rel, tags


def new_cell(rng, vects, origin, how):
    """A replacement cell for an existing one (rows = cell vectors).  Everything is
    relative to the old cell, so the class is the same at every length scale.
    strain-tiny  : homogeneous strain of 1e-9..1e-6 (a thermal-expansion / relaxation step)
    strain-small : strain of 1e-6..1e-4
    strain       : strain of 1e-3..0.2 plus an origin shift
    rotated      : the same cell rigidly rotated, origin rotated with it
    other        : an unrelated cell of similar size
    rehanded     : handedness reversed (one vector reversed), origin moved
    rescaled     : uniformly 0.5x..3x larger"""
    v = np.array(vects, float)
    o = np.array(origin, float)
    L = np.linalg.norm(v, axis=1).max()
    if how in ('strain-tiny', 'strain-small', 'strain'):
        lo, hi = {'strain-tiny': (-9, -6), 'strain-small': (-6, -4), 'strain': (-3, -0.7)}[how]
        e = rng.uniform(-1, 1, (3, 3)) * 10 ** rng.uniform(lo, hi)
        v2 = v @ (np.eye(3) + e)
        o2 = o + (rng.uniform(-0.5, 0.5, 3) * L if how == 'strain' else 0.0)
    elif how == 'rotated':
        R = G.random_rotation(rng)
        v2, o2 = v @ R.T, o @ R.T
    elif how == 'other':
        kind = cells.KINDS[int(rng.integers(0, len(cells.KINDS)))]
        c = cells.gen_cell(rng, kind, 'near', 1.0)
        f = L / c['L'] * rng.uniform(0.6, 1.6)
        v2, o2 = c['vects'] * f, c['origin'] * f
    elif how == 'rehanded':
        v2 = v.copy()
        k = int(rng.integers(0, 3))
        v2[k] = -v2[k]
        o2 = o + rng.uniform(-1, 1, 3) * L
    elif how == 'rescaled':
        f = rng.uniform(0.5, 3.0)
        v2, o2 = v * f, o * f
    else:
        raise ValueError(how)
    return v2, o2


def displaced(rng, pos, vects, origin):
    """New Cartesian positions for the atoms of a system whose cell is (vects, origin):
    a third stay, a third move within the cell scale, a third jump several cells away or
    land exactly on a face; returned with the number of atoms that end outside / on a face."""
    pos = np.array(pos, float)
    n = len(pos)
    rel = G.rel(pos, vects, origin)
    for j in range(n):
        t = (j + int(rng.integers(0, 3))) % 3
        if t == 1:
            rel[j] += rng.uniform(-0.7, 0.7, 3)
        elif t == 2:
            if rng.random() < 0.3:
                rel[j, int(rng.integers(0, 3))] = float(rng.integers(-3, 5))
            else:
                rel[j] += rng.integers(-6, 7, 3)
    if n:                                                  # at least one atom leaves the cell
        rel[int(rng.integers(0, n))] += rng.choice([-1, 1], 3) * rng.integers(1, 4, 3)
    out = int(((rel <= 0) | (rel >= 1)).any(axis=1).sum())
    return G.cart(rel, vects, origin), rel, out


def gen_system(rng, i, periodic_only=False, max_atoms=40, scale=None):
    c = classes(i, periodic_only, scale)
    cell = cells.gen_cell(rng, c['kind'], c['origin'], c['scale'])
    v, o = cell['vects'], cell['origin']
    if c['hand'] != 'right':
        v, o = make_left(v, o, c['hand'])
    n = {'one': 1, 'two': 2, 'few': int(rng.integers(3, 13)), 'many': int(rng.integers(13, max_atoms + 1))}[c['natoms']]
    rel, tags = gen_rel(rng, n, c['profile'])
    pos = G.cart(rel, v, o)
    # position storage form: whole-number coordinates handed over as an integer array / nested list of Python ints
    # (an fcc cell typed in as [[0,0,0],[2,2,0],...]); only where the cell is several units wide
    posform = 'float'
    if (i // 3) % 5 == 2 and np.linalg.norm(v, axis=1).min() >= 3.0 and np.abs(pos).max() < 1e9:
        posform = ('int64', 'intlist', 'int32')[(i // 15) % 3]
        pos = np.rint(pos)
        rel = G.rel(pos, v, o)
        tags = ['integer'] * n
    ntypes = int(rng.integers(1, 4))
    atype = rng.integers(1, ntypes + 1, n)
    atype[0] = ntypes                                       # so that natypes == ntypes
    extras = {'tag': rng.permutation(n).astype(np.int64) + 1,
              'vel': rng.normal(size=(n, 3))}
    if i % 2:
        extras['charge'] = rng.normal(size=n)
        extras['stress'] = rng.normal(size=(n, 3, 3))
    if i % 3 == 0:
        extras['frozen'] = rng.random(n) < 0.5
    symbols = [['Al', 'Cu', 'Ni'][k] for k in range(ntypes)]
    masses = [[26.98, 63.55, 58.69][k] for k in range(ntypes)]
    L = np.linalg.norm(v, axis=1).max()
    return dict(classes=c, vects=v, origin=o, pbc=c['pbc'], rel=rel, tags=tags, pos=pos, atype=atype,
                extras=extras, symbols=symbols, masses=masses, L=L, lammps=cell['lammps'] and c['hand'] == 'right', posform=posform)
