"""Stratified system generator for C05 (numpy only, never atomman).

A case is a plain dict: cell (vects, origin), pbc, atom positions (Cartesian,
computed here from the generating relative coordinates), atom types and extra
per-atom properties.  Classes are a function of the case index; the moduli of
the class tables (9, 32, 25, 7, 11) are pairwise coprime, so every combination
of classes is met within lcm cases and every single class within a few cases.
"""
from __future__ import annotations

import numpy as np

from ..oracle import geometry as G
from . import cells

HANDS = ['right', 'left-c', 'right', 'left-swap', 'left-mirror']        # i % 5
PROFILES = ['mixed', 'far', 'faces', 'near', 'inside']                   # (i // 5) % 5
ORIGINS7 = ['zero', 'near', 'far', 'near', 'zero', 'far', 'near']        # i % 7
SCALES11 = [1.0, 1.0, 1e-4, 1.0, 1e4, 1.0, 1.0, 1e-4, 1.0, 1e4, 1.0]   # i % 11
NATOMS = ['one', 'two', 'few', 'many']                                   # (i // 8) % 4
FAR = 50


def classes(i, periodic_only=False):
    kind = cells.KINDS[i % 9]
    pbc = (True, True, True) if periodic_only else cells.PBCS[7 - i % 8]
    nat = NATOMS[(i // 8) % 4]
    hand = HANDS[i % 5]
    profile = PROFILES[(i // 5) % 5]
    return dict(kind=kind, pbc=pbc, natoms=nat, hand=hand, profile=profile,
                origin=ORIGINS7[i % 7], scale=SCALES11[i % 11])


def make_left(vects, origin, how):
    """A left-handed description built from a right-handed cell."""
    v = np.array(vects, float)
    o = np.array(origin, float)
    if how == 'left-c':                 # third vector reversed
        v[2] = -v[2]
    elif how == 'left-swap':            # first two vectors exchanged
        v = v[[1, 0, 2]]
    elif how == 'left-mirror':          # mirror image in the xy plane
        v[:, 2] = -v[:, 2]
    else:
        raise ValueError(how)
    return v, o


def gen_rel(rng, n, profile):
    """Relative coordinates of n atoms for a placement profile, with the
    per-atom placement tags (interior / near / far / face / hairline)."""
    rel = np.empty((n, 3))
    tags = []
    menu = {'inside': ['interior'],
            'near': ['near', 'interior', 'near'],
            'far': ['far', 'far', 'near'],
            'faces': ['face', 'face', 'farface', 'interior'],
            'mixed': ['far', 'face', 'hairline', 'near', 'farface', 'interior']}[profile]
    start = int(rng.integers(0, len(menu)))
    for j in range(n):
        t = menu[(start + j) % len(menu)] if n > 1 else menu[0]
        if t == 'interior':
            r = rng.uniform(0.05, 0.95, 3)
        elif t == 'near':
            r = rng.uniform(-1.6, 2.6, 3)
        elif t == 'far':
            r = rng.integers(-FAR, FAR + 1, 3) + rng.uniform(0.0, 1.0, 3)
        elif t == 'face':                                   # exactly on a face / edge / corner of the cell
            r = rng.uniform(0.1, 0.9, 3)
            ax = int(rng.integers(0, 3))
            r[ax] = float(rng.integers(0, 2))
            for a2 in range(3):
                if a2 != ax and rng.random() < 0.3:
                    r[a2] = float(rng.integers(0, 2))
        elif t == 'farface':                                # exactly on a face of a distant periodic image
            r = rng.uniform(0.1, 0.9, 3) + rng.integers(-FAR, FAR + 1, 3)
            ax = int(rng.integers(0, 3))
            r[ax] = float(rng.integers(-FAR, FAR + 1))
        elif t == 'hairline':                               # a hair inside / outside a face
            r = rng.uniform(0.1, 0.9, 3)
            ax = int(rng.integers(0, 3))
            r[ax] = float(rng.integers(0, 2)) + float(rng.choice([-1, 1])) * 10 ** rng.uniform(-13, -5)
        else:
            raise ValueError(t)
        rel[j] = r
        tags.append(t)
    return rel, tags


def gen_system(rng, i, periodic_only=False, max_atoms=40):
    c = classes(i, periodic_only)
    cell = cells.gen_cell(rng, c['kind'], c['origin'], c['scale'])
    v, o = cell['vects'], cell['origin']
    if c['hand'] != 'right':
        v, o = make_left(v, o, c['hand'])
    n = {'one': 1, 'two': 2, 'few': int(rng.integers(3, 13)), 'many': int(rng.integers(13, max_atoms + 1))}[c['natoms']]
    rel, tags = gen_rel(rng, n, c['profile'])
    pos = G.cart(rel, v, o)
    ntypes = int(rng.integers(1, 4))
    atype = rng.integers(1, ntypes + 1, n)
    atype[0] = ntypes                                       # so that natypes == ntypes
    extras = {'tag': rng.permutation(n).astype(np.int64) + 1,
              'vel': rng.normal(size=(n, 3))}
    if i % 2:
        extras['charge'] = rng.normal(size=n)
        extras['stress'] = rng.normal(size=(n, 3, 3))
    if i % 3 == 0:
        extras['frozen'] = rng.random(n) < 0.5
    symbols = [['Al', 'Cu', 'Ni'][k] for k in range(ntypes)]
    masses = [[26.98, 63.55, 58.69][k] for k in range(ntypes)]
    L = np.linalg.norm(v, axis=1).max()
    return dict(classes=c, vects=v, origin=o, pbc=c['pbc'], rel=rel, tags=tags, pos=pos, atype=atype,
                extras=extras, symbols=symbols, masses=masses, L=L, lammps=cell['lammps'] and c['hand'] == 'right')
