"""C06 workload generator: operation histories over Atoms / System (numpy only).

An *op* is a plain dict (the replayable unit is the list of ops of a history).
Class choices (operation kind, index class, value class, property-set class)
come from ``crng`` -- a generator seeded by the case index only, so the class
structure of history i is the same for every seed -- numbers inside a class come
from ``rng`` (seeded by seed, group, i).

The generator looks at the *model* objects (vf.oracle.c06_model) to know which
properties exist, their per-atom shapes, natoms and natypes.
"""
from __future__ import annotations

import numpy as np

# property names used in the histories: name -> (kind class, per-atom shape).
# A name always has the same kind/shape, so that extend / assign between objects
# of one history stay inside the domain (same name => same per-atom shape).
NAMES = {
    'charge': ('float', ()),
    'idx': ('int', ()),
    'flag': ('bool', ()),
    'tag': ('str', ()),
    'vel': ('float', (3,)),
    'cnt': ('int', (3,)),
    'stress': ('float', (3, 3)),
    'mflag': ('bool', (3,)),
    'lab': ('str', (3,)),
}
BUILTIN = {'atype': ('int', ()), 'pos': ('float', (3,))}
ORDER = list(NAMES)

# initial property sets of the two base objects, rotated by case index
SCHEMAS = [
    (['charge', 'vel'], ['charge', 'tag']),
    (['idx', 'tag', 'stress'], ['idx', 'tag', 'stress']),
    (['flag', 'cnt'], ['vel']),
    ([], ['lab', 'mflag']),
    (['charge', 'idx', 'flag', 'tag', 'vel'], ['stress', 'charge']),
    (['lab', 'stress', 'mflag'], []),
]
NATOMS_CLASSES = ['one', 'two', 'three', 'few', 'several']

KINDS = [
    'set', 'atype_set', 'prop_get', 'prop_get_atoms', 'prop_write', 'assign', 'prop_atype', 'prop_atype_k',
    'extend_int', 'extend_atoms', 'getitem', 'deepcopy', 'df', 'atoms_prop_get', 'atoms_prop_set',
    'atoms_extend', 'symbols_set', 'masses_set', 'pbc_set', 'prop_refuse',
]
# relative weights for the non-first operations of a history
WEIGHTS = {
    'set': 4, 'atype_set': 2, 'prop_get': 2, 'prop_get_atoms': 1.5, 'prop_write': 3, 'assign': 3, 'prop_atype': 2,
    'prop_atype_k': 2.5, 'extend_int': 1, 'extend_atoms': 2.5, 'getitem': 3, 'deepcopy': 1, 'df': 1,
    'atoms_prop_get': 1.5, 'atoms_prop_set': 2, 'atoms_extend': 2, 'symbols_set': 1.5, 'masses_set': 1.5,
    'pbc_set': 0.5, 'prop_refuse': 0.3,
}
INDEX_CLASSES = ['int', 'negint', 'npint', 'slice', 'stepslice', 'list', 'mask', 'all']
READ_ONLY_INDEX_CLASSES = ['empty-list', 'empty-mask', 'list-dup']
LETTERS = 'abcdefghijklmnopqrstuvwxyz'


def natoms_of(rng, cls):
    return {'one': 1, 'two': 2, 'three': 3}.get(cls) or (int(rng.integers(4, 7)) if cls == 'few' else int(rng.integers(7, 10)))


def plan(i, nops):
    """Operation kinds of history i (function of i only)."""
    crng = np.random.default_rng([60606, i])
    w = np.array([WEIGHTS[k] for k in KINDS], float)
    rest = crng.choice(len(KINDS), size=nops - 1, p=w / w.sum())
    return [KINDS[i % len(KINDS)]] + [KINDS[j] for j in rest], crng


def gen_value(rng, kc, shape, lead=None):
    """A value of kind class kc: per-atom shape ``shape``; ``lead`` None gives one
    per-atom value, an int gives ``lead`` of them stacked."""
    full = (() if lead is None else (lead,)) + tuple(shape)
    if kc == 'float':
        return np.round(rng.uniform(-10, 10, full), 6) + 0.0
    if kc == 'int':
        return rng.integers(-50, 51, full)
    if kc == 'bool':
        return rng.random(full) < 0.5
    if kc == 'str':
        n = int(np.prod(full)) if full else 1
        words = [''.join(rng.choice(list(LETTERS), size=int(rng.integers(1, 5)))) for _ in range(n)]
        return np.array(words).reshape(full) if full else np.array(words[0])
    raise ValueError(kc)


def cross_kind(crng, kc):
    """A different kind class whose values cast cleanly into kc."""
    if kc == 'str':
        return 'str'
    return [k for k in ('int', 'float', 'bool') if k != kc][int(crng.integers(0, 2))]


NARROW = {'f': ['float32'], 'i': ['int32', 'int16', 'int8'], 'u': ['uint8']}


def _tuples(x):
    return tuple(_tuples(y) for y in x) if isinstance(x, list) else x


def as_given(crng, v):
    """Hand the value over as ndarray, as nested python list / python scalar, as nested tuples, or as an ndarray of a
    narrow dtype (float32 / int32 / int16 / int8; every generated integer fits int8).  One class draw per value."""
    r = crng.random()
    if r < 0.26:
        return v.tolist()
    if r < 0.33:
        return _tuples(v.tolist())
    if r < 0.40:
        kinds = NARROW.get(np.asarray(v).dtype.kind)
        if kinds:
            return np.asarray(v).astype(kinds[int(r * 1e4) % len(kinds)])
        return v.tolist()
    return v


def given_class(v):
    """How a value is handed over (for the coverage counters)."""
    if isinstance(v, tuple):
        return 'tuple'
    if isinstance(v, list):
        return 'list'
    if isinstance(v, np.ndarray) or isinstance(v, np.generic):
        d = np.asarray(v).dtype
        if d.kind in 'fiu' and d.itemsize < 8:
            return 'narrow:' + d.name
        return 'ndarray' if isinstance(v, np.ndarray) and v.ndim else 'scalar'
    return 'scalar'


def gen_index(crng, rng, natoms, cls):
    """(index object, class actually used).  Falls back to a class that exists for this natoms."""
    n = natoms
    if cls == 'int':
        return int(rng.integers(0, n)), cls
    if cls == 'negint':
        return -int(rng.integers(1, n + 1)), cls
    if cls == 'npint':
        return np.int64(rng.integers(-n, n)), cls
    if cls == 'slice':
        a = int(rng.integers(0, n))
        b = int(rng.integers(a + 1, n + 1))
        form = int(crng.integers(0, 4))
        if form == 0:
            return slice(a, b), cls
        if form == 1:
            return slice(None, b), cls
        if form == 2:
            return slice(a, None), cls
        return slice(a - n, b if b < n else None), cls          # negative start
    if cls == 'stepslice':
        step = [2, 3, -1, -2][int(crng.integers(0, 4))]
        if step > 0:
            return slice(int(rng.integers(0, max(1, n // 2))), None, step), cls
        return slice(None, None, step), cls
    if cls == 'list':
        k = int(rng.integers(1, n + 1))
        lst = [int(x) for x in rng.permutation(n)[:k]]
        if crng.random() < 0.3:
            lst = [x - n if rng.random() < 0.5 else x for x in lst]
        return (lst if crng.random() < 0.6 else np.array(lst)), cls
    if cls == 'mask':
        m = rng.random(n) < 0.5
        if not m.any():
            m[int(rng.integers(0, n))] = True
        return (m if crng.random() < 0.7 else m.tolist()), cls
    if cls == 'all':
        return slice(None), cls
    if cls == 'empty-list':
        return [], cls
    if cls == 'empty-mask':
        return np.zeros(n, bool), cls
    if cls == 'list-dup':
        return [int(x) for x in rng.integers(0, n, size=int(rng.integers(2, n + 3)))], cls
    raise ValueError(cls)


def pick_index(crng, rng, natoms, extra=()):
    classes = INDEX_CLASSES + list(extra)
    return gen_index(crng, rng, natoms, classes[int(crng.integers(0, len(classes)))])


def count_selected(natoms, index):
    if isinstance(index, (int, np.integer)):
        return 1
    return len(np.arange(natoms)[index])


def gen_atype(rng, natoms, maxtype):
    return rng.integers(1, maxtype + 1, natoms)


def atoms_spec(rng, natoms, names, maxtype=3, rel=False):
    """Description of a fresh Atoms: ordered {name -> array}, atype and pos first."""
    spec = {'atype': gen_atype(rng, natoms, maxtype),
            'pos': (np.round(rng.uniform(-0.2, 1.2, (natoms, 3)), 6) if rel else np.round(rng.uniform(-12, 12, (natoms, 3)), 6))}
    for k in names:
        kc, shape = NAMES[k]
        spec[k] = gen_value(rng, kc, shape, natoms)
    return spec


def kind_shape(model, key):
    from ..oracle.c06_model import kindclass
    return kindclass(model.dtypes[key]), model.shapes[key]


def existing_keys(model, want_shape=None, exclude=('atype',)):
    out = []
    for k in model.keys:
        if k in exclude:
            continue
        if want_shape is not None and model.shapes[k] != want_shape:
            continue
        out.append(k)
    return out


def new_name(crng, model, want=None):
    cand = [k for k in ORDER if k not in model.keys and (want is None or want(NAMES[k]))]
    if not cand:
        return None
    return cand[int(crng.integers(0, len(cand)))]


def choose(crng, seq):
    return seq[int(crng.integers(0, len(seq)))]


# ---------------------------------------------------------------------------
# one operation
# ---------------------------------------------------------------------------
def make_op(kind, crng, rng, pool):
    """``pool`` is a list of (type, model) with type 'atoms' | 'system'; slot 0 is
    always a System, slot 1 always a stand-alone Atoms.  Returns an op dict."""
    systems = [j for j, (t, m) in enumerate(pool) if t == 'system']
    system_only = kind in ('atoms_prop_get', 'atoms_prop_set', 'atoms_extend', 'symbols_set', 'masses_set', 'pbc_set')
    if system_only:
        slot = systems[0] if crng.random() < 0.6 else choose(crng, systems)
    else:
        r = crng.random()
        slot = 0 if r < 0.4 else (1 if r < 0.65 else int(crng.integers(0, len(pool))))
    typ, mod = pool[slot]
    ma = mod.atoms if typ == 'system' else mod
    n = ma.natoms
    op = {'op': kind, 'slot': slot}

    if kind == 'set':
        via = choose(crng, ['attr', 'view', 'prop'])
        cls = choose(crng, ['existing-full', 'existing-len1', 'existing-scalar', 'new-full', 'new-len1', 'new-scalar',
                            'existing-cross', 'refuse-length-new', 'refuse-length-existing', 'scalar-into-vector'])
        key = None
        if cls.startswith('new') or cls == 'refuse-length-new':
            key = new_name(crng, ma)
            if key is None:
                cls = 'existing-full'
        if key is None:
            want = () if cls == 'existing-scalar' else None
            cand = existing_keys(ma, want)
            if cls == 'scalar-into-vector':
                cand = [k for k in existing_keys(ma) if ma.shapes[k] != () and kind_shape(ma, k)[0] != 'str']
            if not cand:
                cls = 'existing-len1'
                cand = existing_keys(ma)
            key = choose(crng, cand)
        kc, shape = NAMES[key] if key in NAMES else BUILTIN[key]
        if key in ma.keys:
            kc, shape = kind_shape(ma, key)
        vk = cross_kind(crng, kc) if cls == 'existing-cross' else kc
        if cls in ('existing-scalar', 'new-scalar'):
            if cls == 'new-scalar' and shape != ():
                val = gen_value(rng, vk, shape, 1)      # a single per-atom value given with leading length 1
                cls = 'new-len1'
            else:
                val = gen_value(rng, vk, ())
        elif cls == 'scalar-into-vector':
            val = gen_value(rng, vk, ())
            op['may_refuse'] = True
        elif cls.endswith('len1'):
            val = gen_value(rng, vk, shape, 1)
        elif cls.startswith('refuse-length'):
            bad = n + 1 if (n == 1 or crng.random() < 0.5) else (n - 1 if n - 1 > 1 else n + 2)
            val = gen_value(rng, vk, shape, bad)
        else:
            val = gen_value(rng, vk, shape, n)
        op.update(via=via, cls=cls, key=key, value=as_given(crng, val))
        return op

    if kind == 'atype_set':
        via = choose(crng, ['attr', 'view', 'prop'])
        cls = choose(crng, ['valid-full', 'valid-scalar', 'valid-len1', 'grow', 'invalid-zero', 'invalid-negative', 'invalid-scalar'])
        top = max(3, ma.natypes())
        if cls == 'valid-full':
            val = gen_atype(rng, n, top)
        elif cls == 'valid-scalar':
            val = np.int64(rng.integers(1, top + 1))
        elif cls == 'valid-len1':
            val = rng.integers(1, top + 1, 1)
        elif cls == 'grow':
            val = gen_atype(rng, n, top)
            val[int(rng.integers(0, n))] = min(top + int(rng.integers(1, 3)), 7)
        elif cls == 'invalid-zero':
            val = gen_atype(rng, n, top)
            val[int(rng.integers(0, n))] = 0
        elif cls == 'invalid-negative':
            val = gen_atype(rng, n, top)
            val[int(rng.integers(0, n))] = -int(rng.integers(1, 4))
        else:
            val = np.int64(0)
        op.update(via=via, cls=cls, key='atype', value=as_given(crng, np.asarray(val)))
        return op

    if kind == 'prop_get':
        key = choose(crng, ma.keys)
        cls = choose(crng, ['none', 'a_id'] + INDEX_CLASSES + READ_ONLY_INDEX_CLASSES)
        if cls == 'none':
            index = None
        elif cls == 'a_id':
            index = int(rng.integers(0, n))
        else:
            index, cls = gen_index(crng, rng, n, cls)
        op.update(key=key, index=index, icls=cls)
        return op

    if kind == 'prop_get_atoms':
        cls = choose(crng, ['a_id'] + INDEX_CLASSES + ['empty-list', 'list-dup'])
        if cls == 'a_id':
            index = int(rng.integers(0, n))
        else:
            index, cls = gen_index(crng, rng, n, cls)
        op.update(index=index, icls=cls)
        return op

    if kind == 'prop_write':
        key = choose(crng, ma.keys if crng.random() < 0.15 else existing_keys(ma))
        index, icls = pick_index(crng, rng, n, extra=['empty-mask'])
        k = count_selected(n, index)
        kc, shape = kind_shape(ma, key)
        single = isinstance(index, (int, np.integer)) or crng.random() < 0.4 or k == 0
        vcls = 'single' if single else 'per-selected'
        vk = kc
        if key != 'atype' and crng.random() < 0.25:
            vk = cross_kind(crng, kc)
            vcls += '-cross'
        if key == 'atype':
            top = max(3, ma.natypes())
            val = rng.integers(1, top + 2, () if single else (k,))
        else:
            val = gen_value(rng, vk, shape, None if single else k)
        op.update(key=key, index=index, icls=icls, vcls=vcls, value=as_given(crng, np.asarray(val)))
        return op

    if kind == 'assign':
        vias = ['setitem', 'prop']
        if typ == 'system':
            vias += ['atoms_ix', 'atoms_ix_system', 'atoms_prop', 'atoms_prop_scale']
        via = choose(crng, vias)
        if via in ('prop', 'atoms_prop', 'atoms_prop_scale') and crng.random() < 0.2:
            index, icls = None, 'none'
            k = n
        else:
            index, icls = pick_index(crng, rng, n)
            k = count_selected(n, index)
        ncls = choose(crng, ['k', 'k', 'k', 'one', 'wrong'])
        scls = choose(crng, ['same', 'same', 'same', 'same', 'missing-one', 'extra-one'])
        if via == 'atoms_ix' and crng.random() < 0.1:
            scls = 'bad-type'
        m = k if ncls == 'k' else (1 if ncls == 'one' else k + 1)
        if m == k:
            ncls = 'k'
        names = [x for x in ma.keys if x not in ('atype', 'pos')]
        if scls == 'missing-one':
            if names:
                names = names[:-1]
            else:
                scls = 'extra-one'
        if scls == 'extra-one':
            extra = new_name(crng, ma)
            if extra is None:
                scls = 'same'
            else:
                names = names + [extra]
        order = list(names)
        if crng.random() < 0.3:
            order = [names[j] for j in crng.permutation(len(names))]     # same set, different order
        spec = atoms_spec(rng, m, order, maxtype=max(3, ma.natypes()), rel=(via == 'atoms_prop_scale'))
        op.update(via=via, index=index, icls=icls, ncls=ncls, scls=scls, operand=spec)
        if ncls == 'one':
            op['may_refuse'] = True
        return op

    if kind == 'prop_atype':
        cls = choose(crng, ['new-scalar', 'new-vector', 'existing', 'existing-cross', 'longer', 'too-short'])
        nt = ma.natypes()
        key = None
        if cls.startswith('new'):
            key = new_name(crng, ma, (lambda ks: ks[1] == ()) if cls == 'new-scalar' else (lambda ks: ks[1] != ()))
        if key is None:
            if cls.startswith('new'):
                cls = 'existing'
            key = choose(crng, existing_keys(ma, exclude=('atype',)))
        kc, shape = (kind_shape(ma, key) if key in ma.keys else NAMES[key])
        vk = cross_kind(crng, kc) if cls == 'existing-cross' else kc
        length = nt + int(rng.integers(1, 3)) if cls == 'longer' else (nt - 1 if cls == 'too-short' else nt)
        val = gen_value(rng, vk, shape, length)
        if length == 0:
            val = np.zeros((0,) + tuple(shape))
        op.update(cls=cls, key=key, value=as_given(crng, val), nvalues=length)
        return op

    if kind == 'prop_atype_k':
        cls = choose(crng, ['new-scalar', 'new-vector', 'new-vector', 'existing', 'existing-cross', 'not-found-high', 'not-found-zero',
                            'new-not-found'])
        nt = ma.natypes()
        key = None
        if cls.startswith('new'):
            key = new_name(crng, ma, (lambda ks: ks[1] == ()) if cls == 'new-scalar' else
                           ((lambda ks: ks[1] != ()) if cls == 'new-vector' else None))
        if key is None:
            if cls.startswith('new'):
                cls = 'existing'
            key = choose(crng, existing_keys(ma, exclude=('atype',)))
        kc, shape = (kind_shape(ma, key) if key in ma.keys else NAMES[key])
        vk = cross_kind(crng, kc) if cls == 'existing-cross' else kc
        if cls == 'not-found-high' or cls == 'new-not-found':
            k_ = nt + 1
        elif cls == 'not-found-zero':
            k_ = 0
        else:
            k_ = int(rng.integers(1, nt + 1))
        if crng.random() < 0.3:
            k_ = np.int64(k_)
        op.update(cls=cls, key=key, value=as_given(crng, gen_value(rng, vk, shape)), atype=k_)
        return op

    if kind == 'extend_int':
        op.update(n=int(choose(crng, [0, 1, 1, 2, 3])), np_int=bool(crng.random() < 0.2))
        return op

    if kind in ('extend_atoms', 'atoms_extend'):
        if kind == 'atoms_extend':
            vcls = choose(crng, ['int', 'fresh', 'fresh', 'fresh', 'pool'])
        else:
            vcls = choose(crng, ['fresh', 'fresh', 'fresh', 'pool'])
        scale = False
        if kind == 'atoms_extend':
            scale = bool(vcls != 'int' and crng.random() < 0.5)
            sy = choose(crng, ['none', 'none', 'same-length', 'longer', 'shorter'])
            op['scls'] = sy
            if sy != 'none':
                nt = mod.natypes()
                ln = nt if sy == 'same-length' else (nt + 2 if sy == 'longer' else max(0, nt - 1))
                op['symbols'] = [''.join(rng.choice(list('ABCDEFGH'), size=2)) for _ in range(ln)]
            op['safecopy'] = bool(crng.random() < 0.25)
            if scale and crng.random() < 0.15:
                op['refuse_scale_int'] = True
                vcls = 'int'
        op['scale'] = scale
        if vcls == 'int':
            op.update(vcls='int', n=int(choose(crng, [1, 2, 3])))
            return op
        if vcls == 'pool' and len(pool) > 1:
            other = choose(crng, [j for j in range(len(pool)) if j != slot])
            op.update(vcls='pool', other=other)
            return op
        pcls = choose(crng, ['same', 'disjoint', 'overlap', 'subset'])
        mine = [x for x in ma.keys if x not in ('atype', 'pos')]
        fresh = [x for x in ORDER if x not in ma.keys]
        nfresh = [fresh[j] for j in crng.permutation(len(fresh))[:int(crng.integers(1, 3))]] if fresh else []
        if pcls == 'same':
            names = list(mine)
        elif pcls == 'disjoint':
            names = nfresh
        elif pcls == 'overlap':
            names = mine[:max(1, len(mine) // 2)] + nfresh if mine else nfresh
        else:
            names = mine[:len(mine) // 2]
        mcls = choose(crng, ['one', 'same-n', 'other'])
        m = 1 if mcls == 'one' else (n if mcls == 'same-n' else int(choose(crng, [2, 3, 4, 5])))
        op.update(vcls='fresh', pcls=pcls, mcls=mcls, operand=atoms_spec(rng, m, names, maxtype=max(3, ma.natypes()) + (1 if crng.random() < 0.3 else 0),
                                                                           rel=scale))
        return op

    if kind == 'getitem':
        via = 'atoms_ix' if (typ == 'system' and crng.random() < 0.5) else 'getitem'
        extra = ['empty-list', 'empty-mask', 'list-dup'] if via == 'getitem' else ['list-dup']
        index, icls = pick_index(crng, rng, n, extra=extra)
        op.update(via=via, index=index, icls=icls)
        return op

    if kind == 'deepcopy':
        return op

    if kind == 'df':
        op['via'] = choose(crng, ['df', 'atoms_df', 'atoms_df_scale']) if typ == 'system' else 'df'
        return op

    if kind == 'atoms_prop_get':
        scale = bool(crng.random() < 0.6)
        vec = [k for k in ma.keys if ma.shapes[k] == (3,) and kind_shape(ma, k)[0] == 'float']
        kcls = choose(crng, ['pos', 'vec', 'none', 'any'])
        if kcls == 'pos':
            key = 'pos'
        elif kcls == 'vec':
            key = choose(crng, vec)
        elif kcls == 'none':
            key = None
        else:
            key = choose(crng, ma.keys)
            if key not in vec:
                scale = False
        icls = choose(crng, ['none', 'a_id'] + INDEX_CLASSES)
        if icls == 'none':
            index = None
        elif icls == 'a_id':
            index = int(rng.integers(0, n))
        else:
            index, icls = gen_index(crng, rng, n, icls)
        op.update(key=key, index=index, icls=icls, scale=scale)
        return op

    if kind == 'atoms_prop_set':
        scale = bool(crng.random() < 0.6)
        vec = [k for k in ma.keys if ma.shapes[k] == (3,) and kind_shape(ma, k)[0] == 'float']
        kcls = choose(crng, ['pos', 'vec', 'any', 'new'])
        key = None
        if kcls == 'new':
            key = 'vel' if 'vel' not in ma.keys else None
        if key is None:
            if kcls == 'any' and not scale:
                key = choose(crng, existing_keys(ma))
            else:
                key = 'pos' if kcls == 'pos' else choose(crng, vec)
        kc, shape = kind_shape(ma, key) if key in ma.keys else NAMES[key]
        icls = choose(crng, ['none', 'none'] + INDEX_CLASSES)
        if key not in ma.keys:
            icls = 'none'
        if icls == 'none':
            index = None
            lead = choose(crng, [n, n, 1])
        else:
            index, icls = gen_index(crng, rng, n, icls)
            k = count_selected(n, index)
            lead = None if (isinstance(index, (int, np.integer)) or crng.random() < 0.4) else k
        val = gen_value(rng, kc, shape, lead)
        if scale:
            val = np.round(val / 10.0, 6)
        op.update(key=key, index=index, icls=icls, scale=scale, value=as_given(crng, val), lead=lead)
        return op

    if kind == 'symbols_set':
        nt_atoms, nt = ma.natypes(), mod.natypes()
        cls = choose(crng, ['shorter', 'equal', 'longer', 'single-str', 'tuple'])
        ln = {'shorter': max(0, nt_atoms - 1), 'equal': nt_atoms, 'longer': nt_atoms + int(rng.integers(1, 3)), 'single-str': 1,
              'tuple': nt_atoms}[cls]
        syms = [''.join(rng.choice(list('ABCDEFGH'), size=2)) for _ in range(ln)]
        value = syms[0] if cls == 'single-str' else (tuple(syms) if cls == 'tuple' else syms)
        op.update(cls=cls, value=value)
        return op

    if kind == 'masses_set':
        nt = mod.natypes()
        cls = choose(crng, ['shorter', 'equal', 'too-many', 'scalar', 'with-none'])
        if cls == 'scalar':
            value = float(np.round(rng.uniform(1, 200), 3))
        else:
            ln = {'shorter': max(0, nt - 1), 'equal': nt, 'too-many': nt + int(rng.integers(1, 3)), 'with-none': nt}[cls]
            value = [float(x) for x in np.round(rng.uniform(1, 200, ln), 3)]
            if cls == 'with-none' and ln:
                value[int(rng.integers(0, ln))] = None
            if crng.random() < 0.3:
                value = [None if v is None else int(v) for v in value]       # ints must come back as floats
        op.update(cls=cls, value=value)
        return op

    if kind == 'pbc_set':
        cls = choose(crng, ['tuple', 'list', 'array', 'ints', 'bad-length'])
        b = [bool(x) for x in rng.random(3) < 0.5]
        value = {'tuple': tuple(b), 'list': b, 'array': np.array(b), 'ints': [int(x) for x in b], 'bad-length': b[:2]}[cls]
        op.update(cls=cls, value=value)
        return op

    if kind == 'prop_refuse':
        op.update(cls=choose(crng, ['a_id-and-index', 'value-only']), key=choose(crng, ma.keys))
        return op

    raise ValueError(kind)


# ---------------------------------------------------------------------------
# histories over DEFAULT-built objects (state that could leak between instances)
# ---------------------------------------------------------------------------
# how the stand-alone Atoms of a default history is built (what is left to the defaults of the constructor)
ATOMS_PATHS = [
    'Atoms()', 'Atoms(natoms=n)', 'Atoms(pos=one)', 'Atoms(pos=many)', 'Atoms(atype=scalar)', 'Atoms(atype=many)',
    'Atoms(props-only)', 'Atoms(prop={props})', 'Atoms(model=default)', 'Atoms(natoms=n,safecopy)', 'Atoms(pos=int-list)',
]
# how the System of a default history is built
SYSTEM_PATHS = [
    'System()', 'System(atoms=Atoms())', 'System(atoms=Atoms(natoms=n))', 'System(box)', 'System(symbols,masses)',
    'System(atoms=Atoms(pos=one))', 'System(atoms,safecopy)', 'System(pbc)', 'System(box,scale)',
]
DEFAULT_NATOMS = [1, 2, 1, 3, 5]          # natoms of the paths that take a count (1 = the boundary, every other case)

# forced in-place edits of an object that still carries constructor defaults: (op kind, via / form, key, system only?)
EDIT_FORMS = [
    ('set', 'attr', 'pos', False), ('atype_set', 'attr', 'atype', False), ('prop_write', 'int', 'pos', False),
    ('raw_write', 'int', 'pos', False), ('set', 'view', 'pos', False), ('atype_set', 'view', 'atype', False),
    ('prop_write', 'negint', 'atype', False), ('assign', 'setitem', None, False), ('set', 'prop', 'pos', False),
    ('atype_set', 'prop', 'atype', False), ('raw_write', 'all', 'atype', False), ('atoms_prop_set', 'none', 'pos', True),
    ('prop_atype_k', 'existing', 'pos', False), ('assign', 'prop', None, False), ('prop_write', 'all', 'pos', False),
    ('atoms_prop_set', 'int-scale', 'pos', True), ('assign', 'atoms_ix', None, True), ('prop_atype', 'existing', 'pos', False),
    ('raw_write', 'negint', 'pos', False),
]
DEFAULT_FILL = ['set', 'atype_set', 'prop_write', 'assign', 'prop_atype_k', 'extend_int', 'extend_atoms', 'getitem', 'deepcopy',
                'atoms_prop_set', 'atoms_extend', 'prop_get', 'prop_get_atoms', 'atoms_prop_get', 'df', 'symbols_set']


def plan_defaults(i):
    """Steps of default history i (function of i only): ('forced', form index) or an operation kind of ``make_op``."""
    crng = np.random.default_rng([60607, i])
    nf = len(EDIT_FORMS)
    fill = [DEFAULT_FILL[int(j)] for j in crng.integers(0, len(DEFAULT_FILL), size=5)]
    steps = [('forced', i % nf), fill[0], fill[1], ('forced', (i // nf + 7 * (i % nf) + 3) % nf), fill[2], 'extend_int',
             ('forced', (2 * i + 5) % nf), fill[3], 'atoms_extend', fill[4]]
    return steps, crng


def forced_edit(form, j, crng, rng, pool):
    """An operation that certainly rewrites, in place, an existing property of pool slot 0 or 1."""
    kind, via, key, system_only = EDIT_FORMS[form]
    slot = 0 if system_only else (j + form) % 2
    typ, mod = pool[slot]
    ma = mod.atoms if typ == 'system' else mod
    n = ma.natoms
    top = max(3, ma.natypes())
    op = {'op': kind, 'slot': slot, 'forced': form}
    if kind == 'set':
        cls = ['existing-full', 'existing-len1'][(j + form) % 2]
        val = gen_value(rng, 'float', (3,), n if cls == 'existing-full' else 1)
        op.update(via=via, cls=cls, key=key, value=as_given(crng, val))
    elif kind == 'atype_set':
        cls = ['valid-full', 'valid-scalar', 'valid-len1', 'grow'][(j + form) % 4]
        if cls == 'valid-scalar':
            val = np.int64(rng.integers(2, top + 1))
        elif cls == 'valid-len1':
            val = rng.integers(2, top + 1, 1)
        else:
            val = gen_atype(rng, n, top)
            val[int(rng.integers(0, n))] = 2 if cls == 'valid-full' else min(top + 1, 7)
        op.update(via=via, cls=cls, key='atype', value=as_given(crng, np.asarray(val)))
    elif kind in ('prop_write', 'raw_write'):
        index = {'int': int(rng.integers(0, n)), 'negint': -int(rng.integers(1, n + 1)), 'all': slice(None)}[via]
        single = via != 'all' or (j % 2 == 0)
        if key == 'atype':
            val = rng.integers(2, top + 2, () if single else (n,))
        else:
            val = gen_value(rng, 'float', (3,), None if single else n)
        op.update(key=key, index=index, icls=via, vcls='single' if single else 'per-selected', value=as_given(crng, np.asarray(val)))
    elif kind == 'assign':
        if via == 'prop' and j % 2:
            index, icls, k = None, 'none', n
        else:
            index, icls = gen_index(crng, rng, n, ['int', 'negint', 'all', 'slice'][(j + form) % 4])
            k = count_selected(n, index)
        names = [x for x in ma.keys if x not in ('atype', 'pos')]
        spec = atoms_spec(rng, k, names, maxtype=top)
        spec['atype'][0] = 2
        op.update(via=via, index=index, icls=icls, ncls='k', scls='same', operand=spec)
    elif kind == 'atoms_prop_set':
        scale = via == 'int-scale'
        if via == 'none':
            index, icls, lead = None, 'none', [n, 1][j % 2]
        else:
            index, icls, lead = int(rng.integers(0, n)), 'int', None
        val = gen_value(rng, 'float', (3,), lead)
        if scale:
            val = np.round(val / 10.0, 6)
        op.update(key='pos', index=index, icls=icls, scale=scale, value=as_given(crng, val), lead=lead)
    elif kind == 'prop_atype_k':
        op.update(cls='existing', key='pos', value=as_given(crng, gen_value(rng, 'float', (3,))), atype=int(rng.integers(1, ma.natypes() + 1)))
    elif kind == 'prop_atype':
        nt = ma.natypes()
        op.update(cls='existing', key='pos', value=as_given(crng, gen_value(rng, 'float', (3,), nt)), nvalues=nt)
    else:
        raise ValueError(kind)
    return op
