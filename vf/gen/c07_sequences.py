"""Stratified *call histories* for the file-format checks (pure python, never imports atomman).

A sequence case is 2-4 writer calls made one after the other in ONE process.  Consecutive calls of a
sequence differ in exactly one aspect of the request (the class of the case); a letter that occurs twice
in the pattern is the *same* request made again after other requests, so its text must be identical.

``plan(i)`` is a deterministic function of the case index: class = i mod NC (NC is odd, so that every
worker shard -- 8 or 16 shards -- meets every class), pattern / value triple rotate with the round i // NC.
"""
from __future__ import annotations

# (format, aspect that differs between consecutive calls)
SEQ_CLASSES = [
    # ---- LAMMPS data files: the atom_style string -------------------------------------------------
    ('data', 'hybrid-perm2'),        # hybrid a b  ->  hybrid b a  ->  hybrid c a b   (same sub-styles, other order)
    ('data', 'hybrid-perm3'),        # hybrid a b c -> hybrid b a c -> hybrid c b a
    ('data', 'hybrid-diff'),         # hybrid a -> hybrid b -> hybrid c
    ('data', 'hybrid-grow'),         # hybrid a -> hybrid a b -> hybrid a b c
    ('data', 'hybrid-shrink'),       # hybrid a b c -> hybrid a b -> hybrid a
    ('data', 'plain-vs-hybrid'),     # a -> hybrid a -> hybrid b a
    ('data', 'plain'),               # three plain styles
    ('data', 'hybrid-perm2-vel'),    # as hybrid-perm2, sub-styles with their own Velocities columns, velocities on
    ('data', 'hybrid-diff-vel'),     # as hybrid-diff, ditto
    # ---- LAMMPS data files: everything else --------------------------------------------------------
    ('data', 'units'),
    ('data', 'float_format'),
    ('data', 'velocities'),          # system with / without velocities (two values)
    ('data', 'system'),              # same request, another system
    ('data', 'outmode'),             # string / path / file-like
    ('data', 'object-reuse'),        # ONE System object: safecopy, safecopy, in place, in place again
    # ---- LAMMPS dump files --------------------------------------------------------------------------
    ('dumpfile', 'units'),
    ('dumpfile', 'float_format'),
    ('dumpfile', 'variant'),         # x / xs / xu / xsu / default / allpos
    ('dumpfile', 'prop-perm'),       # the same property list in another order
    ('dumpfile', 'prop-subset'),     # another property list
    ('dumpfile', 'system'),
    ('dumpfile', 'prop_info-reuse'),  # the SAME prop_info list object handed to every call (float_format differs)
    # ---- POSCAR ---------------------------------------------------------------------------------------
    ('poscar', 'coordstyle'),
    ('poscar', 'box_scale'),
    ('poscar', 'symbols'),
    ('poscar', 'float_format'),
    ('poscar', 'header'),
    ('poscar', 'system'),
    # ---- whitespace tables ----------------------------------------------------------------------------
    ('table', 'unit'),
    ('table', 'prop-perm'),
    ('table', 'header'),             # two values
    ('table', 'float_format'),
    ('table', 'prop_info-reuse'),
    ('table', 'system'),
    ('table', 'prop-subset'),
]
NC = len(SEQ_CLASSES)
assert NC % 2 == 1, 'NC must be odd: every shard (8/16 workers) has to meet every class'

PATTERNS = ['AB', 'ABA', 'ABCA', 'ABAB']
TWO_VALUED = {'velocities', 'header'}            # aspects with only two values: C is A again
FRESH_MOD, FRESH_RES = 23, 7                     # every 23rd case (coprime with NC and the shard counts): last call compared with a fresh process

# sub-styles that may be combined freely in "hybrid" (template and smd are left out: their published
# Atoms layouts differ between manual editions, and a hybrid line has no per-style comment to tell which)
HPOOL = ['charge', 'sphere', 'dipole', 'bond', 'ellipsoid', 'molecular', 'peri', 'electron', 'full', 'body', 'line',
         'tri', 'angle', 'meso', 'wavepacket']
HSTEPS = [1, 2, 4, 7, 8, 11, 13, 14]             # coprime with len(HPOOL) = 15
VPOOL = ['sphere', 'ellipsoid', 'electron', 'charge', 'dipole']    # the first three add Velocities columns
PLAIN = ['atomic', 'charge', 'full', 'molecular', 'angle', 'bond', 'body', 'dipole', 'electron', 'ellipsoid',
         'line', 'meso', 'peri', 'smd', 'sphere', 'template', 'tri', 'wavepacket']
BASE_STYLES = ['hybrid charge sphere', 'sphere', 'hybrid sphere dipole', 'atomic', 'hybrid bond ellipsoid', 'full',
               'hybrid electron charge', 'ellipsoid', 'hybrid ellipsoid sphere', 'electron', 'hybrid molecular peri',
               'charge', 'hybrid dipole full', 'wavepacket']
VEL_STYLES = ['sphere', 'hybrid sphere ellipsoid', 'ellipsoid', 'hybrid ellipsoid sphere', 'electron',
              'hybrid electron sphere', 'atomic', 'hybrid charge']


def pick_subs(r, k, pool=HPOOL, steps=HSTEPS):
    """k distinct sub-styles, a deterministic function of the round; round 0 starts with pool[0], pool[1]."""
    n = len(pool)
    step = steps[r % len(steps)] % n or 1
    start = (5 * r + r // len(steps)) % n
    out = []
    j = 0
    while len(out) < k:
        s = pool[(start + j * step) % n]
        if s not in out:
            out.append(s)
        j += 1
    return out


def hyb(*subs):
    return 'hybrid ' + ' '.join(subs)


def style_triple(aspect, r):
    """The three atom_style strings (A, B, C) of a data-file style class."""
    if aspect in ('hybrid-perm2-vel', 'hybrid-diff-vel'):
        a, b, c = pick_subs(r, 3, VPOOL, [1, 2, 3, 4])
        aspect = aspect[:-4]
    elif aspect == 'plain':
        n = len(PLAIN)
        return PLAIN[(3 * r) % n], PLAIN[(3 * r + 5) % n], PLAIN[(3 * r + 11) % n]
    else:
        a, b, c = pick_subs(r, 3)
    if aspect == 'hybrid-perm2':
        return hyb(a, b), hyb(b, a), hyb(c, a, b)
    if aspect == 'hybrid-perm3':
        return hyb(a, b, c), hyb(b, a, c), hyb(c, b, a)
    if aspect == 'hybrid-diff':
        return hyb(a), hyb(b), hyb(c)
    if aspect == 'hybrid-grow':
        return hyb(a), hyb(a, b), hyb(a, b, c)
    if aspect == 'hybrid-shrink':
        return hyb(a, b, c), hyb(a, b), hyb(a)
    if aspect == 'plain-vs-hybrid':
        return a, hyb(a), hyb(b, a)
    raise ValueError(aspect)


def plan(i):
    c = i % NC
    r = i // NC
    fmt, aspect = SEQ_CLASSES[c]
    pattern = PATTERNS[(r + c) % 4]
    if aspect in TWO_VALUED:
        pattern = pattern.replace('C', 'A')
    if aspect == 'object-reuse':
        pattern = 'AABD'                          # A: safecopy=True (twice), B: in place, D: in place once more
    return dict(format=fmt, aspect=aspect, pattern=pattern, round=r,
                share=bool((i // 3) % 2),         # one System object handed to every call of the sequence
                fresh=(i % FRESH_MOD == FRESH_RES),
                vel=bool((i // 2 + r) % 2))
