"""Stratified system descriptions for the file-format checks (numpy only).

A description is a plain dict (cell, pbc, positions, types, per-atom
properties) -- the property module turns it into an ``atomman.System``.
Classes are chosen by the caller as a deterministic function of the case
index; only the numbers inside a class come from ``rng``.
"""
from __future__ import annotations

import numpy as np

from ..oracle import geometry as G
from . import cells

LAMMPS_KINDS = cells.FAMILIES + ['tilted']           # cells LAMMPS can hold (lower-triangular)
ALL_KINDS = cells.KINDS                              # + 'rotated' (POSCAR only)
POS_CLASSES = ['inside', 'outside', 'faces', 'far']
TYPE_CLASSES = ['dense', 'gap', 'single', 'trailing']
SYMBOL_POOL = ['Al', 'Cu', 'Ni', 'Fe', 'O', 'Si', 'Ti', 'Zr']


def gen_rel(rng, n, posclass):
    """Box-relative coordinates: interior / outside by a few cells / exactly on faces, edges, corners /
    tens of cells away."""
    rel = rng.uniform(0.03, 0.97, (n, 3))
    if posclass == 'inside':
        return rel
    for j in range(n):
        k = (j + int(rng.integers(0, 2))) % 4
        if posclass == 'outside':
            if k != 0:
                rel[j] = rng.uniform(-2.6, 3.6, 3)
        elif posclass == 'faces':
            if k != 0:
                for ax in range(3):
                    if rng.random() < 0.6:
                        rel[j, ax] = float(rng.choice([0.0, 1.0]))
                if k == 3:                                 # a whole number of cells away, on a face of an image
                    rel[j, int(rng.integers(0, 3))] = float(rng.integers(-2, 4))
        elif posclass == 'far':
            if k in (1, 2):
                rel[j] = rng.uniform(-30, 30, 3)
            elif k == 3:
                rel[j] = rng.uniform(-1.2, 2.2, 3)
    if posclass == 'faces':
        rel[0] = [0.0, 1.0, 0.5]
    elif posclass in ('outside', 'far'):
        rel[0] = [-0.4, 1.7, 0.5 + float(rng.integers(1, 3))]
        if n > 1:
            rel[1] = [1.3, -0.25, -0.6]
    return rel


def gen_types(rng, n, typeclass):
    """-> (atype array, declared number of types)."""
    if typeclass == 'single' or n < 3:
        return np.ones(n, int), 1
    k = min(int(rng.integers(2, 5)), n)
    if typeclass == 'dense':
        t = rng.integers(1, k + 1, n)
        t[:k] = np.arange(1, k + 1)
        return rng.permutation(t), k
    if typeclass == 'gap':                                # a type in the middle has no atom
        k = max(k, 3)
        hole = int(rng.integers(2, k))
        t = rng.integers(1, k + 1, n)
        t[t == hole] = k
        t[0], t[1] = 1, k
        return rng.permutation(t), k
    if typeclass == 'trailing':                           # the highest declared type(s) have no atom
        t = rng.integers(1, k + 1, n)
        t[:k] = np.arange(1, k + 1)
        return rng.permutation(t), k + int(rng.integers(1, 3))
    raise ValueError(typeclass)


def gen_system(rng, kind, origin_class, scale, pbc, natoms, posclass, typeclass):
    cell = cells.gen_cell(rng, kind, origin_class, scale)
    rel = gen_rel(rng, natoms, posclass)
    pos = G.cart(rel, cell['vects'], cell['origin'])
    atype, ntypes = gen_types(rng, natoms, typeclass)
    first = int(rng.integers(0, len(SYMBOL_POOL)))
    symbols = [SYMBOL_POOL[(first + j) % len(SYMBOL_POOL)] for j in range(ntypes)]
    return dict(kind=kind, origin_class=origin_class, vects=cell['vects'], origin=cell['origin'], L=cell['L'],
                pbc=tuple(bool(b) for b in pbc), rel=rel, pos=pos, atype=atype, ntypes=ntypes, symbols=symbols,
                posclass=posclass, typeclass=typeclass)


def gen_values(rng, n, shape=(), kind='float', positive=False):
    """Per-atom property values (numbers in working units): magnitudes spread over 0.05 .. 20."""
    if kind == 'int':
        return rng.integers(0, 5, (n,) + tuple(shape))
    mag = 10.0 ** rng.uniform(-1.3, 1.3, (n,) + tuple(shape))
    if positive:
        return mag
    return mag * rng.choice([-1.0, 1.0], (n,) + tuple(shape))
