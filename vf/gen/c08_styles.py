"""C08 - which per-atom quantities each LAMMPS atom_style carries (numpy only).

Column content per atom_style follows the ``read_data`` manual page ("Atoms
section" and "Velocities section" tables).  The *names* on the left are the
per-atom property names of atomman's API under which a System must offer the
quantity for ``dump('atom_data', atom_style=...)`` to write it (that mapping is
interface, not behaviour).  Each entry: (property name, kind, shape, quantity)
with kind 'i' (integer column) or 'f' (real column) and quantity = the
physical quantity whose unit the column has in the chosen unit style (None =
plain number).

The harness uses this table to (a) give the system the properties a style
needs and (b) know which properties a data file of that style carries, i.e.
what must come back from a load.
"""
from __future__ import annotations

MOL = ('m_id', 'i', (), None)
Q = ('charge', 'f', (), 'charge')
DENS = ('density', 'f', (), 'density')

ATOMS = {
    'atomic': [],
    'angle': [MOL],
    'bond': [MOL],
    'molecular': [MOL],
    'full': [MOL, Q],
    'charge': [Q],
    'dipole': [Q, ('mu', 'f', (3,), 'dipole')],
    'body': [('bflag', 'i', (), None), ('mass', 'f', (), 'mass')],
    'electron': [Q, ('espin', 'i', (), None), ('eradius', 'f', (), 'length')],
    'ellipsoid': [('eflag', 'i', (), None), DENS],
    'line': [MOL, ('lflag', 'i', (), None), DENS],
    'tri': [MOL, ('tflag', 'i', (), None), DENS],
    'sphere': [('diameter', 'f', (), 'length'), DENS],
    'meso': [('rho', 'f', (), None), ('e', 'f', (), None), ('cv', 'f', (), None)],
    'template': [MOL, ('m_template', 'i', (), None), ('a_template', 'i', (), None)],
    'wavepacket': [Q, ('espin', 'i', (), None), ('eradius', 'f', (), 'length'), ('e_id', 'i', (), None),
                   ('cs_re', 'f', (), None), ('cs_im', 'f', (), None)],
    # volume column: (length unit)^3
    'peri': [('volume', 'f', (), 'volume'), DENS],
    'smd': [MOL, ('volume', 'f', (), 'volume'), ('mass', 'f', (), 'mass'), ('kradius', 'f', (), 'length'),
            ('cradius', 'f', (), 'length')],
}

VEL = ('velocity', 'f', (3,), 'velocity')
VELOCITIES = {
    'electron': [VEL, ('eradial_velocity', 'f', (), 'velocity')],
    'ellipsoid': [VEL, ('ang_momentum', 'f', (3,), 'ang-mom')],
    'sphere': [VEL, ('ang_velocity', 'f', (3,), 'ang-vel')],
}

# hybrid: "atom-ID atom-type x y z sub-style1 sub-style2 ..." - columns of the sub-styles not already present
HYBRIDS = ['hybrid sphere dipole', 'hybrid charge molecular', 'hybrid full ellipsoid']

STYLES = ['atomic', 'charge', 'full', 'dipole', 'sphere', 'ellipsoid', 'electron', 'molecular', 'body', 'angle',
          'bond', 'line', 'tri', 'meso', 'template', 'wavepacket', 'peri', 'smd'] + HYBRIDS


def atoms_columns(style):
    if style.startswith('hybrid'):
        out, names = [], set()
        for sub in style.split()[1:]:
            for ent in ATOMS[sub]:
                if ent[0] not in names:
                    names.add(ent[0])
                    out.append(ent)
        return out
    return list(ATOMS[style])


def velocity_columns(style):
    if style.startswith('hybrid'):
        out, names = [VEL], {'velocity'}
        for sub in style.split()[1:]:
            for ent in VELOCITIES.get(sub, [VEL]):
                if ent[0] not in names:
                    names.add(ent[0])
                    out.append(ent)
        return out
    return list(VELOCITIES.get(style, [VEL]))


def quantities(style, with_velocity):
    qs = {'length'}
    for ent in atoms_columns(style) + (velocity_columns(style) if with_velocity else []):
        if ent[3] is not None:
            qs.add(ent[3])
    return qs
