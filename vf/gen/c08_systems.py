"""C08 - ground-truth systems as plain numpy data (numpy only, never atomman).

A truth is a dict of plain arrays; the property module builds an atomman
System from *copies* of them and never reads the truth back from atomman.
All magnitudes are chosen O(1..10) in the units of the *file*: the caller
passes ``F(quantity)`` = value of one file unit in working units, and every
generated number is (file-scale number) * F.
"""
from __future__ import annotations

import numpy as np

from . import cells
from ..oracle import geometry as G

LAMMPS_KINDS = cells.FAMILIES + ['tilted']           # cells the LAMMPS formats can describe
POSCAR_KINDS = cells.KINDS                           # plus arbitrarily rotated cells
POSCLASSES = ['inside', 'mixed', 'faces', 'far']
TYPECLASSES = ['single', 'contig', 'gaps', 'gap-first']
SYMCLASSES = ['none', 'all', 'partial']
ELEMENTS = ['Al', 'Cu', 'Fe', 'O', 'W', 'Si', 'U', 'Mg', 'H', 'Zr']


def pick(i, mult, table, off=0):
    """Deterministic axis choice for case i: a different multiplier per axis decorrelates the axes."""
    return table[(i * mult + off) % len(table)]


def gen_rel(rng, n, posclass):
    """Box-relative coordinates.  'inside': strictly interior with a 2 % margin; 'mixed': interior, outside by
    up to a cell, exactly on faces/edges, within 1e-9 of a face; 'faces': every atom on at least one face;
    'far': several cells away."""
    rel = rng.uniform(0.02, 0.98, (n, 3))
    if posclass == 'inside':
        return rel
    for j in range(n):
        if posclass == 'mixed':
            k = j % 5 if n >= 5 else int(rng.integers(0, 5))
        elif posclass == 'faces':
            k = 2
        else:
            k = 4 if j % 2 == 0 else 1
        if k == 1:                                         # outside by up to a cell
            rel[j] = rng.uniform(-0.9, 1.9, 3)
        elif k == 2:                                       # exactly on faces / edges / corners
            axes = [ax for ax in range(3) if rng.random() < 0.5] or [int(rng.integers(0, 3))]
            for ax in axes:
                rel[j, ax] = float(rng.choice([0.0, 1.0]))
        elif k == 3:                                       # a hair inside / outside a face
            ax = int(rng.integers(0, 3))
            rel[j, ax] = float(rng.choice([0.0, 1.0])) + float(rng.choice([-1, 1])) * 10 ** rng.uniform(-11, -7)
        elif k == 4:                                       # several cells away
            rel[j] = rng.uniform(-3.4, 4.4, 3)
    return rel


def gen_types(rng, n, typeclass):
    """atype array (ints >= 1) and natypes = max type.  'gaps': an interior type number unused (e.g. {1,3});
    'gap-first': type 1 unused."""
    if typeclass == 'single' or n == 1:
        t = np.ones(n, dtype=np.int64)
        if typeclass in ('gaps', 'gap-first'):
            t[:] = 2 if typeclass == 'gap-first' else 3     # a lone atom of a high type: lower types unused
        return t
    if typeclass == 'contig':
        k = int(rng.integers(2, min(4, n) + 1))
        used = list(range(1, k + 1))
    elif typeclass == 'gaps':
        used = [[1, 3], [1, 2, 4], [1, 4], [2, 5]][int(rng.integers(0, 4))]
    else:
        used = [[2, 3], [2], [3, 4]][int(rng.integers(0, 3))]
    used = used[:max(1, min(len(used), n))]
    t = np.array([used[j % len(used)] for j in range(n)], dtype=np.int64)
    rng.shuffle(t)
    if len(used) > 1 and len(set(t.tolist())) < len(used):
        t[:len(used)] = used
    return t


def gen_symbols(rng, natypes, symclass):
    if symclass == 'none':
        return None
    names = list(rng.permutation(ELEMENTS)[:natypes])
    names = [str(x) for x in names]
    if symclass == 'partial' and natypes > 1:
        names[int(rng.integers(0, natypes))] = None
    return names


# ---- cells of physical size whatever the length unit of the file (numbers are angstrom = the working unit) ----
# tilt class = magnitude of the non-zero tilt factors: none / all above one angstrom / all below one angstrom /
# all far below (1e-5..1e-2 angstrom, still >> the 1e-9 relative clean-up of the cell constructor);
# tilt mask = which of (xy, xz, yz) are non-zero.
TILTCLASSES = ['orthogonal', 'tilt-large', 'tilt-sub', 'tilt-tiny']
TILTMASKS = [(1, 1, 1), (0, 0, 1), (1, 0, 0), (0, 1, 0), (1, 1, 0), (1, 0, 1), (0, 1, 1)]


def gen_tilt_cell(rng, tiltclass, mask, origin_class):
    """LAMMPS-oriented cell with edges 3..30 angstrom (log-uniform) and tilt factors of the given class."""
    lx, ly, lz = np.exp(rng.uniform(np.log(3.0), np.log(30.0), 3))
    bound = [0.5 * min(lx, ly), 0.5 * min(lx, lz), 0.5 * min(ly, lz)]
    t = [0.0, 0.0, 0.0]
    for k in range(3):
        sign = float(rng.choice([-1.0, 1.0]))
        big = rng.uniform(1.3, max(1.6, bound[k]))
        sub = rng.uniform(0.05, 0.95)
        tiny = 10.0 ** rng.uniform(-5, -2)
        if tiltclass != 'orthogonal' and mask[k]:
            t[k] = sign * {'tilt-large': big, 'tilt-sub': sub, 'tilt-tiny': tiny}[tiltclass]
    v = G.vects_from_lammps(lx, ly, lz, t[0], t[1], t[2])
    L = float(np.linalg.norm(v, axis=1).max())
    o = np.zeros(3) if origin_class == 'zero' else rng.uniform(-2, 2, 3) * L
    return dict(kind=tiltclass, vects=v, origin=o, lammps=True, tilts=tuple(t))


# per-atom property shapes: scalar, every way of having one column without being a scalar, vectors, matrices
SHAPES = [(), (1,), (2,), (3,), (1, 1), (1, 3), (3, 1), (3, 3), (1, 1, 1), (2, 2)]


def shape_name(kind, shape):
    return {'f': 'flt', 'i': 'int', 'b': 'boo'}[kind] + ('x'.join(str(s) for s in shape) if shape else 's')


def gen_truth(rng, kind, origin_class, pbc, posclass, typeclass, symclass, n, Flen=1.0, cell=None):
    if cell is None:
        cell = cells.gen_cell(rng, kind, origin_class, Flen)
    v, o = cell['vects'], cell['origin']
    if origin_class == 'far':                     # keep 'far' within what a 13-digit fixed-point print can resolve
        o = o / 10.0
    rel = gen_rel(rng, n, posclass)
    pos = G.cart(rel, v, o)
    atype = gen_types(rng, n, typeclass)
    natypes = int(atype.max())
    return dict(kind=cell['kind'], vects=v, origin=o, L=float(np.linalg.norm(v, axis=1).max()), pbc=tuple(bool(x) for x in pbc),
                rel=rel, pos=pos, atype=atype, natypes=natypes, symbols=gen_symbols(rng, natypes, symclass),
                lammps=cell['lammps'], posclass=posclass, typeclass=typeclass, symclass=symclass, props={})


def gen_prop(rng, n, kind, shape, F=1.0):
    """One per-atom property in working units whose file representation is O(1..100)."""
    if kind == 'i':
        return rng.integers(-3, 40, (n,) + tuple(shape)).astype(np.int64)
    if kind == 'b':
        b = rng.random((n,) + tuple(shape)) < 0.5
        if n > 1 and shape == ():
            b[0], b[1] = True, False
        return b
    mag = 10 ** rng.uniform(-1, 2)
    x = rng.normal(size=(n,) + tuple(shape)) * mag
    # a few exactly representable / integer-valued / zero entries in a float column
    flat = x.reshape(-1)
    if flat.size > 2:
        flat[0] = 0.0
        flat[1] = float(int(rng.integers(-5, 6)))
    return x * F


def positive(x, F):
    """Magnitudes for quantities that are positive by nature (mass, density, radius ...)."""
    return np.abs(x) + 0.1 * F


# ---- POSCAR universal scale factor: the classes of numbers a caller hands over as ``box_scale`` ----
# 'one' / 'short-*': typed-in factors with a handful of digits (print exactly in any format);
# 'irrational', 'random', 'lattice', 'small', 'large': computed factors with a full 53-bit mantissa (a/sqrt(2), 1/3, pi,
# the length of the first cell vector, ...), 'small'/'large' three decades away from one;
# 'near-short': a short decimal perturbed in its 8th..12th significant digit (a lattice constant computed rather
# than typed: 3.6149999...);
# 'int' / 'np.float32' / 'np.float64': other number types of the same argument.
SCALECLASSES = ['one', 'short-above', 'short-below', 'irrational', 'random', 'lattice', 'near-short', 'small', 'large',
                'int', 'np.float32', 'np.float64']
GENERIC_SCALES = ('irrational', 'random', 'lattice', 'near-short', 'small', 'large', 'np.float32', 'np.float64')


def gen_box_scale(rng, cls, rnd, vects):
    """Returns (object handed to the writer, its exact value as a Python float)."""
    if cls == 'one':
        s = 1.0
    elif cls == 'short-above':
        s = [2.5, 4.05, 3.615, 2.0][rnd % 4]
    elif cls == 'short-below':
        s = [0.37, 0.5, 0.125, 0.9][rnd % 4]
    elif cls == 'irrational':
        s = [1.0 / 3.0, float(np.pi), 4.05 / float(np.sqrt(2.0)), float(np.sqrt(3.0)) / 2.0, 2.0 / 7.0, float(np.e)][rnd % 6]
    elif cls == 'random':
        s = float(np.exp(rng.uniform(np.log(0.2), np.log(8.0))))
    elif cls == 'lattice':
        s = float(np.linalg.norm(np.asarray(vects, float)[rnd % 3]))
    elif cls == 'near-short':
        base = [3.615, 4.05, 2.5, 0.37, 5.43, 2.8665][rnd % 6]
        s = base * (1.0 + float(rng.choice([-1.0, 1.0])) * 10.0 ** (-7.0 - (rnd % 5) - rng.uniform(0.0, 0.7)))
    elif cls == 'small':
        s = float(np.exp(rng.uniform(np.log(1e-3), np.log(1e-2))))
    elif cls == 'large':
        s = float(np.exp(rng.uniform(np.log(1e2), np.log(1e3))))
    elif cls == 'int':
        return int([2, 3, 5, 7][rnd % 4]), float([2, 3, 5, 7][rnd % 4])
    elif cls == 'np.float32':
        x = np.float32(np.exp(rng.uniform(np.log(0.3), np.log(6.0))))
        return x, float(x)
    elif cls == 'np.float64':
        x = np.float64(np.exp(rng.uniform(np.log(0.3), np.log(6.0))))
        return x, float(x)
    else:
        raise ValueError(cls)
    return float(s), float(s)


def significant_digits_needed(x, maxdigits=17):
    """Smallest number of significant decimal digits that reproduces the float x exactly."""
    for d in range(1, maxdigits + 1):
        if float('%.*e' % (d - 1, x)) == x:
            return d
    return maxdigits


# ---- input forms: the same numbers handed to the constructors as other Python / numpy types ----
FORMS = ['int-arrays', 'lists', 'float32', 'strided', 'narrow-ints']


def gen_integer_truth(rng, pbc, posclass, typeclass, n, lammps=True, float_cell=False):
    """A system all of whose numbers are integers: LAMMPS-oriented cell with integer edges and tilt factors, integer
    origin, atoms on integer coordinates inside, outside and on the faces of the cell.  float_cell: the cell (not the
    origin, not the atoms) is stretched by a non-integer factor, so that moving an atom by a cell vector leaves the
    integers."""
    lx, ly, lz = (int(x) for x in rng.integers(4, 12, 3))
    xy, xz, yz = (int(x) for x in rng.integers(-2, 3, 3))
    v = np.array([[lx, 0, 0], [xy, ly, 0], [xz, yz, lz]], dtype=np.int64)
    o = rng.integers(-5, 6, 3).astype(np.int64)
    pos = o + rng.integers(-6, 18, (n, 3)).astype(np.int64)          # inside, outside, on faces and corners alike
    vf = v.astype(float)
    if float_cell:
        vf = vf * rng.uniform(0.55, 0.95)
        pos[0] = o + v.sum(axis=0) + 1                                   # beyond the far corner of the stretched cell
    rel = np.linalg.solve(vf.T, (pos - o).astype(float).T).T
    atype = gen_types(rng, n, typeclass)
    natypes = int(atype.max())
    return dict(kind='integer', vects=vf, origin=o.astype(float), L=float(np.linalg.norm(vf, axis=1).max()),
                pbc=tuple(bool(x) for x in pbc), rel=rel, pos=pos.astype(float), atype=atype, natypes=natypes, symbols=None,
                lammps=lammps, posclass=posclass, typeclass=typeclass, symclass='none', props={},
                int_vects=(None if float_cell else v), int_origin=o, int_pos=pos)


def float32_exact(x):
    """The nearest float32 numbers, as float64 (what a float32 array holds, exactly)."""
    return np.asarray(x, dtype=np.float32).astype(np.float64)
