"""C09 generator: unit expressions from the grammar with tracked dimensions,
equal-dimension partners, values of several shapes, working-unit configurations.

numpy + the C09 oracle table only (never atomman).  An expression is built as a
*tree that already has the shape of the grammar*

    product := factor (('*'|'/') factor)*          left to right
    factor  := atom | atom '^' exponent
    atom    := NAME | positive NUMBER | '(' product ')'
    exponent:= signed NUMBER | '(' numeric product ')'

so rendering never has to decide where parentheses are needed, chained '^'
exists only with parentheses around the inner power, and the tree can be
evaluated directly (without any parsing) as a cross-check of the oracle's parser.
Negative literals appear only as exponents (a negative base is outside the
property: '-2^2' has no agreed meaning and fractional powers would go complex).
"""
from __future__ import annotations

import math

import numpy as np

from ..oracle import c09_units as U

# log10 of the base units (m, kg, s, C, K) in every configuration the expression cases are evaluated under: one
# row per configuration.  Used only to keep every sub-expression far from overflow/underflow (a domain restriction,
# not part of any verdict).  The property module measures the rows once per worker by cycling through
# ``all_configs()`` (which base unit a named choice leaves dependent is the implementation's business); the
# fallback below is the box of random-seed configurations.
BASE_LOGS = np.array([[sx * 2.0, sy * 2.0, sz * 2.0, sc * 2.0, sk * 2.0] for sx in (-1, 1) for sy in (-1, 1)
                      for sz in (-1, 1) for sc in (-1, 1) for sk in (-1, 1)])
MAGNITUDE_LIMIT = 230.0


SEED_BOX = BASE_LOGS.copy()            # a seeded random configuration puts every base unit within 1e-2 .. 1e2


def set_base_logs(rows):
    global BASE_LOGS
    BASE_LOGS = np.vstack([np.asarray(rows, float).reshape(-1, 5), SEED_BOX])


WEIGHT_LIMIT = 40.0

DEPTHS = (0, 1, 2, 3, 4)
WS_CLASSES = ('none', 'spaces', 'hostile')
PAIR_CLASSES = ('compensated', 'renamed', 'base')
VALUE_CLASSES = ('float', 'int', 'list', 'array1', 'array2', 'array3', 'special')
POOL_CLASSES = ('common', 'ascii', 'unicode')

COMMON = ['m', 'cm', 'nm', 'angstrom', 'kg', 'g', 'amu', 's', 'ps', 'fs', 'J', 'eV', 'kcal', 'mol', 'N', 'Pa', 'GPa',
          'bar', 'atm', 'K', 'C', 'e', 'V', 'A', 'hbar', 'kB', 'c0', 'aBohr', 'Ry', 'erg', 'dyn', 'um', 'us', 'pg']

POS_NUMBERS = ['2', '3', '10', '0.5', '.25', '1e-12', '1E3', '2.5e+3', '1e-18', '100.', '6.02e23', '1.0', '4', '0.1', '7e0']
EXPONENTS = ['2', '3', '-1', '-2', '-3', '0.5', '.5', '-.5', '-0.5', '2.0', '1.5', '-1.5', '2e0', '1', '(1/2)', '(-1)',
             '(3/2)', '( 2 )', '(-2)', '(2*1)', '(1/2/1)']

_WS = {
    'none': [''],
    'spaces': ['', '', ' ', '  '],
    'hostile': ['', ' ', '\t', '\n', '\r', ' \t', '\r\n', '   ', '\t\t'],
}

NAMES_BY_DIM = {}
for _n, (_v, _d, _x) in U.TABLE.items():
    NAMES_BY_DIM.setdefault(tuple(float(c) for c in _d), []).append(_n)
for _l in NAMES_BY_DIM.values():
    _l.sort()

_POOL_NAMES = {
    'common': COMMON,
    'ascii': U.ASCII_NAMES,
    'unicode': U.ASCII_NAMES + U.UNICODE_NAMES * 6,      # unicode aliases over-weighted so they actually occur
}
BASE_POOL = {0: ['m', 'cm', 'nm', 'angstrom', 'inch', 'km', 'aBohr'], 1: ['kg', 'g', 'amu', 'pg', 'lbm', 'me'],
             2: ['s', 'ms', 'ps', 'fs', 'minute', 'ns'], 3: ['C', 'e', 'mC', 'Ah'], 4: ['K', 'mK', 'degFinterval']}
DERIVED = ['N', 'J', 'Pa', 'W', 'V', 'ohm', 'T', 'F', 'H', 'kB', 'hbar', 'c0', 'eV', 'dyn', 'bar', 'A', 'Hz', 'L', 'g0']


def pick(rng, seq):
    return seq[int(rng.integers(0, len(seq)))]


# ---------------------------------------------------------------------------
# trees: ('name', n) ('num', text) ('par', t) ('pow', atom, exponent) ('*', a, b) ('/', a, b)
def _exponent(rng):
    text = pick(rng, EXPONENTS)
    if text.startswith('('):
        return ('rawpar', text)
    return ('num', text)


def _atom(rng, depth, names, force_par):
    r = rng.random()
    if depth > 0 and (force_par or r < 0.3):
        return ('par', _product(rng, depth - 1, names, force_par))
    if r < 0.88:
        return ('name', pick(rng, names))
    return ('num', pick(rng, POS_NUMBERS))


def _factor(rng, depth, names, force_par):
    a = _atom(rng, depth, names, force_par)
    if rng.random() < 0.35:
        return ('pow', a, _exponent(rng))
    return a


def _product(rng, depth, names, force_spine=False):
    """force_spine: make the first atom a parenthesis at every level so the nesting depth is exactly ``depth``."""
    n = int(rng.integers(1, 4)) if depth > 0 else int(rng.integers(1, 5))
    k_spine = int(rng.integers(0, n)) if force_spine else -1
    node = _factor(rng, depth, names, k_spine == 0)
    for k in range(1, n):
        op = '*' if rng.random() < 0.5 else '/'
        node = (op, node, _factor(rng, depth, names, k_spine == k))
    return node


def render(t, rng, ws):
    """Text of a tree with random white space of class ``ws`` between tokens."""
    W = _WS[ws]

    def w():
        return W[int(rng.integers(0, len(W)))]

    def r(t):
        k = t[0]
        if k in ('name', 'num'):
            return t[1]
        if k == 'rawpar':                                   # '(1/2)' -> tokens with white space
            out = ''
            for ch in t[1].replace(' ', ''):
                out += (w() if ch in '*/()' else '') + ch + (w() if ch in '*/(' else '')
            return out
        if k == 'par':
            return '(' + w() + r(t[1]) + w() + ')'
        if k == 'pow':
            return r(t[1]) + w() + '^' + w() + r(t[2])
        return r(t[1]) + w() + k + w() + r(t[2])
    return w() + r(t) + w()


def eval_tree(t, lookup, number=float):
    """Direct evaluation of a tree (no parsing) over floats or ``U.Q``."""
    k = t[0]
    if k == 'name':
        return lookup(t[1])
    if k == 'num':
        return number(float(t[1]))
    if k == 'rawpar':
        return U.evaluate(t[1], lookup, number)              # numeric sub-grammar, literals only
    if k == 'par':
        return eval_tree(t[1], lookup, number)
    if k == 'pow':
        return eval_tree(t[1], lookup, number) ** eval_tree(t[2], lookup, number)
    a, b = eval_tree(t[1], lookup, number), eval_tree(t[2], lookup, number)
    return a * b if k == '*' else a / b


def depth_of(t):
    k = t[0]
    if k in ('name', 'num'):
        return 0
    if k == 'rawpar':
        return 1
    if k == 'par':
        return 1 + depth_of(t[1])
    return max(depth_of(t[1]), depth_of(t[2]))


def count_nodes(t):
    if t[0] in ('name', 'num', 'rawpar'):
        return 1
    return 1 + sum(count_nodes(c) for c in t[1:] if isinstance(c, tuple))


def names_in(t):
    if t[0] == 'name':
        return [t[1]]
    out = []
    for c in t[1:]:
        if isinstance(c, tuple):
            out += names_in(c)
    return out


def ops_in(t):
    if t[0] in ('name', 'num', 'rawpar'):
        return ''
    s = '' if t[0] == 'par' else ('^' if t[0] == 'pow' else t[0])
    for c in t[1:]:
        if isinstance(c, tuple):
            s += ops_in(c)
    return s


def magnitude_ok(t):
    """Every sub-expression stays below MAGNITUDE_LIMIT decades in every configuration of BASE_LOGS."""
    ok = True

    def lift(q):
        nonlocal ok
        if not (q.v > 0 and math.isfinite(q.v)):
            ok = False
            return q
        m = np.abs(math.log10(q.v) + BASE_LOGS @ np.asarray(q.d, float)).max() if any(q.d) else abs(math.log10(q.v))
        if m > MAGNITUDE_LIMIT or q.w > WEIGHT_LIMIT:
            ok = False
        return q

    class B(U.Q):
        __slots__ = ()

        def __mul__(self, o):
            q = U.Q.__mul__(self, o)
            return lift(B(q.v, q.d, q.w, q.inexact))

        def __truediv__(self, o):
            q = U.Q.__truediv__(self, o)
            return lift(B(q.v, q.d, q.w, q.inexact))

        def __pow__(self, o):
            if abs(math.log10(self.v) * o.v) > 300:
                raise OverflowError
            q = U.Q.__pow__(self, o)
            return lift(B(q.v, q.d, q.w, q.inexact))

    def lk(n):
        q = U.si(n)
        return lift(B(q.v, q.d, q.w, q.inexact))
    try:
        eval_tree(t, lk, lambda x: B(x))
    except (OverflowError, ZeroDivisionError, ValueError):
        return False
    return ok


def gen_expression(rng, depth, pool):
    """A tree of nesting depth exactly ``depth`` over the names of ``pool``, bounded in magnitude."""
    names = _POOL_NAMES[pool]
    for _ in range(200):
        t = _product(rng, depth, names, force_spine=depth > 0)
        if names_in(t) and magnitude_ok(t):
            return t
    return ('name', pick(rng, names))


def _exp_text(p):
    if float(p).is_integer():
        return str(int(p))
    return repr(float(p))


def _compensate(rng, t, residual):
    """Extend product ``t`` by pure-dimension names so that its dimension changes by ``residual``."""
    order = list(rng.permutation(5))
    for i in order:
        p = residual[i]
        if p == 0:
            continue
        name = ('name', pick(rng, BASE_POOL[int(i)]))
        style = int(rng.integers(0, 3))
        if p == 1 and style != 2:
            t = ('*', t, name)
        elif p == -1 and style != 2:
            t = ('/', t, name)
        elif p < 0 and style == 0:
            t = ('/', t, ('pow', name, ('num', _exp_text(-p))))
        elif style == 1 and not float(p).is_integer():
            t = ('*', t, ('pow', name, ('rawpar', f'({_exp_text(2 * p)}/2)')))
        else:
            t = ('*', t, ('pow', name, ('num', _exp_text(p))))
    return t


def _rename(rng, t):
    """Same structure, every name replaced by another name of the same dimension."""
    k = t[0]
    if k == 'name':
        d = tuple(float(c) for c in U.TABLE[t[1]][1])
        return ('name', pick(rng, NAMES_BY_DIM[d]))
    if k in ('num', 'rawpar'):
        return t
    return (k,) + tuple(_rename(rng, c) if isinstance(c, tuple) else c for c in t[1:])


def gen_partner(rng, t1, pair, depth, pool):
    """A second tree of the same dimension as ``t1``."""
    q1 = eval_tree(t1, U.si, lambda x: U.Q(x))
    for _ in range(200):
        if pair == 'renamed':
            t2 = _rename(rng, t1)
        elif pair == 'base':
            t2 = _canonical(q1.d, rng)                     # SI base names only
        else:
            t = _product(rng, max(depth - 1, 0), _POOL_NAMES[pool], False)
            if rng.random() < 0.3:
                t = ('*' if rng.random() < 0.5 else '/', t, ('name', pick(rng, DERIVED)))
            if not magnitude_ok(t):
                continue
            q = eval_tree(t, U.si, lambda x: U.Q(x))
            t2 = _compensate(rng, t, tuple(a - b for a, b in zip(q1.d, q.d)))
        if not magnitude_ok(t2):
            continue
        q2 = eval_tree(t2, U.si, lambda x: U.Q(x))
        assert all(abs(a - b) < 1e-12 for a, b in zip(q1.d, q2.d)), (q1, q2)
        return t2
    return t1


def _canonical(dim, rng):
    t = None
    for i in list(rng.permutation(5)):
        p = dim[i]
        if p == 0:
            continue
        f = ('name', U.BASE_NAMES[int(i)])
        if p != 1:
            f = ('pow', f, ('num', _exp_text(p)))
        t = f if t is None else ('*', t, f)
    return t if t is not None else ('num', '1')


def gen_value(rng, cls):
    """(value as handed to the code, float ndarray of the same numbers)."""
    def mags(shape):
        return rng.choice([-1.0, 1.0], shape) * 10.0 ** rng.uniform(-6, 6, shape)
    if cls == 'float':
        x = float(mags(()))
        return x, np.asarray(x)
    if cls == 'int':
        x = int(rng.integers(-1000, 1001))
        return x, np.asarray(float(x))
    if cls == 'list':
        x = [float(v) for v in mags(int(rng.integers(1, 6)))]
        if rng.random() < 0.5:
            x[int(rng.integers(0, len(x)))] = int(rng.integers(-9, 10))
        return x, np.asarray(x, float)
    if cls == 'array1':
        x = mags(int(rng.integers(1, 8)))
        return x, x.copy()
    if cls == 'array2':
        x = mags((int(rng.integers(1, 4)), 3))
        return x, x.copy()
    if cls == 'array3':
        x = mags((2, int(rng.integers(1, 4)), 3))
        return x, x.copy()
    x = np.array([0.0, -0.0, 1.0, -1.0, 1e-30, -1e30, float(rng.integers(1, 10 ** 9)), float(mags(()))])
    return x, x.copy()


def stratify(i):
    """Deterministic class assignment (mixed radix, every factor cycles with a different period)."""
    depth = DEPTHS[i % 5]
    ws = WS_CLASSES[(i // 5) % 3]
    pair = PAIR_CLASSES[(i // 15 + i) % 3]
    val = VALUE_CLASSES[i % 7]
    pool = POOL_CLASSES[(i // 3 + i // 35) % 3]
    return depth, ws, pair, val, pool


def make_case(rng, i):
    depth, ws, pair, val, pool = stratify(i)
    t1 = gen_expression(rng, depth, pool)
    t2 = gen_partner(rng, t1, pair, depth, pool)
    e1, e2 = render(t1, rng, ws), render(t2, rng, ws)
    x, xa = gen_value(rng, val)
    return dict(sig=(depth, ws, pair, val, pool), depth=depth, ws=ws, pair=pair, val=val, pool=pool,
                t1=t1, t2=t2, e1=e1, e2=e2, x=x, xa=xa)


# ---------------------------------------------------------------------------
# working-unit configurations
# variant 0: atomistic, 1: cgs/SI mixture, 2: atomic-unit like.  Each variant is coherent in scale so that a
# base unit derived from the energy stays moderate (a mixture such as amu + s + kcal puts the metre at 1e15).
CHOICE_NAMES = {
    'length': ['angstrom', 'cm', 'aBohr'],
    'mass': ['amu', 'g', 'me'],
    'time': ['ps', 's', 'fs'],
    'energy': ['eV', 'J', 'Ry'],
    'charge': ['e', 'C', 'mAh'],
}
CHOICE_EXTRA = {
    'length': ['nm', 'inch', 'm', 'um', 'Å'],
    'mass': ['kg', 'lbm', 'pg', 'mp', 'Da'],
    'time': ['hour', 'ns', 'us', 'minute', 'ms'],
    'energy': ['kcal', 'erg', 'meV', 'Hartree', 'kWh', 'kJ'],
    'charge': ['mC', 'Ah', 'uC', 'nC'],
}
N_VARIANTS = 3
SEEDS = tuple(range(20))
DEFAULT = dict(length='angstrom', mass='amu', energy='eV', charge='e')


def named_choice(j, v):
    """Working-unit choice number j (0..28) in variant v (0..2): a dict quantity -> unit name."""
    sub = U.admissible_choices()[j]
    return {q: CHOICE_NAMES[q][v] for q in sub}


def random_choice(rng, j):
    sub = U.admissible_choices()[j]
    return {q: pick(rng, CHOICE_NAMES[q] + CHOICE_EXTRA[q]) for q in sub}


def all_named():
    n = len(U.admissible_choices())
    return [('named', named_choice(j, v)) for v in range(N_VARIANTS) for j in range(n)]


def all_configs():
    return [('default', dict(DEFAULT)), ('SI', None)] + all_named() + [('seed', s) for s in SEEDS]


def config_key(cfg):
    kind, arg = cfg
    if kind == 'named':
        return 'named:' + '+'.join(q for q in U.QUANTITIES if q in arg)
    return kind


def configs_for_case(i, n_named=18, n_seeds=5, rng=None, n_random=0):
    """default, SI, n_named named choices (rotating through all of them), n_seeds seeded random
    configurations of which the last n_random use a seed drawn from rng instead of the fixed list."""
    named = all_named()
    out = [('default', dict(DEFAULT)), ('SI', None)]
    out += [named[(i * n_named + k) % len(named)] for k in range(n_named)]
    for k in range(n_seeds):
        if rng is not None and k >= n_seeds - n_random:
            out.append(('seed', int(rng.integers(100, 2 ** 31))))
        else:
            out.append(('seed', SEEDS[(i * n_seeds + k) % len(SEEDS)]))
    return out
