"""Descriptions of system *content* for C10 (numpy only, never atomman): which atom types are declared, which of
them are populated, what the symbols / masses lists handed to the constructor look like, and what the system is then
documented to hold (System docstring: "If len(symbols) is less than natypes, then missing values will be set to None";
natypes = the larger of the number of declared symbols and the highest atype found among the atoms)."""
from __future__ import annotations

import numpy as np

# how the declared atom types relate to the populated ones
TYPECLASSES = ['full', 'trailing-1', 'trailing-2', 'middle', 'masses-short', 'symbols-short', 'dup-symbols', 'trailing-unnamed']
# what the symbols look like (None = unnamed type)
SYMCLASSES = ['named', 'all-none', 'second-none', 'first-none']
# what the masses look like
MASSCLASSES = ['all', 'none', 'first-missing', 'last-missing', 'only-last', 'tiny-huge']
# in which form the lists are handed to the constructor
FORMS = ['tuple', 'list', 'array', 'scalar-if-one']
ELEMENTS = ['Al', 'Cu', 'Fe', 'Ni', 'Mg', 'Ti', 'O']


def gen_types(rng, i, natoms):
    """Stratified by i.  Returns dict(atype, declared symbols / masses as handed over, expected symbols / masses / natypes,
    typeclass, populated (sorted list of atypes that have atoms))."""
    tc = TYPECLASSES[i % len(TYPECLASSES)]
    sc = SYMCLASSES[(i // 8) % len(SYMCLASSES)]
    mc = MASSCLASSES[(i // 5) % len(MASSCLASSES)]
    npop = int(min(natoms, 1 + (i // 3) % 3))                      # number of populated types
    if tc == 'middle' and natoms < 2:
        tc = 'trailing-1'
    if tc == 'middle':
        npop = max(npop, 2)
        # types 1..npop+1 are declared, one of 2..npop has no atoms, the highest one is populated
        hole = int(rng.integers(2, npop + 1))
        used = [t for t in range(1, npop + 2) if t != hole]
        ndecl = npop + 1
    else:
        used = list(range(1, npop + 1))
        ndecl = npop + {'full': 0, 'trailing-1': 1, 'trailing-2': 2, 'masses-short': 1, 'symbols-short': 0,
                        'dup-symbols': 1 if npop == 1 else 0, 'trailing-unnamed': 1}[tc]
    atype = np.concatenate([np.asarray(used), rng.choice(used, size=natoms - len(used))]) if natoms >= len(used) else np.asarray(used[:natoms])
    atype = atype[rng.permutation(len(atype))].astype(int)
    # highest populated type decides Atoms.natypes
    apop = int(atype.max())
    names = list(rng.permutation(ELEMENTS)[:ndecl])
    if tc == 'dup-symbols':
        names = [names[0]] * ndecl
    elif sc == 'all-none':
        names = [None] * ndecl
    elif sc == 'second-none' and ndecl > 1:
        names[1] = None
    elif sc == 'first-none':
        names[0] = None
    if tc == 'trailing-unnamed':
        names[-1] = None
    # full double precision masses over the magnitudes masses take in the working-unit systems atomman offers (amu ... kg)
    mags = 10.0 ** rng.integers(-27, 4, ndecl) if mc == 'tiny-huge' else np.ones(ndecl)
    mvals = [float(x) for x in rng.uniform(1, 200, ndecl) * mags]
    if tc == 'dup-symbols':
        mvals = [mvals[0]] * ndecl
    if mc == 'none':
        masses = [None] * ndecl
    elif mc == 'first-missing' and ndecl > 1:
        masses = [None] + mvals[1:]
    elif mc == 'last-missing' and ndecl > 1:
        masses = mvals[:-1] + [None]
    elif mc == 'only-last' and ndecl > 1:
        masses = [None] * (ndecl - 1) + mvals[-1:]
    else:
        masses = list(mvals)
    given_symbols, given_masses = list(names), list(masses)
    if tc == 'masses-short':
        given_masses = given_masses[:max(1, ndecl - 1 - int(rng.integers(0, 2)))]
    if tc == 'symbols-short' and apop > 1:
        given_symbols = given_symbols[:apop - 1]
    natypes = max(len(given_symbols), apop)
    exp_symbols = tuple(given_symbols + [None] * (natypes - len(given_symbols)))
    exp_masses = tuple(given_masses + [None] * (natypes - len(given_masses)))
    if all(m is None for m in given_masses) and (i // 7) % 2 == 0:
        given_masses = None                                        # masses not mentioned at all
    form = FORMS[(i // 2) % len(FORMS)]
    return dict(atype=atype, typeclass=tc, symclass=sc, massclass=mc, form=form, populated=sorted(set(int(t) for t in atype)),
                given_symbols=given_symbols, given_masses=given_masses, symbols=exp_symbols, masses=exp_masses, natypes=natypes,
                trailing=natypes - apop)


def hand_over(values, form):
    """The same list in the form the caller happens to hold it in."""
    if values is None:
        return None
    if form == 'tuple':
        return tuple(values)
    if form == 'array' and all(v is not None for v in values) and len(values) > 0:
        return np.array(values)
    if form == 'scalar-if-one' and len(values) == 1 and values[0] is not None:
        return values[0]
    return list(values)
