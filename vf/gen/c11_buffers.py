"""Caller-owned argument objects that are re-used between calls (numpy only, never atomman).

A ``Buffer`` is one Python object that the workload hands to the code under
test again and again, overwriting its contents in place between the calls -
what a caller does who keeps one work array for the successive rotations of a
sweep, or one 6x6 scratch matrix for the successive stiffnesses of a fit.  The
object identity never changes (``buf.obj`` is always the same object); only
``buf.write`` / ``buf.inplace`` change what it holds.  ``buf.values()`` is a
float64 copy of the present contents = what the callee has to go by.

Forms (all accepted by ``numpy.asarray``):
  f64-c        C-contiguous float64 ndarray                     (asarray: no copy)
  f64-fortran  Fortran-ordered float64 ndarray                  (asarray: no copy)
  f64-view     a window cut out of a larger float64 array       (asarray: no copy, not contiguous)
  f64-strided  every second element of a larger float64 array   (asarray: no copy, strided)
  f32          float32 ndarray       (exactly representable contents only)
  i64          int64 ndarray         (integer contents only)
  nested-list  list of lists of Python floats, elements replaced in place
  row-arrays   list of float64 row arrays (sub-blocks for rank 4), rows overwritten in place
  tuple-rows   tuple of float64 row arrays, rows overwritten in place
"""
from __future__ import annotations

import numpy as np

ND_FORMS = ('f64-c', 'f64-fortran', 'f64-view', 'f64-strided', 'f32', 'i64')
SEQ_FORMS = ('nested-list', 'row-arrays', 'tuple-rows')
FORMS = ND_FORMS + SEQ_FORMS
EXACT_ONLY = ('f32', 'i64')                 # contents must survive the dtype unchanged
WRITE_STYLES = ('slice-assign', 'row-by-row', 'copyto', 'elementwise', 'inplace-op')
INPLACE_OPS = ('negate-two-rows', 'cycle-rows', 'transpose', 'swap-rows-negate-third')      # proper -> proper, exact in any dtype


def _nest(a):
    return a.tolist()


def _set_nested(lst, a):
    """Replace the leaves of a nested list in place (the list objects stay)."""
    if a.ndim == 1:
        for k in range(a.shape[0]):
            lst[k] = float(a[k])
    else:
        for k in range(a.shape[0]):
            _set_nested(lst[k], a[k])


class Buffer:
    def __init__(self, form, shape, rng):
        self.form, self.shape = form, tuple(shape)
        pad = float(rng.uniform(1.0, 2.0))          # what the surrounding memory of a window holds
        if form == 'f64-c':
            self.obj = np.full(shape, pad)
        elif form == 'f64-fortran':
            self.obj = np.asfortranarray(np.full(shape, pad))
        elif form == 'f64-view':
            self.base = np.full(tuple(s + 3 for s in shape), pad)
            self.obj = self.base[tuple(slice(1, 1 + s) for s in shape)]
        elif form == 'f64-strided':
            self.base = np.full(tuple(2 * s + 1 for s in shape), pad)
            self.obj = self.base[tuple(slice(1, 2 * s + 1, 2) for s in shape)]
        elif form == 'f32':
            self.obj = np.ones(shape, dtype=np.float32)
        elif form == 'i64':
            self.obj = np.ones(shape, dtype=np.int64)
        elif form == 'nested-list':
            self.obj = _nest(np.full(shape, pad))
        elif form == 'row-arrays':
            self.obj = [np.full(shape[1:], pad) for _ in range(shape[0])]
        elif form == 'tuple-rows':
            self.obj = tuple(np.full(shape[1:], pad) for _ in range(shape[0]))
        else:
            raise ValueError(form)
        self.is_nd = form in ND_FORMS
        self.writes = 0

    # ------------------------------------------------------------------
    def representable(self, a):
        a = np.asarray(a, float)
        if self.form == 'f32':
            return bool(np.array_equal(a.astype(np.float32).astype(float), a))
        if self.form == 'i64':
            return bool(np.array_equal(np.round(a), a))
        return True

    def values(self):
        return np.array(self.obj, dtype=float)

    def dtype_name(self):
        return str(self.obj.dtype) if self.is_nd else type(self.obj).__name__

    def write(self, a, style='slice-assign'):
        """Overwrite the contents in place with ``a`` (must be representable)."""
        a = np.asarray(a, float)
        assert a.shape == self.shape and self.representable(a)
        self.writes += 1
        if self.is_nd:
            o = self.obj
            if style == 'row-by-row':
                for k in range(self.shape[0]):
                    o[k] = a[k]
            elif style == 'copyto':
                np.copyto(o, a, casting='unsafe')
            elif style == 'elementwise':
                for idx in np.ndindex(*self.shape):
                    o[idx] = a[idx]
            else:
                o[...] = a
        elif self.form == 'nested-list':
            _set_nested(self.obj, a)
        else:
            for k in range(self.shape[0]):
                self.obj[k][...] = a[k]
        assert np.array_equal(self.values(), a)

    def inplace(self, op):
        """Turn the 3x3 axes held into other proper axes by an in-place edit; returns the new contents."""
        cur = self.values()
        if op == 'negate-two-rows':
            new = cur * np.array([[-1.0], [-1.0], [1.0]])
        elif op == 'cycle-rows':
            new = cur[[1, 2, 0]]
        elif op == 'transpose':
            new = cur.T.copy()
        elif op == 'swap-rows-negate-third':
            new = cur[[1, 0, 2]] * np.array([[1.0], [1.0], [-1.0]])
        else:
            raise ValueError(op)
        if self.is_nd:
            o = self.obj
            if op == 'negate-two-rows':
                o[:2] *= -1
            elif op == 'cycle-rows':
                o[...] = o[[1, 2, 0]]
            elif op == 'transpose':
                o[...] = o.T.copy()
            else:
                o[...] = o[[1, 0, 2]]
                o[2] *= -1
            self.writes += 1
            assert np.array_equal(self.values(), new)
        else:
            self.write(new)
        return new

    def scribble(self, rng, kind):
        """What a caller may do with its own object once the call has returned."""
        if kind == 'zeros':
            a = np.zeros(self.shape)
        elif kind == 'nan' and self.form not in ('i64',):
            a = np.full(self.shape, np.nan)
        elif kind == 'asymmetric':
            a = np.round(rng.uniform(1, 9, size=self.shape))
        else:
            a = np.round(rng.uniform(-9, 9, size=self.shape))
        self.writes += 1
        if self.is_nd:
            self.obj[...] = a
        elif self.form == 'nested-list':
            _set_nested(self.obj, a)
        else:
            for k in range(self.shape[0]):
                self.obj[k][...] = a[k]


def exact_spd6(rng, cond):
    """Integer-valued SPD 6x6 (a stiffness in units of its last printed digit), condition number about ``cond``;
    entries below 2^24, i.e. exact in float32 and int64."""
    from ..oracle import c11_elastic as O
    for _ in range(200):
        c = np.round(O.random_spd6(rng, cond) * 20 * cond)           # smallest eigenvalue 20, rounding moves it by < 3
        if (c == c.T).all() and O.is_spd(c) and O.cond6(c) <= 1.5 * cond and np.abs(c).max() < 2 ** 24:
            return c
    raise RuntimeError('exact_spd6: no draw accepted')
