"""Stratified generators for the C11 check (numpy only, never atomman).

Every class choice is a function of the case index; ``rng`` only picks the
numbers inside a class.  Ground truth is produced with the oracle
(``vf.oracle.c11_elastic``): a stiffness of a crystal system is a random SPD
matrix averaged over the system's (finite) rotation group, re-expressed as
"the invariant tensor carrying these named constants".
"""
from __future__ import annotations

import numpy as np

from ..oracle import c11_elastic as O

REPRS = ('Cij', 'Sij', 'Cij9', 'Cijkl', 'Sijkl')
CONDS = (10.0, 300.0, 1e4)
SCALES = (0.006, 1.0, 150.0)          # ~GPa expressed in eV/A^3, unit, GPa-sized numbers

# (label, oracle group, tuple of keyword-name variants)
_H = ('C13', 'C33', 'C44')
_R = ('C13', 'C14', 'C33', 'C44')
SYSTEMS = {
    'triclinic': ('triclinic', [tuple(f'C{i}{j}' for i in range(1, 7) for j in range(i, 7))]),
    'monoclinic': ('monoclinic', [('C11', 'C12', 'C13', 'C15', 'C22', 'C23', 'C25', 'C33', 'C35', 'C44', 'C46', 'C55', 'C66')]),
    'orthorhombic': ('orthorhombic', [('C11', 'C12', 'C13', 'C22', 'C23', 'C33', 'C44', 'C55', 'C66')]),
    'tetragonal+C16': ('tetragonal-4', [('C11', 'C12', 'C13', 'C16', 'C33', 'C44', 'C66')]),
    'tetragonal': ('tetragonal-4mm', [('C11', 'C12', 'C13', 'C33', 'C44', 'C66'),
                                      ('C11', 'C12', 'C13', 'C16', 'C33', 'C44', 'C66')]),     # second: C16 = 0.0 given explicitly
    'rhombohedral+C15': ('rhombohedral-3', [('C11', 'C12', 'C15') + _R, ('C11', 'C66', 'C15') + _R,
                                            ('C12', 'C66', 'C15') + _R, ('C11', 'C12', 'C66', 'C15') + _R]),
    'rhombohedral': ('rhombohedral-32', [('C11', 'C12') + _R, ('C11', 'C66') + _R, ('C12', 'C66') + _R,
                                         ('C11', 'C12', 'C66') + _R, ('C11', 'C12', 'C15') + _R]),   # last: C15 = 0.0 explicit
    'hexagonal': ('hexagonal', [('C11', 'C12') + _H, ('C11', 'C66') + _H, ('C12', 'C66') + _H, ('C11', 'C12', 'C66') + _H]),
    'cubic': ('cubic', [('C11', 'C12', 'C44')]),
}
# method of ElasticConstants that a keyword set must end up in (for reach floors)
SYSTEM_METHOD = {'triclinic': 'triclinic', 'monoclinic': 'monoclinic', 'orthorhombic': 'orthorhombic',
                 'tetragonal+C16': 'tetragonal', 'tetragonal': 'tetragonal', 'rhombohedral+C15': 'rhombohedral',
                 'rhombohedral': 'rhombohedral', 'hexagonal': 'hexagonal', 'cubic': 'cubic'}

SOURCES = tuple(['spd:' + r for r in REPRS] + list(SYSTEMS) + ['isotropic', 'tiny-entry'])
ROTATIONS = ('haar', 'product', 'cubic-group', 'small-angle', 'about-axis', 'scaled-rows', 'tiny-angle', 'half-turn')
STRAINS = ('random', 'hydrostatic', 'uniaxial', 'pure-shear', 'large')
HISTORY_OPS = ('read', 'read-and-scribble', 'moduli', 'transform', 'normalized', 'reassign')

_finite_group = {}


def _group(system):
    if system not in _finite_group:
        gens = O.GENERATORS[system]
        if system == 'hexagonal':
            gens = [O.rot_axis((0, 0, 1), np.pi / 3)]      # a 6-fold axis already forces transverse isotropy at rank 4
        _finite_group[system] = O.group_closure(gens)
    return _finite_group[system]


def _clean(c6):
    """Snap rounding noise to exact zero; report whether a genuinely tiny entry remains."""
    m = np.abs(c6).max()
    c6 = np.where(np.abs(c6) < 1e-13 * m, 0.0, c6)
    tiny = bool(((np.abs(c6) > 0) & (np.abs(c6) < 1e-6 * m)).any())
    return c6, tiny


def spd_generic(rng, cond):
    for _ in range(100):
        c6, tiny = _clean(O.random_spd6(rng, cond))
        if not tiny and O.cond6(c6) <= 1.05 * cond:
            return c6
    raise RuntimeError('spd_generic: no draw accepted')


def system_tensor(rng, label, cond=1e4):
    """(c6 truth, oracle group) for a crystal-system label of SYSTEMS."""
    group, _ = SYSTEMS[label]
    for _ in range(200):
        seed = O.random_spd6(rng, CONDS[int(rng.integers(0, 3))])
        t4 = O.c4_from_voigt(seed)
        elems = _group(group)
        avg = sum(O.rotate4(t4, g) for g in elems) / len(elems)
        c6 = O.voigt_from_c4(avg)
        c6 = (c6 + c6.T) / 2
        c6, tiny = _clean(c6 / np.abs(c6).max())
        if tiny or not O.is_spd(c6) or O.cond6(c6) > cond:
            continue
        return c6, group
    raise RuntimeError('system_tensor: no draw accepted for ' + label)


def named_constants(c6, names, group):
    """Keyword dict read off the truth at the positions the names denote, and
    the truth rebuilt by the oracle from exactly those constants."""
    kw = {}
    for n in names:
        i, j = O.named_position(n)
        kw[n] = float(c6[i, j])
    rebuilt = O.system_tensor(group, kw)
    return kw, rebuilt


def tiny_entry(rng, cls):
    """Orthorhombic-looking SPD matrix with one off-diagonal entry of relative
    size 1e-13..1e-7 (straddles the documented 1e-9 zeroing threshold)."""
    c6, _ = system_tensor(rng, 'orthorhombic', cond=1e3)
    pairs = [(0, 3), (0, 4), (0, 5), (1, 3), (2, 5), (3, 4), (3, 5), (4, 5)]
    i, j = pairs[int(rng.integers(0, len(pairs)))]
    expo = (rng.uniform(-13, -9.3), rng.uniform(-8.7, -7), rng.uniform(-9.3, -8.7))[cls]      # below / above / at the threshold
    t = float(rng.choice([-1.0, 1.0]) * 10 ** expo)
    c6 = c6.copy()
    c6[i, j] = c6[j, i] = t * np.abs(c6).max()
    return c6, abs(t)


# --------------------------------------------------------------------------
_SIGNED_PERMS = None


def cubic_group():
    global _SIGNED_PERMS
    if _SIGNED_PERMS is None:
        _SIGNED_PERMS = [g for g in O.group_closure(O.GENERATORS['cubic']) if np.abs(g - np.eye(3)).max() > 0.5]
    return _SIGNED_PERMS


_MILLER_AXES = (
    [[1, 1, 0], [-1, 1, 0], [0, 0, 1]],
    [[1, 1, 1], [1, -1, 0], [1, 1, -2]],
    [[1, -1, 0], [1, 1, -2], [1, 1, 1]],
    [[1, 1, -2], [1, 1, 1], [-1, 1, 0]],       # 112 x 111 = (1*1+2*1, -2*1-1*1, 0) = (3,-3,0) -> checked below
    [[2, 1, 0], [-1, 2, 0], [0, 0, 5]],
    [[0, 0, 3], [2, 0, 0], [0, 7, 0]],
)


def rotation(rng, cls):
    """3x3 ``axes`` argument of class ``cls`` (rows orthogonal, right-handed; unit length unless scaled-rows)."""
    if cls == 'haar':
        return O.random_rotation(rng)
    if cls == 'product':
        r = O.random_rotation(rng)
        for _ in range(int(rng.integers(1, 3))):
            k = int(rng.integers(0, 3))
            f = (O.random_rotation(rng), O.rot_axis(rng.normal(size=3), rng.uniform(-np.pi, np.pi)),
                 cubic_group()[int(rng.integers(0, 23))])[k]
            r = f @ r
        return r
    if cls == 'cubic-group':
        return cubic_group()[int(rng.integers(0, 23))].copy()
    if cls == 'small-angle':        # off-diagonal terms of relative size 1e-8..1e-4: at and above transform's zeroing threshold
        return O.rot_axis(rng.normal(size=3), float(rng.choice([-1, 1]) * 10 ** rng.uniform(-8.3, -4)))
    if cls == 'tiny-angle':         # terms of relative size 1e-10..5e-9: below the threshold, transform zeroes them
        return O.rot_axis(rng.normal(size=3), float(rng.choice([-1, 1]) * 10 ** rng.uniform(-10, -8.3)))
    if cls == 'about-axis':
        ax = np.eye(3)[int(rng.integers(0, 3))]
        ang = (rng.uniform(-np.pi, np.pi), np.pi - 10 ** rng.uniform(-7, -2), np.pi / 2, np.pi)[int(rng.integers(0, 4))]
        return O.rot_axis(ax, float(ang))
    if cls == 'half-turn':          # exact 2-fold about a coordinate axis: |axes| is diagonal, rows of any length
        r = O.rot_axis(np.eye(3)[int(rng.integers(0, 3))], np.pi).round()
        return r * (np.array([1.0, 1.0, 1.0]) if rng.random() < 0.5 else rng.integers(1, 6, size=3).astype(float))[:, None]
    if cls == 'scaled-rows':
        if rng.random() < 0.5:
            a = np.array(_MILLER_AXES[int(rng.integers(0, len(_MILLER_AXES)))], float)
            if np.dot(np.cross(a[0], a[1]), a[2]) < 0:
                a[2] = -a[2]
            return a
        return O.random_rotation(rng) * (10 ** rng.uniform(-2, 2, size=3))[:, None]
    raise ValueError(cls)


EXACT_ROTATIONS = ('cubic-group', 'half-turn', 'miller')


def exact_rotation(rng, cls):
    """Proper axes with small-integer components (exact in int64 and float32): a cubic point-group element,
    a half turn about a coordinate axis with rows of integer length, integer Miller axes of non-unit length."""
    if cls == 'miller':
        a = np.array(_MILLER_AXES[int(rng.integers(0, len(_MILLER_AXES)))], float)
        if np.dot(np.cross(a[0], a[1]), a[2]) < 0:
            a[2] = -a[2]
        return a[[(0, 1, 2), (1, 2, 0), (2, 0, 1)][int(rng.integers(0, 3))], :]
    if cls == 'cubic-group' or cls == 'half-turn':
        return np.round(rotation(rng, cls)) + 0.0          # signed permutation matrices: snap cos(pi/2) = 6e-17 to 0
    raise ValueError(cls)


def strain(rng, cls):
    if cls == 'random':
        e = rng.normal(size=(3, 3)) * 1e-3
        return (e + e.T) / 2
    if cls == 'hydrostatic':
        return np.eye(3) * float(rng.uniform(-0.02, 0.02))
    if cls == 'uniaxial':
        u = rng.normal(size=3)
        u /= np.linalg.norm(u)
        return float(rng.uniform(-0.02, 0.02)) * np.outer(u, u)
    if cls == 'pure-shear':
        r = O.random_rotation(rng)
        g = float(rng.uniform(-0.02, 0.02))
        return g * (np.outer(r[0], r[1]) + np.outer(r[1], r[0]))
    if cls == 'large':
        e = rng.normal(size=(3, 3))
        return (e + e.T) / 2
    raise ValueError(cls)


# --------------------------------------------------------------------------
NU_CLASSES = ('nu=0', 'nu~1e-3', 'nu<1/4', 'nu>1/4', 'nu->1/2')
# at nu = 0 (lambda = 0): (lambda, nu) is 0/0 - every mu fits; (M, E) is the double root E = M of the
# quadratic that separates the nu>0 from the nu<0 branch (branch point of the square root)
UNDEFINED_AT_NU0 = {('lambda', 'nu'), ('M', 'E')}


def iso_truth(rng, nu_class, scale):
    mu = float(scale * rng.uniform(0.5, 2.0))
    if nu_class == 'nu=0':
        nu = 0.0
    elif nu_class == 'nu~1e-3':
        nu = float(10 ** rng.uniform(-4, -2))
    elif nu_class == 'nu<1/4':
        nu = float(rng.uniform(0.02, 0.25))
    elif nu_class == 'nu>1/4':
        nu = float(rng.uniform(0.25, 0.47))
    else:
        nu = float(0.5 - 10 ** rng.uniform(-4, -2))
    lam = 2 * mu * nu / (1 - 2 * nu)
    return lam, mu, nu


def iso_kwargs(moduli, pair, alias, reverse):
    names = list(pair)
    if reverse:
        names.reverse()
    kw = {}
    for n in names:
        kw[O.ISO_ALIAS.get(n, n) if alias else n] = float(moduli[n])
    return kw
