"""Workload generator for C12 (numpy only): stiffness tensors of every crystal
class, Burgers vectors, orientations, m/n axis assignments, field points and
Miller line/plane pairs.  Class choices are functions of the case index;
only the numbers inside a class come from the rng."""
from __future__ import annotations

import itertools

import numpy as np

from ..oracle import c12_volterra as O
from ..oracle import geometry as G

# ----------------------------------------------------------------------------
# point groups (proper rotations) used to symmetrise a random SPD tensor


def _rot(axis, deg):
    a = np.asarray(axis, float)
    a = a / np.linalg.norm(a)
    t = np.radians(deg)
    K = np.array([[0, -a[2], a[1]], [a[2], 0, -a[0]], [-a[1], a[0], 0]])
    return np.eye(3) + np.sin(t) * K + (1 - np.cos(t)) * (K @ K)


def _closure(gens):
    grp = [np.eye(3)]
    changed = True
    while changed:
        changed = False
        for g in list(grp):
            for h in gens:
                c = h @ g
                if not any(np.allclose(c, q, atol=1e-9) for q in grp):
                    grp.append(c)
                    changed = True
    return grp


X, Y, Z = np.eye(3)
GROUPS = {
    'cubic': _closure([_rot(Z, 90), _rot(X, 90), _rot([1, 1, 1], 120)]),          # 24
    'hexagonal': _closure([_rot(Z, 60), _rot(X, 180)]),                           # 12
    'tetragonal6': _closure([_rot(Z, 90), _rot(X, 180)]),                         # 8   (4/mmm: C16 = 0)
    'tetragonal7': _closure([_rot(Z, 90)]),                                       # 4   (4, 4/m: C16 != 0)
    'rhombohedral6': _closure([_rot(Z, 120), _rot(X, 180)]),                      # 6   (3m: C15 = 0)
    'rhombohedral7': _closure([_rot(Z, 120)]),                                    # 3   (3: C15 != 0)
    'orthorhombic': _closure([_rot(Z, 180), _rot(X, 180)]),                       # 4
    'monoclinic': _closure([_rot(Y, 180)]),                                       # 2
    'triclinic': [np.eye(3)],
}
STIFF_CLASSES = list(GROUPS)
assert [len(GROUPS[k]) for k in STIFF_CLASSES] == [24, 12, 8, 4, 6, 3, 4, 2, 1]
SCALES = [1.0, 0.0062415, 160.0]          # GPa-like numbers, eV/A^3-like numbers, large


def iso_c6(lam, mu):
    return O.voigt_from_c4(O.iso_c4(lam, mu))


def random_iso(rng, nu_class):
    """(lam, mu, nu) ; nu classes: 'typical', 'zero', 'negative', 'high'."""
    mu = rng.uniform(0.3, 1.5)
    nu = {'typical': rng.uniform(0.15, 0.4), 'zero': 0.0, 'negative': rng.uniform(-0.6, -0.05),
          'high': rng.uniform(0.45, 0.495)}[nu_class]
    lam = 2 * mu * nu / (1 - 2 * nu)
    return lam, mu, nu


def stiffness(rng, cls, scale=1.0):
    """SPD 6x6 stiffness with exactly the symmetry of ``cls`` (group average of
    a random SPD tensor), eigenvalue ratio >= 0.03."""
    grp = GROUPS[cls]
    for _ in range(200):
        lam, mu, _nu = random_iso(rng, 'typical')
        A = rng.normal(size=(6, 6))
        P = (A + A.T) / 2
        c6 = iso_c6(lam, mu) + rng.uniform(0.25, 0.9) * mu * P / np.abs(np.linalg.eigvalsh(P)).max()
        c4 = O.c4_from_voigt(c6)
        c4 = sum(O.rotate4(c4, g) for g in grp) / len(grp)
        c6 = O.voigt_from_c4(c4)
        c6 = (c6 + c6.T) / 2
        c6[np.abs(c6) < 1e-13] = 0.0
        if O.is_spd6(c6, 0.03):
            return c6 * scale
    raise RuntimeError('no SPD tensor found')


# ----------------------------------------------------------------------------
# m / n axis assignments
MN_CLASSES = ['xy', 'yz', 'zx', 'yx', 'zy', 'xz', 'signed-axes', 'oblique', 'oblique-b', 'letter-array']
_AX = dict(x=X, y=Y, z=Z)


def mn_axes(rng, cls):
    """Returns (m_arg, n_arg, m_vec, n_vec): what is handed to atomman and the
    unit vectors it denotes."""
    if len(cls) == 2 and cls[0] in 'xyz':
        return cls[0], cls[1], _AX[cls[0]].copy(), _AX[cls[1]].copy()
    if cls == 'letter-array':                   # one axis by letter, the other as an array
        a, b = [('x', 'y'), ('y', 'z'), ('z', 'x'), ('y', 'x'), ('z', 'y'), ('x', 'z')][int(rng.integers(0, 6))]
        if rng.random() < 0.5:
            return a, _AX[b].copy(), _AX[a].copy(), _AX[b].copy()
        return _AX[a].tolist(), b, _AX[a].copy(), _AX[b].copy()
    if cls == 'signed-axes':
        perm = list(itertools.permutations(range(3)))[int(rng.integers(0, 6))]
        sm, sn = rng.choice([-1.0, 1.0], 2)
        m, n = sm * np.eye(3)[perm[0]], sn * np.eye(3)[perm[1]]
        return m.copy(), n.copy(), m, n
    R = G.random_rotation(rng)
    m, n = R[0].copy(), R[1].copy()
    if cls == 'oblique-b':                      # lists instead of arrays
        return m.tolist(), n.tolist(), m, n
    return m.copy(), n.copy(), m, n


# ----------------------------------------------------------------------------
BURGERS_STROH = ['screw', 'edge', 'mixed', 'normal', 'general']
BURGERS_ISO = ['screw', 'edge', 'mixed', 'mixed60']


def burgers_frame(rng, cls, m, n):
    """Burgers vector in the dislocation frame (Cartesian components)."""
    xi = np.cross(m, n)
    mag = rng.uniform(0.5, 4.0) * rng.choice([-1.0, 1.0])
    if cls == 'screw':
        return mag * xi
    if cls == 'edge':
        return mag * m
    if cls == 'normal':
        return mag * n
    if cls == 'mixed60':
        return mag * (np.cos(np.pi / 3) * xi + np.sin(np.pi / 3) * m)
    if cls == 'mixed':
        a = rng.uniform(0.2, np.pi - 0.2)
        return mag * (np.cos(a) * xi + np.sin(a) * m)
    v = rng.normal(size=3)
    while min(abs(v @ m), abs(v @ n), abs(v @ xi)) < 0.15 * np.linalg.norm(v):
        v = rng.normal(size=3)
    return mag * v / np.linalg.norm(v)


# ----------------------------------------------------------------------------
ORIENT_CLASSES = ['identity', 'transform', 'axes-unnormalised', 'transform-list']


def orientation(rng, cls):
    """(kwargs for atomman, rotation T with x_disl = T x_crystal)."""
    if cls == 'identity':
        return {}, np.eye(3)
    T = G.random_rotation(rng)
    if cls == 'transform':
        return dict(transform=T.copy()), T
    if cls == 'transform-list':
        return dict(transform=T.tolist()), T
    f = rng.uniform(0.3, 5.0, 3)
    return dict(axes=T * f[:, None]), T


# ----------------------------------------------------------------------------
# field points, built in (m, n, xi) components
RADII20 = np.logspace(-3, 3, 20)
HOSTILE_ANGLES = np.array([0.0, np.pi / 2, -np.pi / 2, np.pi / 4, -3 * np.pi / 4, np.pi - 0.03, -np.pi + 0.03,
                           3 * np.pi / 4, 1e-9, -1e-9])


def to_cart(xyz, m, n):
    xyz = np.asarray(xyz, float)
    return xyz[..., 0:1] * m + xyz[..., 1:2] * n + xyz[..., 2:3] * np.cross(m, n)


def field_points(rng, m, n, npts=40):
    """Off-line, off-cut points: hostile polar angles (axes, quadrant
    diagonals, 0.03 rad from the cut) and random ones; radii over 4 decades;
    arbitrary position along the line.  Returns (pos (N,3), r (N,), theta (N,))."""
    t = np.concatenate([HOSTILE_ANGLES, rng.uniform(-np.pi + 0.03, np.pi - 0.03, npts - len(HOSTILE_ANGLES))])
    r = 10 ** rng.uniform(-2, 2, len(t))
    z = rng.uniform(-10, 10, len(t)) * r
    xyz = np.stack([r * np.cos(t), r * np.sin(t), z], axis=1)
    # exact zeros where the angle says so (x = 0 or y = 0 exactly)
    xyz[1:3, 0] = 0.0
    xyz[0, 1] = 0.0
    return to_cart(xyz, m, n), r, t


def cut_points(rng, m, n):
    """20 radii on the cut half-plane (x<0, y=0) and 20 on its continuation
    (x>0, y=0), plus 20 on other rays: (pos, r, on_cut, normal direction)."""
    r = RADII20 * rng.uniform(0.5, 2.0)
    z = rng.uniform(-3, 3, 20) * r
    neg = to_cart(np.stack([-r, 0 * r, z], axis=1), m, n)
    pos = to_cart(np.stack([r, 0 * r, z], axis=1), m, n)
    return neg, pos, r


def ray_points(rng, m, n, angles):
    """Points on rays at the given polar angles, 20 radii each, with the unit
    tangential direction (direction of increasing angle)."""
    out = []
    for a in angles:
        r = RADII20 * rng.uniform(0.5, 2.0)
        z = rng.uniform(-3, 3, 20) * r
        c, s = np.cos(a), np.sin(a)
        if abs(c) < 1e-15:
            c = 0.0
        if abs(s) < 1e-15:
            s = 0.0
        p = to_cart(np.stack([r * c, r * s, z], axis=1), m, n)
        tang = -s * m + c * n
        out.append((a, p, r, tang))
    return out


# ----------------------------------------------------------------------------
# Miller line / plane pairs
BOX_CLASSES = ['tetragonal', 'orthorhombic', 'hexagonal3', 'hexagonal4', 'cubic', 'monoclinic', 'triclinic', 'rhombohedral']
BOX_STIFF = dict(tetragonal='tetragonal6', orthorhombic='orthorhombic', hexagonal3='hexagonal', hexagonal4='hexagonal',
                 cubic='cubic', monoclinic='monoclinic', triclinic='triclinic', rhombohedral='rhombohedral6')
# hostile pairs where the direct-lattice direction [hkl] is also perpendicular to the line
FIXED_PAIRS = {
    'tetragonal': [((1, 0, 1), (0, 1, 0)), ((0, 1, 1), (1, 0, 0)), ((1, 1, 2), (1, -1, 0))],
    'orthorhombic': [((1, 1, 0), (0, 0, 1)), ((0, 1, 1), (1, 0, 0)), ((1, 0, 1), (0, 1, 0))],
    # (the prism plane with the line along c is elastically degenerate: it is placed where the isotropic solver's turn comes)
    'hexagonal3': [((1, 0, 0), (0, 0, 1)), ((1, 0, 1), (0, 1, 0)), ((0, 0, 1), (1, 0, 0)), ((1, 1, 2), (1, -1, 0))],
    'hexagonal4': [((1, 0, 1), (0, 1, 0)), ((0, 0, 1), (1, 0, 0)), ((1, 0, 0), (0, 0, 1)), ((1, 1, 2), (1, -1, 0))],
    'cubic': [((1, 1, 1), (1, -1, 0)), ((1, 1, 0), (1, -1, 1))],
    'monoclinic': [((1, 0, 1), (0, 1, 0)), ((1, 1, 0), (0, 0, 1))],
    'triclinic': [((1, 1, 0), (0, 0, 1)), ((1, 0, 1), (0, 1, 0))],
    'rhombohedral': [((1, 1, 0), (0, 0, 1)), ((1, 0, -1), (1, 1, 1))],
}
assert all(np.dot(h, u) == 0 for v in FIXED_PAIRS.values() for h, u in v)


def random_pair(rng):
    """Small coprime (hkl) and [uvw] with h u + k v + l w = 0."""
    while True:
        hkl = rng.integers(-3, 4, 3)
        if not hkl.any() or np.gcd.reduce(hkl) != 1:
            continue
        a = rng.integers(-3, 4, 3)
        uvw = np.cross(hkl, a)
        if not uvw.any():
            continue
        uvw = uvw // np.gcd.reduce(uvw)
        if np.abs(uvw).max() <= 6:
            return tuple(int(q) for q in hkl), tuple(int(q) for q in uvw)


def inplane_vectors(hkl, uvw):
    """A second integer in-plane lattice direction (h.w = 0, not parallel to uvw)."""
    hkl, uvw = np.asarray(hkl), np.asarray(uvw)
    for a in itertools.product(range(-2, 3), repeat=3):
        w = np.cross(hkl, a)
        if w.any() and np.cross(w, uvw).any():
            return w // np.gcd.reduce(w)
    raise RuntimeError


def box_for(rng, cls):
    """(constructor name, kwargs, vects in atomman's standard orientation)."""
    a = rng.uniform(2.5, 4.5)
    b = a * rng.uniform(1.2, 1.6)
    c = a * rng.uniform(1.65, 2.3)
    if cls == 'cubic':
        p = dict(a=a, b=a, c=a, alpha=90.0, beta=90.0, gamma=90.0)
        ctor = ('cubic', dict(a=a))
    elif cls == 'tetragonal':
        p = dict(a=a, b=a, c=c, alpha=90.0, beta=90.0, gamma=90.0)
        ctor = ('tetragonal', dict(a=a, c=c))
    elif cls == 'orthorhombic':
        p = dict(a=a, b=b, c=c, alpha=90.0, beta=90.0, gamma=90.0)
        ctor = ('orthorhombic', dict(a=a, b=b, c=c))
    elif cls in ('hexagonal3', 'hexagonal4'):
        p = dict(a=a, b=a, c=c, alpha=90.0, beta=90.0, gamma=120.0)
        ctor = ('hexagonal', dict(a=a, c=c))
    elif cls == 'monoclinic':
        be = rng.uniform(98, 122)
        p = dict(a=a, b=b, c=c, alpha=90.0, beta=be, gamma=90.0)
        ctor = ('monoclinic', dict(a=a, b=b, c=c, beta=be))
    elif cls == 'rhombohedral':
        al = rng.uniform(55, 80)
        p = dict(a=a, b=a, c=a, alpha=al, beta=al, gamma=al)
        ctor = ('trigonal', dict(a=a, alpha=al))
    else:
        while True:
            al, be, ga = rng.uniform(60, 120, 3)
            if G.realisable(al, be, ga, 0.3):
                break
        p = dict(a=a, b=b, c=c, alpha=al, beta=be, gamma=ga)
        ctor = ('triclinic', dict(a=a, b=b, c=c, alpha=al, beta=be, gamma=ga))
    vects = G.vects_from_lammps(*G.lammps_from_abc(**p))
    return ctor, vects
