"""Workload generator for C12 (numpy only): stiffness tensors of every crystal
class, Burgers vectors, orientations, m/n axis assignments, field points and
Miller line/plane pairs.  Class choices are functions of the case index;
only the numbers inside a class come from the rng."""
from __future__ import annotations

import itertools

import numpy as np

from ..oracle import c12_volterra as O
from ..oracle import geometry as G

# ----------------------------------------------------------------------------
# point groups (proper rotations) used to symmetrise a random SPD tensor


def _rot(axis, deg):
    a = np.asarray(axis, float)
    a = a / np.linalg.norm(a)
    t = np.radians(deg)
    K = np.array([[0, -a[2], a[1]], [a[2], 0, -a[0]], [-a[1], a[0], 0]])
    return np.eye(3) + np.sin(t) * K + (1 - np.cos(t)) * (K @ K)


def _closure(gens):
    grp = [np.eye(3)]
    changed = True
    while changed:
        changed = False
        for g in list(grp):
            for h in gens:
                c = h @ g
                if not any(np.allclose(c, q, atol=1e-9) for q in grp):
                    grp.append(c)
                    changed = True
    return grp


X, Y, Z = np.eye(3)
GROUPS = {
    'cubic': _closure([_rot(Z, 90), _rot(X, 90), _rot([1, 1, 1], 120)]),          # 24
    'hexagonal': _closure([_rot(Z, 60), _rot(X, 180)]),                           # 12
    'tetragonal6': _closure([_rot(Z, 90), _rot(X, 180)]),                         # 8   (4/mmm: C16 = 0)
    'tetragonal7': _closure([_rot(Z, 90)]),                                       # 4   (4, 4/m: C16 != 0)
    'rhombohedral6': _closure([_rot(Z, 120), _rot(X, 180)]),                      # 6   (3m: C15 = 0)
    'rhombohedral7': _closure([_rot(Z, 120)]),                                    # 3   (3: C15 != 0)
    'orthorhombic': _closure([_rot(Z, 180), _rot(X, 180)]),                       # 4
    'monoclinic': _closure([_rot(Y, 180)]),                                       # 2
    'triclinic': [np.eye(3)],
}
STIFF_CLASSES = list(GROUPS)
assert [len(GROUPS[k]) for k in STIFF_CLASSES] == [24, 12, 8, 4, 6, 3, 4, 2, 1]
SCALES = [1.0, 0.0062415, 160.0]          # GPa-like numbers, eV/A^3-like numbers, large


def iso_c6(lam, mu):
    return O.voigt_from_c4(O.iso_c4(lam, mu))


def random_iso(rng, nu_class):
    """(lam, mu, nu) ; nu classes: 'typical', 'zero', 'negative', 'high'."""
    mu = rng.uniform(0.3, 1.5)
    nu = {'typical': rng.uniform(0.15, 0.4), 'zero': 0.0, 'negative': rng.uniform(-0.6, -0.05),
          'high': rng.uniform(0.45, 0.495)}[nu_class]
    lam = 2 * mu * nu / (1 - 2 * nu)
    return lam, mu, nu


def stiffness(rng, cls, scale=1.0):
    """SPD 6x6 stiffness with exactly the symmetry of ``cls`` (group average of
    a random SPD tensor), eigenvalue ratio >= 0.03."""
    grp = GROUPS[cls]
    for _ in range(200):
        lam, mu, _nu = random_iso(rng, 'typical')
        A = rng.normal(size=(6, 6))
        P = (A + A.T) / 2
        c6 = iso_c6(lam, mu) + rng.uniform(0.25, 0.9) * mu * P / np.abs(np.linalg.eigvalsh(P)).max()
        c4 = O.c4_from_voigt(c6)
        c4 = sum(O.rotate4(c4, g) for g in grp) / len(grp)
        c6 = O.voigt_from_c4(c4)
        c6 = (c6 + c6.T) / 2
        c6[np.abs(c6) < 1e-13] = 0.0
        if O.is_spd6(c6, 0.03):
            return c6 * scale
    raise RuntimeError('no SPD tensor found')


# ----------------------------------------------------------------------------
# m / n axis assignments
MN_CLASSES = ['xy', 'yz', 'zx', 'yx', 'zy', 'xz', 'signed-axes', 'oblique', 'oblique-b', 'letter-array']
_AX = dict(x=X, y=Y, z=Z)


def mn_axes(rng, cls):
    """Returns (m_arg, n_arg, m_vec, n_vec): what is handed to atomman and the
    unit vectors it denotes."""
    if len(cls) == 2 and cls[0] in 'xyz':
        return cls[0], cls[1], _AX[cls[0]].copy(), _AX[cls[1]].copy()
    if cls == 'letter-array':                   # one axis by letter, the other as an array
        a, b = [('x', 'y'), ('y', 'z'), ('z', 'x'), ('y', 'x'), ('z', 'y'), ('x', 'z')][int(rng.integers(0, 6))]
        if rng.random() < 0.5:
            return a, _AX[b].copy(), _AX[a].copy(), _AX[b].copy()
        return _AX[a].tolist(), b, _AX[a].copy(), _AX[b].copy()
    if cls == 'signed-axes':
        perm = list(itertools.permutations(range(3)))[int(rng.integers(0, 6))]
        sm, sn = rng.choice([-1.0, 1.0], 2)
        m, n = sm * np.eye(3)[perm[0]], sn * np.eye(3)[perm[1]]
        return m.copy(), n.copy(), m, n
    R = G.random_rotation(rng)
    m, n = R[0].copy(), R[1].copy()
    if cls == 'oblique-b':                      # lists instead of arrays
        return m.tolist(), n.tolist(), m, n
    return m.copy(), n.copy(), m, n


# ----------------------------------------------------------------------------
BURGERS_STROH = ['screw', 'edge', 'mixed', 'normal', 'general']
BURGERS_ISO = ['screw', 'edge', 'mixed', 'mixed60']


def burgers_frame(rng, cls, m, n):
    """Burgers vector in the dislocation frame (Cartesian components)."""
    xi = np.cross(m, n)
    mag = rng.uniform(0.5, 4.0) * rng.choice([-1.0, 1.0])
    if cls == 'screw':
        return mag * xi
    if cls == 'edge':
        return mag * m
    if cls == 'normal':
        return mag * n
    if cls == 'mixed60':
        return mag * (np.cos(np.pi / 3) * xi + np.sin(np.pi / 3) * m)
    if cls == 'mixed':
        a = rng.uniform(0.2, np.pi - 0.2)
        return mag * (np.cos(a) * xi + np.sin(a) * m)
    v = rng.normal(size=3)
    while min(abs(v @ m), abs(v @ n), abs(v @ xi)) < 0.15 * np.linalg.norm(v):
        v = rng.normal(size=3)
    return mag * v / np.linalg.norm(v)


# ----------------------------------------------------------------------------
ORIENT_CLASSES = ['identity', 'transform', 'axes-unnormalised', 'transform-list']


def orientation(rng, cls):
    """(kwargs for atomman, rotation T with x_disl = T x_crystal)."""
    if cls == 'identity':
        return {}, np.eye(3)
    T = G.random_rotation(rng)
    if cls == 'transform':
        return dict(transform=T.copy()), T
    if cls == 'transform-list':
        return dict(transform=T.tolist()), T
    f = rng.uniform(0.3, 5.0, 3)
    return dict(axes=T * f[:, None]), T


# ----------------------------------------------------------------------------
# field points, built in (m, n, xi) components
RADII20 = np.logspace(-3, 3, 20)
HOSTILE_ANGLES = np.array([0.0, np.pi / 2, -np.pi / 2, np.pi / 4, -3 * np.pi / 4, np.pi - 0.03, -np.pi + 0.03,
                           3 * np.pi / 4, 1e-9, -1e-9])


def to_cart(xyz, m, n):
    xyz = np.asarray(xyz, float)
    return xyz[..., 0:1] * m + xyz[..., 1:2] * n + xyz[..., 2:3] * np.cross(m, n)


def field_points(rng, m, n, npts=40):
    """Off-line, off-cut points: hostile polar angles (axes, quadrant
    diagonals, 0.03 rad from the cut) and random ones; radii over 4 decades;
    arbitrary position along the line.  Returns (pos (N,3), r (N,), theta (N,))."""
    t = np.concatenate([HOSTILE_ANGLES, rng.uniform(-np.pi + 0.03, np.pi - 0.03, npts - len(HOSTILE_ANGLES))])
    r = 10 ** rng.uniform(-2, 2, len(t))
    z = rng.uniform(-10, 10, len(t)) * r
    xyz = np.stack([r * np.cos(t), r * np.sin(t), z], axis=1)
    # exact zeros where the angle says so (x = 0 or y = 0 exactly)
    xyz[1:3, 0] = 0.0
    xyz[0, 1] = 0.0
    return to_cart(xyz, m, n), r, t


def cut_points(rng, m, n):
    """20 radii on the cut half-plane (x<0, y=0) and 20 on its continuation
    (x>0, y=0), plus 20 on other rays: (pos, r, on_cut, normal direction)."""
    r = RADII20 * rng.uniform(0.5, 2.0)
    z = rng.uniform(-3, 3, 20) * r
    neg = to_cart(np.stack([-r, 0 * r, z], axis=1), m, n)
    pos = to_cart(np.stack([r, 0 * r, z], axis=1), m, n)
    return neg, pos, r


def ray_points(rng, m, n, angles):
    """Points on rays at the given polar angles, 20 radii each, with the unit
    tangential direction (direction of increasing angle)."""
    out = []
    for a in angles:
        r = RADII20 * rng.uniform(0.5, 2.0)
        z = rng.uniform(-3, 3, 20) * r
        c, s = np.cos(a), np.sin(a)
        if abs(c) < 1e-15:
            c = 0.0
        if abs(s) < 1e-15:
            s = 0.0
        p = to_cart(np.stack([r * c, r * s, z], axis=1), m, n)
        tang = -s * m + c * n
        out.append((a, p, r, tang))
    return out


# ----------------------------------------------------------------------------
# Miller line / plane pairs
BOX_CLASSES = ['tetragonal', 'orthorhombic', 'hexagonal3', 'hexagonal4', 'cubic', 'monoclinic', 'triclinic', 'rhombohedral']
BOX_STIFF = dict(tetragonal='tetragonal6', orthorhombic='orthorhombic', hexagonal3='hexagonal', hexagonal4='hexagonal',
                 cubic='cubic', monoclinic='monoclinic', triclinic='triclinic', rhombohedral='rhombohedral6')
# hostile pairs where the direct-lattice direction [hkl] is also perpendicular to the line
FIXED_PAIRS = {
    'tetragonal': [((1, 0, 1), (0, 1, 0)), ((0, 1, 1), (1, 0, 0)), ((1, 1, 2), (1, -1, 0))],
    'orthorhombic': [((1, 1, 0), (0, 0, 1)), ((0, 1, 1), (1, 0, 0)), ((1, 0, 1), (0, 1, 0))],
    # (the prism plane with the line along c is elastically degenerate: it is placed where the isotropic solver's turn comes)
    'hexagonal3': [((1, 0, 0), (0, 0, 1)), ((1, 0, 1), (0, 1, 0)), ((0, 0, 1), (1, 0, 0)), ((1, 1, 2), (1, -1, 0))],
    'hexagonal4': [((1, 0, 1), (0, 1, 0)), ((0, 0, 1), (1, 0, 0)), ((1, 0, 0), (0, 0, 1)), ((1, 1, 2), (1, -1, 0))],
    'cubic': [((1, 1, 1), (1, -1, 0)), ((1, 1, 0), (1, -1, 1))],
    'monoclinic': [((1, 0, 1), (0, 1, 0)), ((1, 1, 0), (0, 0, 1))],
    'triclinic': [((1, 1, 0), (0, 0, 1)), ((1, 0, 1), (0, 1, 0))],
    'rhombohedral': [((1, 1, 0), (0, 0, 1)), ((1, 0, -1), (1, 1, 1))],
}
assert all(np.dot(h, u) == 0 for v in FIXED_PAIRS.values() for h, u in v)


def random_pair(rng):
    """Small coprime (hkl) and [uvw] with h u + k v + l w = 0."""
    while True:
        hkl = rng.integers(-3, 4, 3)
        if not hkl.any() or np.gcd.reduce(hkl) != 1:
            continue
        a = rng.integers(-3, 4, 3)
        uvw = np.cross(hkl, a)
        if not uvw.any():
            continue
        uvw = uvw // np.gcd.reduce(uvw)
        if np.abs(uvw).max() <= 6:
            return tuple(int(q) for q in hkl), tuple(int(q) for q in uvw)


def inplane_vectors(hkl, uvw):
    """A second integer in-plane lattice direction (h.w = 0, not parallel to uvw)."""
    hkl, uvw = np.asarray(hkl), np.asarray(uvw)
    for a in itertools.product(range(-2, 3), repeat=3):
        w = np.cross(hkl, a)
        if w.any() and np.cross(w, uvw).any():
            return w // np.gcd.reduce(w)
    raise RuntimeError


def box_for(rng, cls):
    """(constructor name, kwargs, vects in atomman's standard orientation)."""
    a = rng.uniform(2.5, 4.5)
    b = a * rng.uniform(1.2, 1.6)
    c = a * rng.uniform(1.65, 2.3)
    if cls == 'cubic':
        p = dict(a=a, b=a, c=a, alpha=90.0, beta=90.0, gamma=90.0)
        ctor = ('cubic', dict(a=a))
    elif cls == 'tetragonal':
        p = dict(a=a, b=a, c=c, alpha=90.0, beta=90.0, gamma=90.0)
        ctor = ('tetragonal', dict(a=a, c=c))
    elif cls == 'orthorhombic':
        p = dict(a=a, b=b, c=c, alpha=90.0, beta=90.0, gamma=90.0)
        ctor = ('orthorhombic', dict(a=a, b=b, c=c))
    elif cls in ('hexagonal3', 'hexagonal4'):
        p = dict(a=a, b=a, c=c, alpha=90.0, beta=90.0, gamma=120.0)
        ctor = ('hexagonal', dict(a=a, c=c))
    elif cls == 'monoclinic':
        be = rng.uniform(98, 122)
        p = dict(a=a, b=b, c=c, alpha=90.0, beta=be, gamma=90.0)
        ctor = ('monoclinic', dict(a=a, b=b, c=c, beta=be))
    elif cls == 'rhombohedral':
        al = rng.uniform(55, 80)
        p = dict(a=a, b=a, c=a, alpha=al, beta=al, gamma=al)
        ctor = ('trigonal', dict(a=a, alpha=al))
    else:
        while True:
            al, be, ga = rng.uniform(60, 120, 3)
            if G.realisable(al, be, ga, 0.3):
                break
        p = dict(a=a, b=b, c=c, alpha=al, beta=be, gamma=ga)
        ctor = ('triclinic', dict(a=a, b=b, c=c, alpha=al, beta=be, gamma=ga))
    vects = G.vects_from_lammps(*G.lammps_from_abc(**p))
    return ctor, vects


# ----------------------------------------------------------------------------
# re-solve histories: ONE solution object, solved 2-4 times in succession
#
# A *state* is the full description of one problem as the user states it:
#   stiff  : dict(c6, cls, scale [, lam, mu, nu, how])          (crystal frame)
#   orient : dict(kind='identity'|'transform'|'axes-unnormalised'|'transform-list', T, okw)
#            or dict(kind='miller', box_cls, ctor, vects, hkl, uvw, four)
#   mn     : dict(cls, m_arg, n_arg, m, n)     cls 'default' = arguments omitted (m='x', n='y')
#   b      : dict(cls, cart)  crystal Cartesian vector  |  dict(cls, uvw) lattice coordinates (Miller orientation)
# A *history* = start orientation kind + 1..3 changes; each change alters one argument of solve()
# ('refused' is not a change of state: the harness calls solve() with a medium the solver rejects and goes on).
# (where the isotropic model's in-plane condition b.n = 0 cannot survive the change the Burgers
# vector is regenerated in the same class; that is counted).
NU_CLASSES = ['typical', 'zero', 'negative', 'high']
HIST_TEMPLATES = [
    ('transform', ('burgers',)),
    ('transform', ('C', 'burgers', 'mn')),
    ('axes-unnormalised', ('orient', 'C')),
    ('identity', ('to-transform', 'mn', 'to-identity')),
    ('miller', ('miller', 'burgers', 'mn-default')),
    ('miller', ('box', 'C')),
    ('transform-list', ('to-miller', 'burgers-negated', 'miller')),
    ('miller', ('to-transform', 'mn', 'C')),
    ('transform', ('mn', 'mn-default', 'orient')),
    ('identity', ('C', 'to-miller', 'box')),
    ('transform', ('burgers-negated', 'to-identity')),
    ('miller', ('mn', 'to-identity', 'burgers')),
    ('transform', ('refused', 'burgers', 'C')),           # 'refused' = a solve() call the solver rejects (ValueError) between two good ones
    ('miller', ('refused', 'mn')),
]
HIST_CHANGES = sorted({c for _s, ch in HIST_TEMPLATES for c in ch if c != 'refused'})
HIST_READS = ['none', 'u', 'strain', 'stress', 'K', 'preln', 'single']
BOX3 = [c for c in BOX_CLASSES if c != 'hexagonal4']
_TKINDS = ['transform', 'axes-unnormalised', 'transform-list']


def template_has_miller(k):
    start, ch = HIST_TEMPLATES[k]
    return start == 'miller' or any(c in ('to-miller', 'miller', 'box') for c in ch)


def uvtw_float(uvw):
    """Miller-Bravais components of the direction u a1 + v a2 + w c (any real u, v, w):
    U = (2u-v)/3, V = (2v-u)/3, T = -(U+V), W = w."""
    u, v, w = (float(q) for q in uvw)
    return np.array([(2 * u - v) / 3, (2 * v - u) / 3, -(u + v) / 3, w])


def rot_a_to_b(a, b):
    """Proper rotation taking unit vector a to unit vector b (about a x b)."""
    a, b = O.unit(a), O.unit(b)
    ax = np.cross(a, b)
    s, c = np.linalg.norm(ax), float(np.dot(a, b))
    if s < 1e-12:
        if c > 0:
            return np.eye(3)
        p = O.unit(np.cross(a, [1.0, 0, 0] if abs(a[0]) < 0.9 else [0, 1.0, 0]))
        return _rot(p, 180.0)
    return _rot(ax / s, np.degrees(np.arctan2(s, c)))


def _orient_from_T(rng, kind, T):
    if kind == 'identity':
        return dict(kind=kind, T=np.eye(3), okw={})
    if kind == 'transform':
        return dict(kind=kind, T=T, okw=dict(transform=T.copy()))
    if kind == 'transform-list':
        return dict(kind=kind, T=T, okw=dict(transform=T.tolist()))
    f = rng.uniform(0.3, 5.0, 3)
    return dict(kind=kind, T=T, okw=dict(axes=T * f[:, None]))


def _mn_state(rng, cls):
    if cls == 'default':
        return dict(cls=cls, m_arg=None, n_arg=None, m=X.copy(), n=Y.copy())
    m_arg, n_arg, m, n = mn_axes(rng, cls)
    return dict(cls=cls, m_arg=m_arg, n_arg=n_arg, m=m, n=n)


def _mn_perp_to(rng, cls, b_d):
    """Oblique m, n with n perpendicular to b_d (isotropic model: b stays in the slip plane)."""
    while True:
        n = np.cross(b_d, rng.normal(size=3))
        if np.linalg.norm(n) > 0.2 * np.linalg.norm(b_d):
            break
    n = O.unit(n)
    m = O.unit(np.cross(n, rng.normal(size=3)))
    m = O.unit(m - (m @ n) * n)
    if cls == 'oblique-b':
        return dict(cls=cls, m_arg=m.tolist(), n_arg=n.tolist(), m=m, n=n)
    return dict(cls=cls, m_arg=m.copy(), n_arg=n.copy(), m=m, n=n)


def _stiff_state(rng, solver, k, scale):
    if solver == 'iso':
        cls = NU_CLASSES[k % 4]
        lam, mu, nu = random_iso(rng, cls)
        lam, mu = lam * scale, mu * scale
        return dict(cls=cls, k=k, scale=scale, c6=iso_c6(lam, mu), lam=lam, mu=mu, nu=nu, how=k % 3)
    cls = STIFF_CLASSES[k % len(STIFF_CLASSES)]
    return dict(cls=cls, k=k, scale=scale, c6=stiffness(rng, cls, scale), how=k % 2)


def _miller_orient(rng, box_cls, pair=None):
    ctor, vects = box_for(rng, box_cls)
    if pair is None:
        fixed = FIXED_PAIRS[box_cls]
        pair = fixed[int(rng.integers(0, len(fixed)))] if rng.random() < 0.3 else random_pair(rng)
    hkl, uvw = pair
    return dict(kind='miller', box_cls=box_cls, ctor=ctor, vects=vects, hkl=tuple(hkl), uvw=tuple(uvw), four=box_cls == 'hexagonal4')


def _miller_burgers(rng, cls, hkl, uvw):
    """Burgers vector in lattice coordinates: along the line, in the plane, or a general half-integer lattice vector."""
    uvw = np.asarray(uvw, float)
    w2 = np.asarray(inplane_vectors(hkl, uvw), float)
    sgn = rng.choice([-1.0, 1.0])
    if cls == 'screw':
        return sgn * uvw * rng.choice([0.5, 1.0, 1 / 3])
    if cls == 'edge':
        return sgn * w2 * rng.choice([0.5, 1.0])
    if cls in ('mixed', 'mixed60'):
        return sgn * (w2 * rng.choice([0.5, 1.0]) + 0.5 * uvw)
    b = rng.integers(-2, 3, 3).astype(float)
    if not b.any():
        b = np.array([1.0, 0, 1.0])
    return b / 2


def hist_expected(st):
    """Oracle-side meaning of a state: rotation crystal -> dislocation frame, stiffness and
    Burgers vector in that frame."""
    m, n = st['mn']['m'], st['mn']['n']
    o = st['orient']
    if o['kind'] == 'miller':
        T = O.frame_to_mn(O.miller_frame(o['vects'], o['uvw'], o['hkl']), m, n)
        b_cart = np.asarray(st['b']['uvw'], float) @ o['vects']
    else:
        T = np.asarray(o['T'], float)
        b_cart = np.asarray(st['b']['cart'], float)
    return dict(T=T, m=m, n=n, c4=O.rotate4(O.c4_from_voigt(st['stiff']['c6']), T), b=T @ b_cart, b_cart=b_cart)


def _set_b_cart(st, b_cart):
    """Store a crystal-Cartesian Burgers vector the way the state's orientation states it."""
    o = st['orient']
    if o['kind'] == 'miller':
        st['b'] = dict(cls=st['b']['cls'], uvw=np.linalg.solve(o['vects'].T, b_cart))
    else:
        st['b'] = dict(cls=st['b']['cls'], cart=np.asarray(b_cart, float).copy())


def _new_burgers(rng, st, solver, cls, ls):
    o = st['orient']
    if o['kind'] == 'miller':
        st['b'] = dict(cls=cls, uvw=_miller_burgers(rng, cls, o['hkl'], o['uvw']))
    else:
        b_d = burgers_frame(rng, cls, st['mn']['m'], st['mn']['n']) * ls
        st['b'] = dict(cls=cls, cart=o['T'].T @ b_d)


def _conditioned(st, solver, gap_min, im_min):
    if solver != 'stroh':
        return True
    e = hist_expected(st)
    gap, im = O.root_gap(e['c4'], e['m'], e['n'])
    return gap >= gap_min and im >= im_min


def _inplane(st):
    e = hist_expected(st)
    return abs(e['b'] @ e['n']) <= 1e-9 * np.linalg.norm(e['b'])


def hist_start(rng, solver, start_kind, k, scale, ls, gap_min, im_min, count):
    """Initial state of history number k."""
    import copy
    b_classes = BURGERS_ISO if solver == 'iso' else BURGERS_STROH
    for attempt in range(80):
        st = dict(solver=solver, ls=ls)
        st['stiff'] = _stiff_state(rng, solver, k if attempt < 40 else 8, scale)       # 8 = triclinic
        st['mn'] = _mn_state(rng, MN_CLASSES[k % len(MN_CLASSES)])
        if start_kind == 'miller':
            st['orient'] = _miller_orient(rng, BOX_CLASSES[k % len(BOX_CLASSES)])
        else:
            st['orient'] = _orient_from_T(rng, start_kind, G.random_rotation(rng))
        st['b'] = dict(cls=b_classes[k % len(b_classes)])
        _new_burgers(rng, st, solver, st['b']['cls'], ls)
        if _conditioned(st, solver, gap_min, im_min):
            return copy.deepcopy(st)
        count('resolve:resampled-near-degenerate')
    raise RuntimeError('no well-separated start problem')


def hist_step(rng, st0, change, j, gap_min, im_min, count):
    """State after one change.  j = deterministic variety index (case number + step)."""
    import copy
    solver, ls = st0['solver'], st0['ls']
    b_classes = BURGERS_ISO if solver == 'iso' else BURGERS_STROH
    for attempt in range(80):
        st = copy.deepcopy(st0)
        e0 = hist_expected(st0)
        o = st['orient']
        if attempt >= 40 and solver == 'stroh' and change not in ('burgers', 'burgers-negated'):
            st['stiff'] = _stiff_state(rng, solver, 8, st0['stiff']['scale'])            # structurally degenerate combination
        if change == 'C':
            st['stiff'] = _stiff_state(rng, solver, st0['stiff']['k'] + 1 + j % 3 if attempt < 40 else 8, st0['stiff']['scale'])
        elif change == 'burgers':
            cls = b_classes[(b_classes.index(st0['b']['cls']) + 1 + j % (len(b_classes) - 1)) % len(b_classes)]
            _new_burgers(rng, st, solver, cls, ls)
        elif change == 'burgers-negated':
            key = 'uvw' if 'uvw' in st['b'] else 'cart'
            st['b'][key] = -np.asarray(st['b'][key], float)
        elif change == 'mn':
            cls = MN_CLASSES[(MN_CLASSES.index(st0['mn']['cls']) + 1 + j % 7) % len(MN_CLASSES)] if st0['mn']['cls'] in MN_CLASSES \
                else MN_CLASSES[(1 + j) % len(MN_CLASSES)]
            if solver == 'iso' and o['kind'] != 'miller' and cls in ('oblique', 'oblique-b'):
                st['mn'] = _mn_perp_to(rng, cls, e0['b'])
            else:
                st['mn'] = _mn_state(rng, cls)
        elif change == 'mn-default':
            st['mn'] = _mn_state(rng, 'default')
        elif change == 'orient':
            assert o['kind'] in _TKINDS
            kind = _TKINDS[(_TKINDS.index(o['kind']) + 1 + j % 2) % 3]
            if solver == 'iso':       # keep b (crystal frame) fixed and in the slip plane: T' = R_n(phi) T S_b(psi)
                T = _rot(e0['n'], rng.uniform(20, 340)) @ e0['T'] @ _rot(e0['b_cart'], rng.uniform(20, 340))
            else:
                T = G.random_rotation(rng)
            st['orient'] = _orient_from_T(rng, kind, T)
        elif change == 'to-transform':
            kind = _TKINDS[j % 3]
            T = G.random_rotation(rng)
            if solver == 'iso':       # rotate so that the (unchanged) crystal-frame Burgers vector lies in the slip plane
                v = T @ e0['b_cart']
                tgt = v - (v @ e0['n']) * e0['n']
                if np.linalg.norm(tgt) < 0.2 * np.linalg.norm(v):
                    continue
                T = rot_a_to_b(v, tgt) @ T
            st['orient'] = _orient_from_T(rng, kind, T)
            st['b'] = dict(cls=st0['b']['cls'], cart=e0['b_cart'].copy())
        elif change == 'to-identity':
            st['orient'] = _orient_from_T(rng, 'identity', np.eye(3))
            st['b'] = dict(cls=st0['b']['cls'], cart=e0['b_cart'].copy())
        elif change == 'to-miller':
            st['orient'] = _miller_orient(rng, BOX_CLASSES[j % len(BOX_CLASSES)])
            _set_b_cart(st, e0['b_cart'])
        elif change == 'miller':
            assert o['kind'] == 'miller'
            new = _miller_orient(rng, o['box_cls'])
            st['orient'] = dict(o, hkl=new['hkl'], uvw=new['uvw'])            # same cell, new line / plane
        elif change == 'box':
            assert o['kind'] == 'miller'
            box_cls = 'hexagonal4' if o['four'] else BOX3[(BOX3.index(o['box_cls']) + 1 + j % 5) % len(BOX3)]
            ctor, vects = box_for(rng, box_cls)
            st['orient'] = dict(o, box_cls=box_cls, ctor=ctor, vects=vects)   # new cell, same indices, same lattice coordinates of b
        else:
            raise KeyError(change)
        if solver == 'iso' and not _inplane(st):
            _new_burgers(rng, st, solver, st['b']['cls'], ls)
            if attempt == 0:
                count('resolve:iso:burgers-regenerated-in-plane')
        if _conditioned(st, solver, gap_min, im_min):
            if attempt >= 40 and solver == 'stroh':
                count('resolve:degenerate-stiffness-replaced')
            return st
        count('resolve:resampled-near-degenerate')
    raise RuntimeError('no well-separated problem for change ' + change)


def hist_args(st):
    """What is handed to atomman for a state (numpy / plain python only): (stiffness description,
    Burgers argument, keyword description).  Every call returns fresh copies."""
    o = st['orient']
    kw = {}
    if o['kind'] == 'miller':
        xi, hkl = np.array(o['uvw']), np.array(o['hkl'])
        b = np.asarray(st['b']['uvw'], float).copy()
        if o['four']:
            xi, hkl, b = O.uvtw_from_uvw(o['uvw']), O.hkil_from_hkl(o['hkl']), uvtw_float(b)
        kw.update(ξ_uvw=xi, slip_hkl=hkl, box=dict(ctor=o['ctor']))
    else:
        b = np.asarray(st['b']['cart'], float).copy()
        for k_, v_ in o['okw'].items():
            kw[k_] = [list(r) for r in v_] if isinstance(v_, list) else np.array(v_)
    mn = st['mn']
    if mn['cls'] != 'default':
        for k_ in ('m', 'n'):
            a = mn[k_ + '_arg']
            kw[k_] = a if isinstance(a, str) else (list(a) if isinstance(a, list) else np.array(a))
    return dict(st['stiff']), b, kw


# ----------------------------------------------------------------------------
# presentations of the REFERENCE orientation (transform = identity) and of a rotation that maps the stiffness onto itself:
# every way the caller can say "no rotation" - nothing, an explicit identity as array / list / un-normalised axes, Miller
# indices [001]/(010) with m='x', n='y' in a cell whose axes are the Cartesian ones - and a symmetry operation of the crystal.
# In all of them the rotated stiffness has the numbers of the stiffness handed in.
IDENT_CLASSES = ['none', 'transform-eye', 'transform-eye-list', 'axes-scaled-eye', 'transform-eye-int', 'miller-cubic-unit', 'miller-cubic-a',
                 'miller-orthorhombic', 'symmetry-rotation']
_SYM_ROT = [np.round(_rot(a_, d_), 12) + 0.0 for a_, d_ in ((Z, 90), (Z, 180), (X, 90), (Y, -90), (np.array([1.0, 1.0, 1.0]), 120))]


def identity_presentation(rng, cls, k=0):
    """-> dict(okw = orientation keywords for atomman (box as dict(ctor=...)), T = rotation crystal -> dislocation frame,
    vects = cell vectors or None (then Burgers vectors are Cartesian), mn_fixed = True when m='x', n='y' is part of the presentation,
    stiff = stiffness class the presentation needs or None)."""
    if cls == 'none':
        return dict(okw={}, T=np.eye(3), vects=None, mn_fixed=False, stiff=None)
    if cls == 'transform-eye':
        return dict(okw=dict(transform=np.eye(3)), T=np.eye(3), vects=None, mn_fixed=False, stiff=None)
    if cls == 'transform-eye-list':
        return dict(okw=dict(transform=[[1.0, 0.0, 0.0], [0.0, 1.0, 0.0], [0.0, 0.0, 1.0]]), T=np.eye(3), vects=None, mn_fixed=False, stiff=None)
    if cls == 'transform-eye-int':
        return dict(okw=dict(transform=np.eye(3, dtype=int)), T=np.eye(3), vects=None, mn_fixed=False, stiff=None)
    if cls == 'axes-scaled-eye':
        return dict(okw=dict(axes=np.diag(rng.uniform(0.3, 5.0, 3))), T=np.eye(3), vects=None, mn_fixed=False, stiff=None)
    if cls.startswith('miller'):
        a = 1.0 if cls == 'miller-cubic-unit' else float(rng.uniform(2.5, 4.5))
        if cls == 'miller-orthorhombic':
            b, c = a * rng.uniform(1.2, 1.6), a * rng.uniform(1.65, 2.3)
            ctor = ('orthorhombic', dict(a=a, b=float(b), c=float(c)))
            vects = np.diag([a, b, c])
        else:
            ctor = ('cubic', dict(a=a))
            vects = a * np.eye(3)
        s = int(rng.integers(1, 4))                       # [00s] / (0s0): un-reduced indices denote the same line and plane
        return dict(okw=dict(ξ_uvw=np.array([0, 0, s]), slip_hkl=np.array([0, s, 0]), box=dict(ctor=ctor)), T=np.eye(3), vects=vects,
                    mn_fixed=True, stiff=None)
    if cls == 'symmetry-rotation':
        T = _SYM_ROT[k % len(_SYM_ROT)]
        return dict(okw=dict(transform=T.copy()), T=T.copy(), vects=None, mn_fixed=False, stiff='cubic')
    raise ValueError(cls)


# ----------------------------------------------------------------------------
# forms in which a caller hands positions to displacement() / strain() / stress()
#
# "same numbers" forms: the container / memory layout changes, the float64 values do not.
SAME_VALUE_FORMS = ['list-of-lists', 'tuple-of-tuples', 'list-of-tuples', 'list-of-row-arrays', 'fortran-order', 'row-strided-view',
                    'column-strided-view', 'negative-stride-view', 'read-only', 'float128']
# narrow floating types: the numbers are first rounded to the type (the reference is evaluated at exactly those numbers)
NARROW_FLOAT_FORMS = ['float32', 'float16', 'float32-fortran-order', 'list-of-float32-scalars']
# integer-valued coordinates (grid nodes, lattice sites in integer units)
INTEGER_FORMS = ['int64', 'int32', 'int16', 'int8', 'uint8', 'uint16', 'list-of-int-lists', 'tuple-of-int-tuples', 'int64-column-strided-view',
                 'int64-read-only', 'int-valued-float32', 'int64-fortran-order']
SINGLE_POINT_FORMS = ['int-list', 'int-tuple', 'int64-array', 'int8-array', 'float32-array', 'float-tuple', 'row-of-int64-array',
                      'int64-array-(1,3)', 'float32-array-(1,3)', 'int-list-of-one-list']
EMPTY_FORMS = ['float64-(0,3)', 'int64-(0,3)', 'float32-(0,3)']


def same_value_form(x, form):
    """x: float64 (N,3).  Returns the same numbers in another container / layout."""
    x = np.asarray(x, float)
    if form == 'list-of-lists':
        return x.tolist()
    if form == 'tuple-of-tuples':
        return tuple(tuple(row) for row in x.tolist())
    if form == 'list-of-tuples':
        return [tuple(row) for row in x.tolist()]
    if form == 'list-of-row-arrays':
        return [row.copy() for row in x]
    if form == 'fortran-order':
        a = np.asfortranarray(x.copy())
        assert a.flags.f_contiguous and not a.flags.c_contiguous
        return a
    if form == 'row-strided-view':                    # every other row of a larger array whose other rows hold NaN
        base = np.full((2 * len(x), 3), np.nan)
        base[::2] = x
        return base[::2]
    if form == 'column-strided-view':                 # every other column of an (N,6) array
        base = np.full((len(x), 6), np.nan)
        base[:, ::2] = x
        return base[:, ::2]
    if form == 'negative-stride-view':
        base = x[::-1].copy()
        return base[::-1]
    if form == 'read-only':
        a = x.copy()
        a.setflags(write=False)
        return a
    if form == 'float128':
        return x.astype(np.longdouble)
    raise KeyError(form)


def narrow_float_form(x, form):
    """(argument, float64 array of exactly the numbers the argument holds)."""
    x = np.asarray(x, float)
    with np.errstate(over='ignore', under='ignore'):
        if form == 'float32':
            a = x.astype(np.float32)
        elif form == 'float16':
            a = x.astype(np.float16)
        elif form == 'float32-fortran-order':
            a = np.asfortranarray(x.astype(np.float32))
        elif form == 'list-of-float32-scalars':
            a32 = x.astype(np.float32)
            return [[v for v in row] for row in a32], a32.astype(float)
        else:
            raise KeyError(form)
    return a, a.astype(float)


def integer_form(nodes, form):
    """nodes: int64 (N,3).  None when the type cannot hold the nodes."""
    nodes = np.asarray(nodes, np.int64)
    if form in ('int64', 'int32', 'int16', 'int8', 'uint8', 'uint16'):
        info = np.iinfo(form)
        if nodes.min() < info.min or nodes.max() > info.max:
            return None
        return nodes.astype(form)
    if form == 'list-of-int-lists':
        return [[int(v) for v in row] for row in nodes]
    if form == 'tuple-of-int-tuples':
        return tuple(tuple(int(v) for v in row) for row in nodes)
    if form == 'int64-column-strided-view':
        base = np.full((len(nodes), 6), -77, np.int64)
        base[:, ::2] = nodes
        return base[:, ::2]
    if form == 'int64-read-only':
        a = nodes.copy()
        a.setflags(write=False)
        return a
    if form == 'int-valued-float32':
        return nodes.astype(np.float32)
    if form == 'int64-fortran-order':
        return np.asfortranarray(nodes.copy())
    raise KeyError(form)


def single_point_form(node, xrow, form):
    """node: int64 (3,), xrow: float64 (3,).  Returns (argument, float64 (3,) numbers it holds)."""
    node = np.asarray(node, np.int64)
    if form == 'int-list':
        return [int(v) for v in node], node.astype(float)
    if form == 'int-tuple':
        return tuple(int(v) for v in node), node.astype(float)
    if form == 'int64-array':
        return node.copy(), node.astype(float)
    if form == 'int8-array':
        return node.astype(np.int8), node.astype(float)
    if form == 'float32-array':
        a = np.asarray(xrow, np.float32)
        return a, a.astype(float)
    if form == 'float-tuple':
        return tuple(float(v) for v in xrow), np.asarray(xrow, float)
    if form == 'row-of-int64-array':                  # a row view of a 2-D integer array
        base = np.stack([node, node + 5, node - 3])
        return base[0], node.astype(float)
    if form == 'int64-array-(1,3)':
        return node.reshape(1, 3).copy(), node.astype(float)
    if form == 'float32-array-(1,3)':
        a = np.asarray(xrow, np.float32).reshape(1, 3)
        return a, a[0].astype(float)
    if form == 'int-list-of-one-list':
        return [[int(v) for v in node]], node.astype(float)
    raise KeyError(form)


def empty_form(form):
    return np.zeros((0, 3), dict((('float64-(0,3)', float), ('int64-(0,3)', np.int64), ('float32-(0,3)', np.float32)))[form])


_NODE_SEEDS = np.array([[3, 0, 0], [0, 3, 0], [0, 0, 3], [-3, 0, 0], [0, -3, 0], [0, 0, -3], [2, 1, 0], [1, 1, 1], [-2, 3, 1], [1, -2, 2], [0, 2, -1],
                        [4, 0, 1], [-1, -1, 5], [5, 2, 0], [0, 1, 4]], np.int64)
NODE_LIMIT = 12           # |coordinate| <= 12: representable in every integer type generated (int8 included), exactly in float16/float32


def integer_nodes(rng, m, n, nmax=10, nonneg=False):
    """Integer grid nodes (dislocation-frame Cartesian coordinates).
    Returns (off: nodes with distance >= 0.5 from the line and >= 0.05 rad from the cut;
             cut: nodes exactly on the cut half-plane x.m < 0, x.n == 0 (exist for axis-aligned m, n only);
             cont: nodes exactly on its continuation x.m > 0, x.n == 0)."""
    cand = np.concatenate([_NODE_SEEDS, rng.integers(-NODE_LIMIT, NODE_LIMIT + 1, (80, 3))])
    if nonneg:
        cand = np.abs(cand)
    _u, first = np.unique(cand, axis=0, return_index=True)
    cand = cand[np.sort(first)]                       # duplicates removed, order kept
    x, y = cand @ m, cand @ n
    r = np.hypot(x, y)
    t = np.arctan2(y, x)
    off = (r >= 0.5) & (np.abs(t) <= np.pi - 0.05)
    cut = (r >= 0.5) & (y == 0) & (x < 0)
    cont = (r >= 0.5) & (y == 0) & (x > 0)
    return cand[off][:nmax], cand[cut][:4], cand[cont][:4]
