"""C13 workload generator: unit cells, slip systems, line directions and
configuration parameters for atomman.defect.Dislocation (numpy only, never
atomman).  Everything is written down from crystallography: lattice + basis of
fcc / bcc / hcp, their standard slip systems in conventional Miller indices,
in-plane line directions classified by the angle to the Burgers vector.

Class choice is a function of the case index (tables below are enumerated and
filled round-robin); only numbers inside a class come from the case's rng.
"""
from __future__ import annotations

import itertools

import numpy as np

# --------------------------------------------------------------------------- #
# unit cells

STRUCTS = ['fcc/f', 'bcc/i', 'hcp/3', 'fcc/p', 'B2/p', 'hcp/4', 'fcc-prim', 'bcc-prim']      # B2: two atom types (natypes = 2)

_FCC_BASIS = np.array([[0, 0, 0], [.5, .5, 0], [.5, 0, .5], [0, .5, .5]], float)
_BCC_BASIS = np.array([[0, 0, 0], [.5, .5, .5]], float)
_HCP_BASIS = np.array([[0, 0, 0], [1 / 3, 2 / 3, .5]], float)     # an atom at the origin (conventional_to_primitive needs one)

# primitive lattice vectors in units of the cubic conventional vectors (rows)
_PRIM = {'fcc': np.array([[0, .5, .5], [.5, 0, .5], [.5, .5, 0]]),
         'bcc': np.array([[-.5, .5, .5], [.5, -.5, .5], [.5, .5, -.5]])}


def lammps_form(V):
    """The same cell (same Gram matrix, right-handed) with a along x and b in the xy plane."""
    V = np.asarray(V, float)
    a, b, c = V
    la, lb = np.linalg.norm(a), np.linalg.norm(b)
    xy = a.dot(b) / la
    ly = np.sqrt(lb * lb - xy * xy)
    xz = a.dot(c) / la
    yz = (b.dot(c) - xy * xz) / ly
    lz = np.sqrt(c.dot(c) - xz * xz - yz * yz)
    return np.array([[la, 0, 0], [xy, ly, 0], [xz, yz, lz]])


def unit_cell(struct, rng):
    """dict(vects (LAMMPS form), rel (basis, box-relative), atype, symbols,
    setting (conventional_setting argument), family, conv2cell (3x3: rows give the
    conventional cubic/hex lattice vectors in units of the cell vectors), a, hex4)."""
    fam = struct.split('/')[0].split('-')[0]
    prim = struct.endswith('-prim')
    if fam == 'fcc':
        a = rng.uniform(3.5, 4.4)
        sym = 'Al'
    elif fam in ('bcc', 'B2'):
        a = rng.uniform(2.8, 3.3)
        sym = 'Fe'
    else:
        a = rng.uniform(2.9, 3.3)
        sym = 'Ti'
    out = dict(struct=struct, family=fam, a=a, symbols=[sym], hex4=struct == 'hcp/4')
    if fam == 'B2':
        out.update(vects=a * np.eye(3), rel=_BCC_BASIS.copy(), atype=np.array([1, 2]), symbols=['Ni', 'Al'], setting='p', conv2cell=np.eye(3))
    elif fam in ('fcc', 'bcc'):
        if prim:
            P = _PRIM[fam]                       # primitive vectors in conventional units
            out['vects'] = lammps_form(a * P)
            out['rel'] = np.zeros((1, 3))
            out['atype'] = np.array([1])
            out['setting'] = 'p'
            out['conv2cell'] = np.linalg.inv(P)   # conventional vectors expressed in primitive vectors
        else:
            out['vects'] = a * np.eye(3)
            out['rel'] = (_FCC_BASIS if fam == 'fcc' else _BCC_BASIS).copy()
            out['atype'] = np.ones(len(out['rel']), int)
            out['setting'] = struct.split('/')[1]
            out['conv2cell'] = np.eye(3)
    else:
        ca = rng.uniform(1.58, 1.64)
        out['ca'] = ca
        out['vects'] = np.array([[a, 0, 0], [-a / 2, a * np.sqrt(3) / 2, 0], [0, 0, a * ca]])
        out['rel'] = _HCP_BASIS.copy()
        out['atype'] = np.ones(2, int)
        out['setting'] = 'p'
        out['conv2cell'] = np.eye(3)
    return out


# --------------------------------------------------------------------------- #
# slip systems, conventional 3-index Miller indices
#   hkl, burgers (lattice translation, may be fractional), lines by character class

SLIP = {
    'fcc': [
        dict(name='{111}<110>', hkl=[1, 1, 1], b=[.5, -.5, 0],
             screw=[[1, -1, 0]], edge=[[1, 1, -2]],
             mixed=[[1, 0, -1], [0, 1, -1], [2, -1, -1], [1, -2, 1]],
             mixedhi=[[2, 3, -5], [1, 3, -4], [3, -1, -2], [3, -2, -1]]),
    ],
    'bcc': [
        dict(name='{110}<111>', hkl=[1, 1, 0], b=[.5, -.5, .5],
             screw=[[1, -1, 1]], edge=[[1, -1, -2]],
             mixed=[[0, 0, 1], [1, -1, 0], [1, -1, -1], [1, -1, 2]],
             mixedhi=[[1, -1, 3], [2, -2, 1], [3, -3, 1], [2, -2, 3]]),
        dict(name='{112}<111>', hkl=[1, 1, 2], b=[.5, .5, -.5],
             screw=[[1, 1, -1]], edge=[[-1, 1, 0]],
             mixed=[[0, 2, -1], [2, 0, -1]],
             mixedhi=[[3, 1, -2], [1, 3, -2], [3, -1, -1]]),
        dict(name='{123}<111>', hkl=[1, 2, 3], b=[.5, .5, -.5],
             screw=[[1, 1, -1]], edge=[[5, -4, 1]],
             mixed=[[2, -1, 0]],
             mixedhi=[[3, 0, -1], [1, -2, 1]]),
    ],
    'B2': [
        dict(name='{110}<001>', hkl=[1, 1, 0], b=[0, 0, 1],
             screw=[[0, 0, 1]], edge=[[1, -1, 0]],
             mixed=[[1, -1, 1], [1, -1, -1], [1, -1, 2]],
             mixedhi=[[1, -1, 3], [2, -2, 1], [3, -3, 1]]),
        dict(name='{100}<001>', hkl=[1, 0, 0], b=[0, 0, 1],
             screw=[[0, 0, 1]], edge=[[0, 1, 0]],
             mixed=[[0, 1, 1], [0, 1, -1], [0, 1, 2]],
             mixedhi=[[0, 1, 3], [0, 3, 1], [0, 3, 2]]),
    ],
    'hcp': [
        dict(name='basal<a>', hkl=[0, 0, 1], b=[1, 0, 0],
             screw=[[1, 0, 0]], edge=[[1, 2, 0]],
             mixed=[[0, 1, 0], [1, 1, 0], [2, 1, 0]],
             mixedhi=[[3, 1, 0], [3, 2, 0], [1, 3, 0]]),
        dict(name='prismatic<a>', hkl=[1, 0, 0], b=[0, 1, 0],
             screw=[[0, 1, 0]], edge=[[0, 0, 1]],
             mixed=[[0, 1, 1], [0, 1, -1], [0, 2, 1]],
             mixedhi=[[0, 3, 1], [0, 1, 2], [0, 3, -2]]),
        dict(name='pyramidal<a>', hkl=[1, 0, 1], b=[0, 1, 0],
             screw=[[0, 1, 0]], edge=[[2, 1, -2]],
             mixed=[[1, 0, -1], [1, 1, -1]],
             mixedhi=[[1, 2, -1], [1, 3, -1]]),
    ],
}

CHARACTERS = ['edge', 'mixed', 'screw', 'mixedhi']
MN = [('y', 'z'), ('x', 'y'), ('z', 'x'), ('x', 'z'), ('y', 'x'), ('z', 'y')]
CYCLIC = {('y', 'z'), ('x', 'y'), ('z', 'x')}

_SIGNED_PERMS = []
for _p in itertools.permutations(range(3)):
    for _s in itertools.product((1, -1), repeat=3):
        _M = np.zeros((3, 3), int)
        for _i in range(3):
            _M[_i, _p[_i]] = _s[_i]
        _SIGNED_PERMS.append(_M)


def vector3to4(uvw):
    """[uvw] -> Miller-Bravais [UVTW] of the same vector (U a1 + V a2 + T a3 + W c, a3 = -a1-a2, U+V+T=0)."""
    u, v, w = uvw
    return np.array([(2 * u - v) / 3, (2 * v - u) / 3, -(u + v) / 3, w], float)


def plane3to4(hkl):
    h, k, l = hkl
    return np.array([h, k, -(h + k), l])


def slip_case(cell, rng, isys, character, iline, flip):
    """Pick the slip system / line of the class and express it in the indices the cell
    uses.  Cubic crystals: a random signed permutation (a symmetry operation of the
    cubic lattice acting on plane, Burgers vector and line alike) makes every variant
    of the family appear.  Returns dict(hkl, burgers, xi: what is handed to atomman;
    hkl3, b3, xi3: the same in 3-index form relative to the cell vectors)."""
    fam = cell['family']
    systems = SLIP[fam]
    s = systems[isys % len(systems)]
    lines = s[character]
    xi = np.array(lines[iline % len(lines)], float)
    hkl = np.array(s['hkl'], float)
    b = np.array(s['b'], float)
    if flip:
        xi = -xi
    if fam in ('fcc', 'bcc', 'B2'):
        P = _SIGNED_PERMS[int(rng.integers(0, len(_SIGNED_PERMS)))]
        hkl, b, xi = hkl @ P, b @ P, xi @ P
        # express in the cell's own basis: vector = uvw_conv . A_conv = uvw_cell . A_cell, A_conv = conv2cell . A_cell
        M = cell['conv2cell']
        b = b @ M
        xi = xi @ M
        # plane indices transform like the cell vectors: h_cell,i = a_cell,i . G = sum_j inv(M)[i,j] h_conv,j
        hkl = np.linalg.inv(M) @ hkl
        for v in (xi, hkl):
            assert np.allclose(v, np.round(v), atol=1e-9), v
        xi = np.round(xi)
        hkl = np.round(hkl)
        g = np.gcd.reduce(np.abs(hkl).astype(int))
        hkl = hkl / g
    out = dict(system=s['name'], character=character, hkl3=hkl, b3=b, xi3=xi)
    if cell['hex4']:
        out['hkl'] = plane3to4(hkl).astype(int).tolist()
        out['burgers'] = vector3to4(b).tolist()
        out['xi'] = np.round(3 * vector3to4(xi)).astype(int).tolist()     # integer Miller-Bravais direction
        out['xi3'] = 3 * xi
    else:
        out['hkl'] = hkl.astype(int).tolist()
        out['burgers'] = b.tolist()
        out['xi'] = xi.astype(int).tolist()
    return out


# --------------------------------------------------------------------------- #
# elastic constants (plain numbers; the property module builds the object)

def elastic_constants(cell, rng, isotropic=False):
    """Positive-definite stiffness of the crystal's symmetry class, as keyword
    arguments C11=... for the constructor.  Cubic: Zener ratio in [0.4, 3.5]
    excluding [0.9, 1.1] unless `isotropic` (then exactly 1)."""
    if cell['family'] in ('fcc', 'bcc', 'B2'):
        C12 = rng.uniform(50, 150)
        C44 = rng.uniform(30, 120)
        if isotropic:
            A = 1.0
        else:
            A = rng.choice([rng.uniform(0.4, 0.9), rng.uniform(1.1, 3.5)])
        C11 = C12 + 2 * C44 / A
        return dict(C11=C11, C12=C12, C44=C44)
    C12 = rng.uniform(40, 100)
    C66 = rng.uniform(25, 60)
    C11 = C12 + 2 * C66
    C13 = rng.uniform(30, 80)
    C33 = rng.uniform(1.05, 1.5) * C11
    C44 = rng.uniform(25, 70)
    # positive definite: C33 (C11 + C12) > 2 C13^2 holds for these ranges
    assert C33 * (C11 + C12) > 2 * C13 ** 2
    return dict(C11=C11, C12=C12, C13=C13, C33=C33, C44=C44)
