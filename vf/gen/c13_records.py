"""C13 workload generator, part 2: class tables for the alternative construction paths
(Dislocation.fromrecord / fromdatabase) and for the two-instance histories (numpy only,
never atomman).  Every choice is a function of the case index; co-prime periods (7 forms x
12 shift statements = 84 cases) make every form meet every shift statement.
"""
from __future__ import annotations

from .c13_configs import STRUCTS, MN

# how the record reaches the code under test
FORMS = ['json-text', 'xml-text', 'datamodel', 'record-object', 'bytes-file', 'path', 'database']

# (what the record asks for, how it spells shiftscale): None = element absent, bool = JSON Boolean
SHIFT_STATEMENTS = [('absolute', 'False'), ('relative', 'True'), ('absolute', None), ('index', None),
                    ('absolute', 'false'), ('relative', 't'), ('absolute', 'f'), ('default', None),
                    ('absolute', False), ('relative', True), ('absolute', 'F'), ('relative', 'TRUE')]

MILLER_STYLES = ['bare', 'bracket', 'fraction']
RECORD_CHARACTERS = ['edge', 'mixed', 'screw']


def record_case(i):
    form = FORMS[i % 7]
    what, word = SHIFT_STATEMENTS[i % 12]
    mn = MN[(i // 2 + i // 7) % 6]
    return dict(form=form, shift=what, word=word,
                struct=STRUCTS[(i + i // 12) % 8],
                character=RECORD_CHARACTERS[(i // 3 + i // 84) % 3],
                mn=mn,
                style=MILLER_STYLES[(i + i // 12) % 3],
                markup=['json', 'xml'][(i // 7) % 2],                       # for the forms that can carry either
                # m, n omitted = the constructor's defaults; a record kept in a database must state them (schema: required elements,
                # and the record's metadata() reads them)
                axes_stated=not (mn == ('y', 'z') and (i // 4) % 2 and form != 'database'),
                setting_stated=bool((i // 3) % 2),                          # 'p' may be omitted (default)
                index_as_int=bool((i // 12) % 2),                           # JSON number instead of text
                generator=['monopole', 'periodicarray'][(i // 12 + i) % 2],
                boundary=bool((i // 5) % 2))


# two-instance histories ------------------------------------------------------
PAIR_STRUCTS = ['fcc/f', 'bcc/i', 'hcp/3', 'B2/p', 'fcc-prim', 'hcp/4']
ROUTES = ['ctor-array', 'ctor-index', 'record', 'set_shift-array', 'call-array']     # how instance A got its shift
REFUSAL_ENTRIES = ['set_shift', 'monopole', 'periodicarray', 'init', 'fromrecord']


def pair_case(i):
    return dict(struct=PAIR_STRUCTS[i % 6],
                route=ROUTES[i % 5],
                generator=['monopole', 'periodicarray'][(i // 5 + i // 30) % 2],
                mn=MN[(i // 6) % 3],                                        # cyclic assignments
                character=RECORD_CHARACTERS[(i // 2 + i // 30) % 3],
                edit_ucell=bool((i // 3) % 2),                              # the caller's unit cell object re-used after an in-place edit
                refusal=REFUSAL_ENTRIES[(i + i // 5) % 5])


# container / dtype of array-like arguments in the ordinary groups
ARG_FORMS = ['array', 'list', 'tuple', 'float32']
