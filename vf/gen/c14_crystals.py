"""C14 workload generator: unit cells (all seven families, primitive cells of
centred lattices), plane enumeration, option stratification.  numpy only."""
from __future__ import annotations

import itertools

import numpy as np

from . import cells
from ..oracle import geometry as G
from ..oracle import c14_crystal as X

FAMILIES = cells.FAMILIES
# (setting, family of the CONVENTIONAL cell)
CENTRED = [('f', 'cubic'), ('i', 'cubic'), ('a', 'orthorhombic'), ('b', 'orthorhombic'), ('c', 'monoclinic'),
           ('t1', 'hexagonal'), ('t2', 'hexagonal'),
           ('f', 'orthorhombic'), ('i', 'tetragonal'), ('c', 'orthorhombic'), ('a', 'monoclinic'), ('i', 'orthorhombic')]
SETTINGS = ['f', 'i', 'a', 'b', 'c', 't1', 't2']
CUTS = 'abc'

# planes a reviewer singled out (primitive indices not proportional to the conventional ones)
FLAGGED = {'f': [(1, 0, 0), (1, 1, 0), (2, 1, 0), (1, 1, 1), (2, 1, 2)], 'i': [(1, 0, 0), (1, 1, 0), (2, 1, 0), (1, 1, 2)]}


def planes(bound):
    r = range(-bound, bound + 1)
    return [p for p in itertools.product(r, r, r) if p != (0, 0, 0)]


def hex_planes4(bound):
    """Miller-Bravais (hkil) with |h|,|k|,|l| <= bound, i = -(h+k)."""
    return [(h, k, -(h + k), l) for (h, k, l) in planes(bound)]


def lammps_cell(vects):
    a, b, c, al, be, ga = G.lengths_angles(vects)
    return G.vects_from_lammps(*G.lammps_from_abc(a, b, c, al, be, ga))


def _basis(rng, kind, family):
    """Fractional sites and types."""
    if kind == 'one':
        return rng.uniform(0.05, 0.95, (1, 3)), np.array([1])
    if kind == 'special':
        # high-symmetry fractional positions: several atoms share a layer exactly for low-index planes
        pool = {
            'fcc': ([[0, 0, 0], [.5, .5, 0], [.5, 0, .5], [0, .5, .5]], [1, 1, 1, 1]),
            'bcc': ([[0, 0, 0], [.5, .5, .5]], [1, 1]),
            'b2': ([[0, 0, 0], [.5, .5, .5]], [1, 2]),
            'l12': ([[0, 0, 0], [.5, .5, 0], [.5, 0, .5], [0, .5, .5]], [1, 2, 2, 2]),
            'diamond': ([[0, 0, 0], [.5, .5, 0], [.5, 0, .5], [0, .5, .5], [.25, .25, .25], [.75, .75, .25],
                         [.75, .25, .75], [.25, .75, .75]], [1] * 8),
            'hcp': ([[1 / 3, 2 / 3, .25], [2 / 3, 1 / 3, .75]], [1, 1]),
            'quarter': ([[.25, .25, .25], [.75, .75, .75], [.25, .75, .5]], [1, 1, 2]),
        }
        names = ['hcp', 'quarter', 'b2'] if family == 'hexagonal' else ['fcc', 'bcc', 'b2', 'l12', 'diamond', 'quarter']
        nm = names[int(rng.integers(0, len(names)))]
        s, t = pool[nm]
        return np.array(s, float), np.array(t)
    # 'random': 2-5 atoms, two types, pairwise separated
    n = int(rng.integers(2, 6))
    while True:
        s = rng.uniform(0.0, 1.0, (n, 3))
        d = s[:, None] - s[None]
        d -= np.rint(d)
        dist = np.linalg.norm(d, axis=2) + np.eye(n)
        if dist.min() > 0.15:
            break
    t = rng.integers(1, 3, n)
    t[0] = 1
    return s, t


BASIS_KINDS = ['special', 'random', 'one']


def gen_primitive_setting(rng, family, basis_kind, origin_class='zero'):
    """A 'p' unit cell of one of the seven families in LAMMPS orientation."""
    p = cells.family_params(rng, family)
    v = G.vects_from_lammps(*G.lammps_from_abc(**p))
    s, t = _basis(rng, basis_kind, family)
    L = np.linalg.norm(v, axis=1).max()
    o = np.zeros(3) if origin_class == 'zero' else rng.uniform(-0.3, 0.3, 3) * L
    return dict(setting='p', family=family, vects=v, origin=o, sites=s, types=t, conv=v.copy(), basis=basis_kind, L=L)


def gen_centred(rng, setting, family, basis_kind):
    """The primitive cell (LAMMPS orientation) of a lattice whose conventional
    cell has centring ``setting``; 'conv' are the conventional vectors in the same frame."""
    p = cells.family_params(rng, family)
    cv = G.vects_from_lammps(*G.lammps_from_abc(**p))
    pv0 = X.CENTRING[setting] @ cv
    assert G.volume(pv0) > 0
    pv = lammps_cell(pv0)
    conv = X.conv_vects(pv, setting)
    if basis_kind == 'one':
        s, t = np.zeros((1, 3)), np.array([1])
    elif basis_kind == 'special':
        s, t = np.array([[0, 0, 0], [.5, .5, .5]], float), np.array([1, 2])
    else:
        s = np.vstack([rng.uniform(0, 1, 3), rng.uniform(0, 1, 3)])
        while np.linalg.norm((s[0] - s[1]) - np.rint(s[0] - s[1])) < 0.2:
            s[1] = rng.uniform(0, 1, 3)
        t = np.array([1, int(rng.integers(1, 3))])
    L = np.linalg.norm(pv, axis=1).max()
    return dict(setting=setting, family=family, vects=pv, origin=np.zeros(3), sites=s, types=t, conv=conv,
                basis=basis_kind, L=L)


def cell_classes():
    """The cell classes of the exhaustive plane enumeration: 7 families in the 'p' setting
    and the 7 centred settings (first family listed for each)."""
    out = [('p', f) for f in FAMILIES]
    seen = set()
    for s, f in CENTRED:
        if s not in seen:
            seen.add(s)
            out.append((s, f))
    return out


def gen_cell(rng, setting, family, basis_kind, origin_class='zero'):
    if setting == 'p':
        return gen_primitive_setting(rng, family, basis_kind, origin_class)
    return gen_centred(rng, setting, family, basis_kind)
