"""C15 generators: atomic systems, defect operations and probe positions.
numpy only (never atomman).  Every random number comes from the rng handed in;
class choices are made by the caller from the case index."""
from __future__ import annotations

from collections import OrderedDict

import numpy as np

from ..oracle import geometry as G
from ..oracle import c15_model as M
from . import cells

SYSKINDS = ['random', 'crystal', 'unwrapped', 'pair', 'intpos', 'tiny', 'single']
PROPCLASSES = ['none', 'scalar', 'vector+int', 'all', 'with-old_id']
ATOLCLASSES = ['default', 'explicit-large', 'explicit-small']
KWCLASSES = ['none', 'some', 'all']
SYMBOLS = ('Al', 'Ni', 'Cu', 'Fe')

BASES = {
    'sc': [[0, 0, 0]],
    'bcc': [[0, 0, 0], [.5, .5, .5]],
    'fcc': [[0, 0, 0], [.5, .5, 0], [.5, 0, .5], [0, .5, .5]],
    'generic3': [[0.1, 0.15, 0.2], [0.45, 0.6, 0.3], [0.8, 0.35, 0.7]],
}


def unit_vector(rng):
    while True:
        u = rng.normal(size=3)
        nrm = np.linalg.norm(u)
        if nrm > 1e-3:
            return u / nrm


def _random_rel(rng, n, vects, pbc, target):
    """n relative positions in [0,1)^3, pairwise 27-image separation >= target
    (target is relaxed when the cell cannot hold them)."""
    all_p = (True, True, True)          # separation is kept under *full* periodicity: valid for every pbc setting
    rel = []
    cart = []
    while len(rel) < n:
        for _ in range(200):
            r = rng.uniform(0.0, 1.0, 3)
            c = r @ vects
            if not cart or M.sep27(c, np.array(cart), vects, all_p).min() >= target:
                rel.append(r)
                cart.append(c)
                break
        else:
            target *= 0.7
    return np.array(rel)


def gen_system(rng, syskind, cell, pbc, ntypes, propclass, atolclass, nmax=24):
    """Returns a dict describing one system (arrays only).

    Guarantees: all atoms pairwise farther apart (27-image separation under the
    system's pbc) than 12 * atol, except the deliberately constructed close pair
    of the 'pair' kind (0.6 * atol apart)."""
    v, o, L = cell['vects'], cell['origin'], cell['L']
    scale = cell['scale']
    vol = abs(G.volume(v))
    if atolclass == 'default' and scale == 1.0:
        atol_arg, atol = None, 0.01
    elif atolclass == 'explicit-small':
        atol_arg = atol = 2e-3 * scale
    else:
        atol_arg = atol = 0.03 * scale
    close_pair = None
    if syskind == 'single':
        n = 1
        rel = rng.uniform(0, 1, (1, 3))
        pos = G.cart(rel, v, o)
    elif syskind == 'tiny':
        n = int(rng.integers(2, 4))          # 2 or 3 atoms
        rel = _random_rel(rng, n, v, pbc, 0.5 * (vol / n) ** (1 / 3))
        pos = G.cart(rel, v, o)
    elif syskind in ('random', 'unwrapped', 'pair'):
        n = int(rng.integers(4, nmax + 1))
        rel = _random_rel(rng, n, v, pbc, 0.5 * (vol / n) ** (1 / 3))
        if syskind == 'unwrapped':
            sh = rng.integers(-1, 2, (n, 3)) * (rng.random((n, 1)) < 0.6)
            rel = rel + sh
        pos = G.cart(rel, v, o)
    elif syskind == 'crystal':
        bname = list(BASES)[int(rng.integers(0, len(BASES)))]
        basis = np.array(BASES[bname], float)
        m = rng.integers(1, 4, 3)
        if len(basis) * m.prod() > 48:
            m = np.minimum(m, 2)
        if len(basis) * m.prod() < 2:
            m[int(rng.integers(0, 3))] = 2
        grid = np.array([[i, j, k] for i in range(m[0]) for j in range(m[1]) for k in range(m[2])], float)
        rel = ((grid[:, None, :] + basis[None, :, :]) / m).reshape(-1, 3)
        n = len(rel)
        pos = G.cart(rel, v, o)
    elif syskind == 'intpos':
        # atoms on small integer-valued Cartesian coordinates (each coordinate is also a valid atom
        # index, the hostile case for a lookup that confuses positions with indices)
        n = int(rng.integers(3, 9))
        pts = []
        tries = 0
        while len(pts) < n and tries < 5000:
            tries += 1
            c = rng.integers(0, n, 3).astype(float)
            if not pts or M.sep27(c, np.array(pts), v, (True,) * 3).min() >= 0.9:
                pts.append(c)
        pos = np.array(pts, float).reshape(-1, 3)
        n = len(pos)
    else:
        raise ValueError(syskind)

    # the search tolerance stays far below the smallest separation (an explicit atol is passed if it has to shrink)
    dmin_base = M.min_pair_sep(pos, v, tuple(bool(x) for x in pbc))
    if np.isfinite(dmin_base) and atol > dmin_base / 12.0:
        atol_arg = atol = dmin_base / 12.0
    if syskind == 'pair':
        q = int(rng.integers(0, n))
        pos = np.vstack([pos, pos[q] + 0.6 * atol * unit_vector(rng)])
        close_pair = (q, n)
        n += 1

    if syskind == 'crystal':
        atype = np.array([(j % len(basis)) % ntypes + 1 for j in range(n)])
    else:
        atype = rng.integers(1, ntypes + 1, n)
    atype = np.asarray(atype, dtype=int)
    if n >= ntypes:                      # every type present
        atype[rng.permutation(n)[:ntypes]] = np.arange(1, ntypes + 1)

    props = OrderedDict()
    if propclass in ('scalar', 'vector+int', 'all', 'with-old_id'):
        props['charge'] = rng.uniform(0.5, 2.0, n) * rng.choice([-1, 1], n)
    if propclass in ('vector+int', 'all'):
        props['vel'] = rng.normal(size=(n, 3)) + 3.0
        props['tag'] = rng.integers(100, 1000, n)
    if propclass == 'all':
        props['stress'] = rng.normal(size=(n, 3, 3)) + 2.0
        props['flag'] = np.ones(n, dtype=bool)
    if propclass == 'with-old_id':
        props['old_id'] = rng.permutation(n + 5)[:n] + 1000

    nsym = int(rng.integers(0, ntypes + 2))          # none, fewer, equal, one more than the types in use
    symbols = SYMBOLS[:nsym]
    masses = tuple(float(x) for x in rng.uniform(10, 200, ntypes)) if rng.random() < 0.5 else None

    spec = dict(kind=syskind, vects=v, origin=o, L=L, scale=scale, pbc=tuple(bool(x) for x in pbc), n=n,
                atype=atype, pos=pos, props=props, symbols=symbols, masses=masses, ntypes=ntypes,
                atol=atol, atol_arg=atol_arg, close_pair=close_pair, cell=cell)
    spec['dmin'] = dmin_base
    return spec


def prepare_cell(rng, syskind, kind, origin_class, scale):
    """Cells come from the shared generator; the integer-position class needs a
    unit-scale cell several length units wide."""
    if syskind == 'intpos':
        cell = cells.gen_cell(rng, kind, 'zero', 1.0)
        f = 3.0
        cell['vects'] = cell['vects'] * f
        cell['L'] *= f
        if origin_class != 'zero':
            cell['origin'] = rng.uniform(-1.5, 1.5, 3)
        cell['origin_class'] = origin_class
        return cell
    return cells.gen_cell(rng, kind, origin_class, scale)


# ------------------------------------------------------------------ values
def new_value(rng, name, arr):
    """A value for per-atom property ``name`` of a created atom, exactly
    representable in the property's dtype and different from zero."""
    shp = arr.shape[1:]
    if arr.dtype.kind == 'b':
        return True
    if arr.dtype.kind in 'iu':
        return int(rng.integers(2000, 3000))
    x = np.round(rng.uniform(5.0, 9.0, shp), 3)
    return float(x) if shp == () else x


def gen_kwargs(rng, snap, kwclass, ptype, with_old_id):
    names = [p for p in snap.props if p not in ('pos', 'atype', 'old_id')]
    kw = {}
    if kwclass == 'none':
        return kw
    for p in names:
        if kwclass == 'all' or rng.random() < 0.5:
            kw[p] = new_value(rng, p, snap.props[p])
    ntypes = int(snap.props['atype'].max())
    if ptype in ('i', 'db') and (kwclass == 'all' or rng.random() < 0.5):
        kw['atype'] = int(rng.integers(1, ntypes + 2))          # may open a new type
    if with_old_id:
        kw['old_id'] = int(rng.integers(5000, 6000))
    return kw


def choose_sub_atype(rng, snap, k, allow_default):
    """New type of a substitutional (None = rely on the documented default 1)."""
    cur = int(snap.props['atype'][k])
    ntypes = int(snap.props['atype'].max())
    if allow_default and cur != 1:
        return None
    opts = [t for t in range(1, ntypes + 2) if t != cur]
    return int(opts[int(rng.integers(0, len(opts)))])


def gen_db(rng, snap, k, dmin):
    """Dumbbell half-vector: long enough to separate the pair well beyond the
    search tolerance, short enough to stay away from the other atoms."""
    if not np.isfinite(dmin):
        dmin = 0.5 * np.linalg.norm(snap.vects, axis=1).min()
    return unit_vector(rng) * dmin * rng.uniform(0.15, 0.25)


def free_position(rng, snap, dmin, frac=0.45):
    """A position whose 27-image separation from every atom is >= frac*dmin
    (relaxed if the cell is crowded).  Returned in relative and Cartesian form."""
    if not np.isfinite(dmin):
        dmin = 0.5 * G.perp_widths(snap.vects).min()
    target = frac * dmin
    while True:
        for _ in range(300):
            r = rng.uniform(0.0, 1.0, 3)
            c = G.cart(r, snap.vects, snap.origin)
            if M.sep27(c, snap.pos, snap.vects, (True,) * 3).min() >= target:
                return r, c
        target *= 0.7


def image_shift(rng, pbc, periodic=True):
    """Non-zero integer shift in {-1,0,1}^3 along periodic (or, for the hostile
    class, along non-periodic) directions only; None if there is no such direction."""
    axes = [a for a in range(3) if bool(pbc[a]) == periodic]
    if not axes:
        return None
    while True:
        nvec = np.zeros(3)
        for a in axes:
            nvec[a] = rng.integers(-1, 2)
        if np.any(nvec != 0):
            return nvec
