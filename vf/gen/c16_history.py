"""Call histories for C16: what a caller may do BETWEEN two calls of the same
function, and the "look-alike" arguments a too coarsely keyed memo would confuse.
numpy/stdlib only.

* scribbles     in-place use of a returned array (b *= 2, v[:] = -v, v[...] = 0,
                fill with nan / the smallest integer, n /= |n|, v += 1, and
                "double, then setflags(write=False)");
* arguments     the same rows as a fresh C-contiguous ndarray of the result's own
                element type (float64 / int64: np.asarray is then a no-op and an
                identity fast path would hand the caller's array back), as int32 and
                as nested lists, in the leading shapes (k,), (N,k), (M,N,k);
* orientations  proper rotations that put a cell of any crystal family off the
                Cartesian axes: generic, 45 deg about z, 120 deg about the body
                diagonal (axes permuted cyclically), a signed axis permutation, a
                small angle, a rotation about x (a stays on x, b leaves the xy plane);
* strings       for an index string, the strings that share its characters /
                body / fraction but show other numbers (digits regrouped across a
                blank, other fraction, sign moved, one term more or less) or the same
                numbers in another spelling (other spacing, bracket kind, padding).
"""
from __future__ import annotations

import copy
import itertools
from fractions import Fraction

import numpy as np

SCRIBBLES = ('double', 'negate', 'zero', 'fill', 'normalise', 'increment', 'double-freeze')
ARG_TYPES = ('float64', 'int64', 'list', 'int32')
ARG_TYPES_INT = ('int64', 'int32', 'list')            # reduce_indices documents "an array of ints"
SHAPES = ('single', 'N', 'MN')
ORIENTATIONS = ('generic', 'z45', 'body-diagonal-120', 'signed-permutation', 'small-angle', 'about-x')
BRACKETS = {'square': '[]', 'round': '()', 'angle': '<>', 'curly': '{}'}


# ----------------------------------------------------------------------------------------- scribbles
def scribble(a, kind):
    """Use the array ``a`` in place the way a caller might.  -> label of what was done, or None when ``a`` is
    not an ndarray / cannot be made writeable.  Every kind changes at least one element of an array that is not
    all zero (the freeze variant also leaves it read-only)."""
    if not isinstance(a, np.ndarray) or a.size == 0:
        return None
    if not a.flags.writeable:
        try:
            a.setflags(write=True)
        except ValueError:
            return None
    isf = a.dtype.kind == 'f'
    if kind in ('double', 'double-freeze'):
        a *= 2
        if not a.any():
            a += 1
        if kind == 'double-freeze':
            a.setflags(write=False)
    elif kind == 'negate':
        np.negative(a, out=a)
        if not a.any():
            a -= 1
    elif kind == 'zero':
        if not a.any():
            a += 3
        else:
            a[...] = 0
    elif kind == 'fill':
        a[...] = np.nan if isf else np.iinfo(a.dtype).min
    elif kind == 'normalise':
        if isf:
            a /= (3.0 * np.abs(a).max() + 1.0)
            if not a.any():
                a += 0.25
        else:
            a *= 3
            a += 1
    elif kind == 'increment':
        a += 1
    else:
        raise ValueError(kind)
    return kind


# ----------------------------------------------------------------------------------------- arguments
def shaped(rows, shape):
    """int64 rows (N,k) in the leading shape asked for: (k,) first row / (N,k) / (M, N//M, k)."""
    rows = np.asarray(rows, dtype=np.int64)
    n, k = rows.shape
    if shape == 'single':
        return rows[0].copy()
    if shape == 'N':
        return rows.copy()
    if shape == 'MN':
        for m in (4, 3, 2):
            if n % m == 0 and n // m != m:
                return rows.reshape(m, n // m, k).copy()
        return rows.reshape(1, n, k).copy()
    raise ValueError(shape)


def make_arg(rows_shaped, typ):
    """A FRESH argument object holding the given integers."""
    if typ == 'list':
        return np.asarray(rows_shaped, dtype=np.int64).tolist()
    return np.array(rows_shaped, dtype={'float64': np.float64, 'int64': np.int64, 'int32': np.int32}[typ], order='C')


def snapshot(arg):
    return arg.copy() if isinstance(arg, np.ndarray) else copy.deepcopy(arg)


def same(arg, snap):
    """Is the argument object still what it was (values, element type, shape / nesting)?"""
    if isinstance(arg, np.ndarray):
        return isinstance(snap, np.ndarray) and arg.dtype == snap.dtype and arg.shape == snap.shape and np.array_equal(arg, snap)
    return type(arg) is type(snap) and arg == snap


def negate_in_place(arg):
    """The caller reuses its argument object for the opposite indices."""
    if isinstance(arg, np.ndarray):
        np.negative(arg, out=arg)
        return True
    if isinstance(arg, list):
        for j, x in enumerate(arg):
            if isinstance(x, list):
                negate_in_place(x)
            else:
                arg[j] = -x
        return True
    return False


def shares(a, b):
    return isinstance(a, np.ndarray) and isinstance(b, np.ndarray) and a.size > 0 and b.size > 0 and bool(np.shares_memory(a, b))


def index_rows(rng, tri, k, nbig=3, per_pattern=3):
    """(7*per_pattern + nbig, k) int64 rows: ``per_pattern`` triples of every zero pattern drawn from the enumerated
    set ``tri`` plus ``nbig`` wider ones; k = 4 -> the proper four-index rows (u, v, -(u+v), w)."""
    tri = np.asarray(tri, dtype=np.int64)
    nz = tri != 0
    code = nz[:, 0] * 4 + nz[:, 1] * 2 + nz[:, 2]
    out = []
    for c in range(1, 8):
        pool = np.flatnonzero(code == c)
        out.append(tri[rng.choice(pool, size=per_pattern, replace=len(pool) < per_pattern)])
    big = rng.integers(-60, 61, (nbig, 3))
    big[np.abs(big).sum(axis=1) == 0, 0] = 7
    out.append(big)
    t = np.concatenate(out).astype(np.int64)
    t = t[rng.permutation(len(t))]
    if k == 4:
        t = np.stack([t[:, 0], t[:, 1], -(t[:, 0] + t[:, 1]), t[:, 2]], axis=1)
    return np.ascontiguousarray(t)


def other_rows(rng, rows):
    """Rows of the same shape and element type holding other values (no zero row; sum rule kept for k = 4)."""
    rows = np.asarray(rows, dtype=np.int64)
    k = rows.shape[1]
    t = rng.integers(-9, 10, (len(rows), 3))
    t[np.abs(t).sum(axis=1) == 0, 2] = 5
    if k == 4:
        t = np.stack([t[:, 0], t[:, 1], -(t[:, 0] + t[:, 1]), t[:, 2]], axis=1)
    same_row = np.all(t == rows, axis=1)
    t[same_row] *= 2
    return np.ascontiguousarray(t.astype(np.int64))


# ----------------------------------------------------------------------------------------- orientations
_SIGNED_PERMS = None


def signed_permutations():
    """The 23 proper (det +1) signed axis permutations other than the identity."""
    global _SIGNED_PERMS
    if _SIGNED_PERMS is None:
        out = []
        for p in itertools.permutations(range(3)):
            for s in itertools.product((1, -1), repeat=3):
                R = np.zeros((3, 3))
                for r in range(3):
                    R[r, p[r]] = s[r]
                if abs(np.linalg.det(R) - 1) < 1e-12 and not np.array_equal(R, np.eye(3)):
                    out.append(R)
        _SIGNED_PERMS = out
    return _SIGNED_PERMS


def _axis_angle(axis, ang):
    x, y, z = np.asarray(axis, float) / np.linalg.norm(axis)
    c, s = np.cos(ang), np.sin(ang)
    C = 1 - c
    return np.array([[c + x * x * C, x * y * C - z * s, x * z * C + y * s],
                     [y * x * C + z * s, c + y * y * C, y * z * C - x * s],
                     [z * x * C - y * s, z * y * C + x * s, c + z * z * C]])


def orientation(rng, name):
    """Proper rotation matrix R of the class asked for; the rotated cell is vects @ R.T."""
    if name == 'generic':
        q = rng.normal(size=4)
        q /= np.linalg.norm(q)
        w, x, y, z = q
        R = np.array([[1 - 2 * (y * y + z * z), 2 * (x * y - z * w), 2 * (x * z + y * w)],
                      [2 * (x * y + z * w), 1 - 2 * (x * x + z * z), 2 * (y * z - x * w)],
                      [2 * (x * z - y * w), 2 * (y * z + x * w), 1 - 2 * (x * x + y * y)]])
    elif name == 'z45':
        R = _axis_angle([0, 0, 1], np.pi / 4 * float(rng.choice([1, -1, 3])))
    elif name == 'body-diagonal-120':
        R = np.array([[0.0, 0.0, 1.0], [1.0, 0.0, 0.0], [0.0, 1.0, 0.0]])
        if rng.random() < 0.5:
            R = R.T.copy()
    elif name == 'signed-permutation':
        sp = signed_permutations()
        R = sp[int(rng.integers(0, len(sp)))].copy()
    elif name == 'small-angle':
        R = _axis_angle(rng.normal(size=3), rng.uniform(1e-3, 3e-2))
    elif name == 'about-x':
        R = _axis_angle([1, 0, 0], rng.uniform(0.2, 2.9))
    else:
        raise ValueError(name)
    assert abs(np.linalg.det(R) - 1.0) < 1e-12 and np.abs(R @ R.T - np.eye(3)).max() < 1e-12
    return R


# ----------------------------------------------------------------------------------------- strings
def build_string(tokens, bracket, pq=None, seps=None, pad='', gap=' ', trail=''):
    """tokens: integer tokens as written; bracket: key of BRACKETS or 'bare'; pq: (p, q) or None."""
    seps = seps or [' '] * (len(tokens) - 1)
    body = tokens[0]
    for s, t in zip(seps, tokens[1:]):
        body += s + t
    if bracket == 'bare':
        return body
    o, c = BRACKETS[bracket]
    s = o + pad + body + pad + c + trail
    if pq is not None:
        s = f'{pq[0]}/{pq[1]}' + gap + s
    return s


def string_history(rng, bracket, fraction, nterms):
    """-> (string, expected [Fraction], variants) with variants = [(label, string, expected, same_numbers)]:
    strings a memo keyed on less than the whole string would mistake for the first one."""
    nums = [int(x) for x in rng.integers(-9, 10, nterms)]
    nums[0] = int(rng.choice([-1, 1])) * int(rng.integers(1, 10))            # never 0: digits can be appended to it
    nums[1] = int(rng.integers(10, 100))                                      # two digits: one can move across the blank
    if nterms == 4 and rng.random() < 0.5 and abs(nums[0] + nums[1]) < 100:
        nums[2] = -(nums[0] + nums[1])
    tokens = [str(x) for x in nums]
    pq = None
    gap = ' '
    if bracket != 'bare' and fraction != 'none':
        p, q = int(rng.integers(1, 10)), int(rng.integers(2, 10))
        if fraction == 'negative':
            p = -p
        pq = (p, q)
        gap = '' if fraction == 'tight' else ' '
    frac = Fraction(*pq) if pq else Fraction(1)
    s = build_string(tokens, bracket, pq, gap=gap)
    exp = [frac * x for x in nums]
    var = []
    # same numbers, other spelling
    seps = [' ' * int(rng.integers(2, 4)) for _ in tokens[1:]]
    var.append(('respaced', build_string(tokens, bracket, pq, seps=seps, gap=gap), exp, True))
    if bracket != 'bare':
        var.append(('padded', build_string(tokens, bracket, pq, pad=' ', gap=gap, trail=' '), exp, True))
        ob = [b for b in BRACKETS if b != bracket][int(rng.integers(0, 3))]
        var.append(('other-bracket', build_string(tokens, ob, pq, gap=gap), exp, True))
    # same characters, other numbers: one digit moved across the first blank ('1 12 3' -> '11 2 3')
    t2 = [tokens[0] + tokens[1][0], tokens[1][1:]] + tokens[2:]
    var.append(('digits-regrouped', build_string(t2, bracket, pq, gap=gap), [frac * int(x) for x in t2], False))
    # same body, other fraction (also: fraction dropped / added)
    if bracket != 'bare':
        if pq is None:
            pq2 = (int(rng.integers(1, 10)), int(rng.integers(2, 10)))
        else:
            pq2 = (pq[0], pq[1] + 1) if rng.random() < 0.5 else (-pq[0], pq[1])
        var.append(('other-fraction', build_string(tokens, bracket, pq2, gap=gap), [Fraction(*pq2) * x for x in nums], False))
        if pq is not None:
            var.append(('fraction-dropped', build_string(tokens, bracket, None), [Fraction(x) for x in nums], False))
    # sign moved
    t3 = [str(-x) for x in nums]
    var.append(('signs-flipped', build_string(t3, bracket, pq, gap=gap), [frac * -x for x in nums], False))
    # one term more / less
    if nterms == 4:
        var.append(('one-term-less', build_string(tokens[:3], bracket, pq, gap=gap), [frac * x for x in nums[:3]], False))
    else:
        var.append(('one-term-more', build_string(tokens + ['0'], bracket, pq, gap=gap), [frac * x for x in nums + [0]], False))
    # last term changed only (same prefix)
    t4 = tokens[:-1] + [str(nums[-1] + 1)]
    var.append(('last-term-changed', build_string(t4, bracket, pq, gap=gap), [frac * x for x in nums[:-1] + [nums[-1] + 1]], False))
    return s, exp, var


def fresh_str(s):
    """An equal string that is a distinct object."""
    return ''.join(list(s))
