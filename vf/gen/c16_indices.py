"""Presentation of an enumerated index set in every leading shape / container
type the Miller functions document ("(..., 3) array-like").  numpy only."""
from __future__ import annotations

import math

import numpy as np

SHAPES = ('single', 'N', 'MN')            # (3,), (N,3), (M,N,3) with M != N
SHAPES_SQ = ('single', 'N', 'MN', 'MM')   # ... plus (M,M,3): a transposition slip is silent there
TYPES = ('int-array', 'float-array', 'list')


def _split(n):
    """n = M*N with 2 <= M < N (M as close to 8 as possible)."""
    best = None
    for m in range(2, int(math.isqrt(n)) + 1):
        if n % m == 0 and m != n // m:
            if best is None or abs(m - 8) < abs(best - 8):
                best = m
    return best


def present(idx, shape):
    """List of arrays that together hold every row of ``idx`` exactly once."""
    idx = np.asarray(idx)
    n, k = idx.shape
    if shape == 'single':
        return [idx[j] for j in range(n)]
    if shape == 'N':
        return [idx]
    if shape == 'MN':
        n2 = n
        while n2 > 6 and _split(n2) is None:      # prime (or square-of-prime) count: peel rows off
            n2 -= 1
        m = _split(n2)
        if m is None:
            return [idx]
        out = [idx[:n2].reshape(m, n2 // m, k)]
        if n2 < n:
            out.append(idx[n2:])
        return out
    if shape == 'MM':
        m = int(math.isqrt(n))
        out = [idx[:m * m].reshape(m, m, k)]
        if m * m < n:
            out.append(idx[m * m:])
        return out
    raise ValueError(shape)


def as_type(arr, typ):
    if typ == 'int-array':
        return np.array(arr, dtype=int)
    if typ == 'float-array':
        return np.array(arr, dtype=float)
    if typ == 'list':
        return np.asarray(arr).tolist()
    raise ValueError(typ)


def shape_label(a):
    s = np.shape(a)
    return {1: '(3,)', 2: '(N,3)', 3: '(M,N,3)'}[len(s)] if s[-1] == 3 else \
           {1: '(4,)', 2: '(N,4)', 3: '(M,N,4)'}[len(s)]
