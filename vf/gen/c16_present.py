"""Presentation classes of an integer index array: element type, container,
leading shape, memory layout and magnitude.  numpy/stdlib only.

Every Miller function documents its argument as an "array-like object" of shape
(..., 3) / (..., 4); the value of a call must therefore not depend on HOW the
same integers are handed over.  This module produces, for one int64 reference
array, the same numbers as

* element types   int8 .. int64, uint8 .. uint64 (non-negative rows only),
                  float16 / float32 / float64;
* containers      list, tuple, nested tuples, list of row arrays, list of numpy
                  int8/int16 scalars (numpy infers the narrow dtype from them);
* leading shapes  (3,), (1,3), (N,3), (M,N,3), (1,1,3);
* memory layouts  C, Fortran-ordered, strided (every other element of a larger
                  buffer, first and last axis), negative strides, index axis
                  slowest-varying ("transposed"), read-only, byte-swapped;
* magnitudes      'bound' (the tier's enumerated cube), 'large' (|index| <= 11:
                  products > 127), 'huge' (up to the largest value the element
                  type represents, capped so that every EXACT result still fits
                  int64 / the float mantissa: products > 32767 and > 2**31).
"""
from __future__ import annotations

import math

import numpy as np

# name -> (numpy dtype or None, class used in mechanism keys, largest symmetric magnitude represented exactly)
PRES = {
    'int8': (np.int8, 'signed-narrow', 127),
    'int16': (np.int16, 'signed-narrow', 32767),
    'int32': (np.int32, 'signed-narrow', 2 ** 31 - 1),
    'int64': (np.int64, 'int64', 2 ** 62),
    'uint8': (np.uint8, 'unsigned', 255),
    'uint16': (np.uint16, 'unsigned', 65535),
    'uint32': (np.uint32, 'unsigned', 2 ** 32 - 1),
    'uint64': (np.uint64, 'unsigned', 2 ** 62),
    'float16': (np.float16, 'float-narrow', 600),            # 2u+v <= 1800 < 2048: still exact in binary16
    'float32': (np.float32, 'float-narrow', 10 ** 6),         # 2u+v <= 3e6 < 2**24: still exact in binary32
    'float64': (np.float64, 'float64', 2 ** 50),
    'list': (None, 'python', 2 ** 62),
    'tuple': (None, 'python', 2 ** 62),
    'nested-tuple': (None, 'python', 2 ** 62),
    'list-of-arrays': (None, 'python', 2 ** 62),
    'list-of-int8-scalars': (None, 'signed-narrow', 127),
    'list-of-int16-scalars': (None, 'signed-narrow', 32767),
    'all_indices-output': (None, 'all_indices', 2 ** 62),
}
NAMES = tuple(PRES)
UNSIGNED = ('uint8', 'uint16', 'uint32', 'uint64')
FLOATS = ('float16', 'float32', 'float64')
NDARRAY = tuple(k for k, v in PRES.items() if v[0] is not None)
MAGS = ('bound', 'large', 'huge')
SHAPES = ('single', 'one', 'N', 'MN', 'oneone')
LAYOUTS = ('C', 'F', 'strided-last', 'strided-first', 'reversed', 'transposed', 'readonly', 'byteswapped')

CAP_PLANE = 2000              # lcm(h,k,l) <= 8e9: beyond int32, exact in int64 and in a double
CAP_LINEAR = 2 * 10 ** 9      # 3 |index| < 2**53 and < 2**63: every exact result representable


def dclass(name):
    return PRES[name][1]


def eps_of(name):
    """Unit round-off of the element type the caller chose (0 for exact integer types)."""
    dt = PRES[name][0]
    if dt is not None and np.dtype(dt).kind == 'f':
        return float(np.finfo(dt).eps)
    return 0.0


def cap(name, kind):
    return min(PRES[name][2], CAP_PLANE if kind == 'plane' else CAP_LINEAR)


# ----------------------------------------------------------------------------------------- index sets
_CACHE = {}


def cube(m):
    """Every integer triple of [-m,m]^3 except 0, int64."""
    if m not in _CACHE:
        r = np.arange(-m, m + 1, dtype=np.int64)
        g = np.stack(np.meshgrid(r, r, r, indexing='ij'), axis=-1).reshape(-1, 3)
        _CACHE[m] = g[np.abs(g).sum(axis=1) != 0]
    return _CACHE[m]


def triples(rng, name, mag, kind, m, n_large, n_huge):
    """(N,3) int64 rows (never the zero row) every entry of which the presentation ``name`` holds exactly.
    kind: 'plane' | 'linear' | 'reduce'.  n_large = None -> the whole [-11,11]^3 cube."""
    unsigned = name in UNSIGNED
    H = cap(name, kind)
    if mag == 'bound':
        T = cube(m)
    elif mag == 'large':
        T = cube(min(11, H))
        if n_large is not None and n_large < len(T):
            if unsigned:
                T = T[(T >= 0).all(axis=1)]
            if n_large < len(T):
                # stratified: half of the sample from rows whose product / lcm leaves the int8 range
                p = np.abs(T.prod(axis=1))
                hot = np.flatnonzero(p > 127)
                cold = np.flatnonzero(p <= 127)
                a = rng.choice(hot, size=min(len(hot), n_large // 2), replace=False)
                b = rng.choice(cold, size=min(len(cold), n_large - len(a)), replace=False)
                T = T[np.sort(np.concatenate([a, b]))]
    elif mag == 'huge':
        lo = 0 if unsigned else -H
        T = rng.integers(lo, H + 1, (n_huge, 3), dtype=np.int64)
        # every zero pattern, and the corners of the representable range
        z = rng.integers(0, 8, n_huge)
        T[z == 1, 0] = 0
        T[z == 2, 1] = 0
        T[z == 3, 2] = 0
        T[(z == 4), :2] = 0
        s = 1 if unsigned else -1
        edge = np.array([[H, H, H], [H, H - 1, H - 2], [s * H, H, 1], [H, 0, 0], [0, s * H, H - 1], [1, H, s * H],
                         [s * H, s * H, s * H], [s * (H - 1), 0, H], [H - 2, s * (H - 1), 0], [0, 0, s * H]], dtype=np.int64)
        T = np.concatenate([edge, T])
        if kind == 'reduce':
            # multiples g*c of small coprime rows: the gcd itself is large
            c = cube(3)
            c = c[np.gcd.reduce(c, axis=1) == 1]
            if unsigned:
                c = c[(c >= 0).all(axis=1)]
            c = c[rng.integers(0, len(c), n_huge // 2)]
            g = rng.integers(1, np.maximum(H // np.abs(c).max(axis=1), 1) + 1)
            T = np.concatenate([T, c * g[:, None]])
    else:
        raise ValueError(mag)
    if unsigned:
        T = T[(T >= 0).all(axis=1)]
    return np.ascontiguousarray(T[np.abs(T).sum(axis=1) != 0])


def quads(name, tri):
    """Proper four-index rows (u, v, -(u+v), w) of the triples whose third index the presentation still holds."""
    t = np.asarray(tri, dtype=np.int64)
    q = np.stack([t[:, 0], t[:, 1], -(t[:, 0] + t[:, 1]), t[:, 2]], axis=1)
    H = PRES[name][2]
    ok = np.abs(q[:, 2]) <= H
    if name in UNSIGNED:
        ok &= q[:, 2] >= 0            # only (0 0 0 w) survives
    q = q[ok]
    return np.ascontiguousarray(q[np.abs(q).sum(axis=1) != 0])


def wrapping_quads(rng, name, n=12):
    """Rows (h, k, i, l) of a narrow integer type with h+k+i = +-2**bits: NOT a valid four-index set (the sum rule
    is violated by a whole wrap-around of the element type), although the sum evaluated in that type is 0."""
    dt = np.dtype(PRES[name][0])
    bits = 8 * dt.itemsize
    W = 2 ** bits
    hi = PRES[name][2]
    rows = []
    while len(rows) < n:
        if dt.kind == 'u':
            h = int(rng.integers(1, hi))
            k = int(rng.integers(1, hi))
            i = W - h - k
            sgn = 1
        else:
            h = int(rng.integers(W // 3 - hi // 8, hi + 1))
            k = int(rng.integers(W // 3 - hi // 8, hi + 1))
            i = W - h - k
            sgn = int(rng.choice([-1, 1]))
        if 0 < i <= hi and 0 < h <= hi and 0 < k <= hi:
            rows.append([sgn * h, sgn * k, sgn * i, int(rng.integers(0, 4))])
    return np.array(rows, dtype=np.int64)


# ----------------------------------------------------------------------------------------- shapes
def _split(n):
    best = None
    for a in range(2, int(math.isqrt(n)) + 1):
        if n % a == 0 and a != n // a:
            if best is None or abs(a - 8) < abs(best - 8):
                best = a
    return best


def pieces(idx, shape, rng, n_single):
    """[(piece, row numbers)]: int64 pieces of ``idx`` in the leading shape asked for and the rows of ``idx`` they hold
    (in C order of the piece).  'N' and 'MN' hold every row; 'single', 'one' and 'oneone' a sample of rows (always
    including the first and the last)."""
    idx = np.asarray(idx)
    n, k = idx.shape
    if shape in ('single', 'one', 'oneone'):
        cnt = {'single': n_single, 'one': max(4, n_single // 4), 'oneone': max(3, n_single // 8)}[shape]
        if n > cnt:
            sel = np.unique(np.concatenate([[0, n - 1], rng.choice(n, size=cnt - 2, replace=False)]))
        else:
            sel = np.arange(n)
        lead = {'single': (), 'one': (1,), 'oneone': (1, 1)}[shape]
        return [(idx[j].reshape(lead + (k,)), np.array([j])) for j in sel]
    if shape == 'N':
        return [(idx, np.arange(n))]
    if shape == 'MN':
        n2 = n
        while n2 > 6 and _split(n2) is None:
            n2 -= 1
        a = _split(n2)
        if a is None:
            return [(idx.reshape((1,) + idx.shape), np.arange(n))]
        out = [(idx[:n2].reshape(a, n2 // a, k), np.arange(n2))]
        if n2 < n:
            out.append((idx[n2:].reshape((1, n - n2, k)), np.arange(n2, n)))
        return out
    raise ValueError(shape)


# ----------------------------------------------------------------------------------------- layouts
def lay(arr, layout):
    """-> (array with the same values and dtype in the memory layout asked for, label of the layout produced).
    Layouts that do not exist for the array (Fortran order of a 1-d array, byte order of 1-byte items) fall back
    to the strided / read-only variant, and the label says so."""
    a = np.ascontiguousarray(arr)
    if layout == 'F' and a.ndim < 2:
        layout = 'strided-last'
    if layout in ('transposed', 'strided-first') and a.ndim < 2:
        layout = 'reversed'
    if layout == 'byteswapped' and a.dtype.itemsize == 1:
        layout = 'readonly'
    if layout == 'C':
        out = a
    elif layout == 'F':
        out = np.asfortranarray(a)
    elif layout == 'strided-last':
        big = np.full(a.shape[:-1] + (2 * a.shape[-1],), 77, dtype=a.dtype)
        big[..., ::2] = a
        out = big[..., ::2]
    elif layout == 'strided-first':
        big = np.full((2 * a.shape[0],) + a.shape[1:], 77, dtype=a.dtype)
        big[::2] = a
        out = big[::2]
    elif layout == 'reversed':
        out = np.ascontiguousarray(a[..., ::-1])[..., ::-1]
        if a.ndim >= 2:
            out = np.ascontiguousarray(out[::-1])[::-1]
    elif layout == 'transposed':
        out = np.moveaxis(np.ascontiguousarray(np.moveaxis(a, -1, 0)), 0, -1)
    elif layout == 'readonly':
        out = np.moveaxis(np.ascontiguousarray(np.moveaxis(a, -1, 0)), 0, -1) if a.ndim >= 2 else a.copy()
        out.setflags(write=False)
    elif layout == 'byteswapped':
        out = a.astype(a.dtype.newbyteorder())
    else:
        raise ValueError(layout)
    assert out.shape == a.shape and out.dtype.kind == a.dtype.kind and np.array_equal(out, a)
    return out, layout


def _nest(x, seq):
    if x.ndim == 1:
        return seq(int(c) for c in x)
    return seq(_nest(r, seq) for r in x)


def present(piece, name, layout):
    """The int64 ``piece`` as presentation ``name`` (and memory layout, for ndarray presentations).
    -> (object to hand to the function, layout label)."""
    piece = np.asarray(piece, dtype=np.int64)
    dt = PRES[name][0]
    if dt is not None:
        a = piece.astype(dt)
        if not np.array_equal(a.astype(np.float64), piece.astype(np.float64)):
            raise AssertionError(f'{name} does not hold the rows given exactly')
        return lay(a, layout)
    if name == 'list':
        return piece.tolist(), 'n/a'
    if name == 'tuple':                       # outermost container a tuple, rows lists
        return (tuple(piece.tolist())), 'n/a'
    if name == 'nested-tuple':
        return _nest(piece, tuple), 'n/a'
    if name == 'list-of-arrays':
        if piece.ndim == 1:
            return [np.int64(c) for c in piece], 'n/a'
        return [np.array(r) for r in piece], 'n/a'
    if name in ('list-of-int8-scalars', 'list-of-int16-scalars'):
        sc = np.int8 if name == 'list-of-int8-scalars' else np.int16

        def rec(x):
            if x.ndim == 1:
                return [sc(c) for c in x]
            return [rec(r) for r in x]
        return rec(piece), 'n/a'
    raise ValueError(name)
