"""Well-formed Miller / Miller-Bravais index strings with the numbers they show.

Grammar generated (the one atomman.tools.miller.fromstring documents):

    string   := [fraction] open ints close  |  ints            (legacy bare form)
    fraction := int '/' posint [spaces]
    ints     := 3 or 4 space-delimited (signed) integers
    open/close := [ ] | ( ) | < > | { }

The expected value is computed with exact rationals.  numpy/stdlib only.
"""
from __future__ import annotations

from fractions import Fraction

BRACKETS = {'square': '[]', 'round': '()', 'angle': '<>', 'curly': '{}'}
FRACTIONS = ('none', 'spaced', 'tight', 'negative')
CLASSES = [(b, f, n) for b in BRACKETS for f in FRACTIONS for n in (3, 4)] + [('bare', 'none', 3), ('bare', 'none', 4)]


def stratified(i):
    return CLASSES[i % len(CLASSES)]


def gen(rng, bracket, fraction, nterms):
    """-> (string, [Fraction,...] expected, dict(description))"""
    big = rng.random() < 0.25
    hi = 40 if big else 6
    nums = [int(x) for x in rng.integers(-hi, hi + 1, nterms)]
    if nterms == 4 and rng.random() < 0.6:
        nums[2] = -(nums[0] + nums[1])                 # a proper Miller-Bravais quadruple
    if not any(nums):
        nums[int(rng.integers(0, nterms))] = int(rng.integers(1, 5))
    sep = lambda: ' ' * int(rng.choice([1, 1, 1, 2, 3]))
    body = str(nums[0])
    for x in nums[1:]:
        body += sep() + str(x)
    frac = Fraction(1)
    if bracket == 'bare':
        s = body
    else:
        o, c = BRACKETS[bracket]
        pad = ' ' if rng.random() < 0.25 else ''
        s = o + pad + body + pad + c
        if fraction != 'none':
            q = int(rng.integers(2, 10))
            p = int(rng.integers(1, 10))
            if fraction == 'negative':
                p = -p
            frac = Fraction(p, q)
            # written with the numbers drawn (not reduced to lowest terms: '2/4' must read as 0.5)
            s = f'{p}/{q}' + (' ' * int(rng.choice([1, 1, 2])) if fraction != 'tight' else '') + s
        if rng.random() < 0.2:
            s += ' '
    return s, [frac * x for x in nums], dict(numbers=nums, fraction=str(frac))
