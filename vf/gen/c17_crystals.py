"""C17 workload generator: perfect reference crystals, imposed deformations
and slips (numpy only, never atomman; the crystals are built from their
lattice + basis definitions, not with atomman's prototypes or supercell code).

Class choice is a function of the case index; only the numbers inside a class
come from the case's rng.
"""
from __future__ import annotations

import itertools

import numpy as np

from ..oracle import geometry as G

STRUCTS = ['fcc', 'bcc', 'hcp', 'B2', 'L12']
ORIENTS = ['A', 'B', 'C']          # conventional / rotated orthogonal / rotated triclinic

# integer cell matrices (rows = new cell vectors in units of the conventional lattice vectors)
_U = {
    ('cubic-f', 'A'): [[1, 0, 0], [0, 1, 0], [0, 0, 1]],
    ('cubic-f', 'B'): [[1, -1, 0], [1, 1, -2], [1, 1, 1]],          # x=[1-10] y=[11-2] z=[111]
    ('cubic-f', 'C'): [[1, 1, 0], [0, 1, 1], [1, 0, 1]],            # 60 degree rhombohedral cell
    ('cubic-i', 'A'): [[1, 0, 0], [0, 1, 0], [0, 0, 1]],
    ('cubic-i', 'B'): [[1, 1, 1], [-1, 1, 0], [-1, -1, 2]],         # x=[111] y=[-110] z=[-1-12]
    ('cubic-i', 'C'): [[1, 0, 0], [1, 1, 0], [1, 1, 1]],            # strongly tilted
    ('hex', 'A'): [[1, 0, 0], [0, 1, 0], [0, 0, 1]],                # primitive hexagonal cell (gamma = 120)
    ('hex', 'B'): [[1, 0, 0], [0, 0, 1], [-1, -2, 0]],              # orthorhombic, c axis along y
    ('hex', 'C'): [[1, 0, 0], [1, 2, 0], [1, 0, 1]],                # orthorhombic base, tilted third vector
}


def unit_cell(struct, rng):
    """(lattice vectors (rows), basis in lattice coordinates, types, family, a)."""
    a = rng.uniform(2.8, 4.2)
    if struct in ('fcc', 'L12'):
        lat = a * np.eye(3)
        basis = np.array([[0, 0, 0], [.5, .5, 0], [.5, 0, .5], [0, .5, .5]], float)
        types = [1, 1, 1, 1] if struct == 'fcc' else [1, 2, 2, 2]
        fam = 'cubic-f'
    elif struct in ('bcc', 'B2'):
        lat = a * np.eye(3)
        basis = np.array([[0, 0, 0], [.5, .5, .5]], float)
        types = [1, 1] if struct == 'bcc' else [1, 2]
        fam = 'cubic-i'
    elif struct == 'hcp':
        ca = rng.choice([rng.uniform(1.57, 1.60), rng.uniform(1.66, 1.70)])
        lat = np.array([[a, 0, 0], [-a / 2, a * np.sqrt(3) / 2, 0], [0, 0, a * ca]])
        basis = np.array([[1 / 3, 2 / 3, .25], [2 / 3, 1 / 3, .75]], float)
        types = [1, 1]
        fam = 'hex'
    else:
        raise ValueError(struct)
    return lat, basis, np.array(types), fam, a


def oriented_cell(lat, basis, types, U):
    """Atoms of the cell with vectors U.lat (basis-site index kept).  Returned in the
    crystal frame; positions reduced into the new cell."""
    U = np.array(U, int)
    if np.linalg.det(U) < 0:
        U[2] *= -1
    V = U @ lat
    nexp = int(round(abs(np.linalg.det(U)))) * len(basis)
    m = int(np.abs(U).sum(axis=0).max()) + 1
    ns = np.array(list(itertools.product(range(-m, m + 1), repeat=3)), float)
    pos, site = [], []
    Vinv = np.linalg.inv(V)
    for b, bb in enumerate(basis):
        cart = (ns + bb) @ lat
        rel = cart @ Vinv
        keep = np.all((rel > -1e-9) & (rel < 1 - 1e-9), axis=1)
        pos.append(cart[keep])
        site += [b] * int(keep.sum())
    pos = np.vstack(pos)
    assert len(pos) == nexp, (len(pos), nexp)
    return V, pos, np.array(site)


def to_lammps_frame(V):
    """Rotation R (x' = R x) bringing a right-handed cell to LAMMPS form, and the rotated cell."""
    a, b, c, al, be, ga = G.lengths_angles(V)
    Vp = G.vects_from_lammps(*G.lammps_from_abc(a, b, c, al, be, ga))
    Rt = np.linalg.solve(V, Vp)            # V Rt = Vp
    assert np.allclose(Rt @ Rt.T, np.eye(3), atol=1e-10) and np.linalg.det(Rt) > 0
    return Rt.T, Vp


def lattice_shells(lat, basis, rmax):
    """Sorted distinct neighbour distances (all sites pooled) up to rmax with their multiplicity at site 0."""
    m = int(np.ceil(rmax / G.perp_widths(lat).min())) + 1
    ns = np.array(list(itertools.product(range(-m, m + 1), repeat=3)), float)
    d = []
    for b0 in basis:
        for b1 in basis:
            v = (ns + b1 - b0) @ lat
            r = np.linalg.norm(v, axis=1)
            d.append(r[(r > 1e-6) & (r < rmax)])
    d = np.sort(np.concatenate(d))
    shells = [d[0]]
    for x in d[1:]:
        if x > shells[-1] * (1 + 1e-6):
            shells.append(x)
    return np.array(shells)


def site_vectors(lat, basis, cutoff):
    """Ideal neighbour vectors (crystal frame) of every basis site within the cutoff."""
    m = int(np.ceil(cutoff / G.perp_widths(lat).min())) + 1
    ns = np.array(list(itertools.product(range(-m, m + 1), repeat=3)), float)
    out = []
    for b0 in basis:
        vs = []
        for b1 in basis:
            v = (ns + b1 - b0) @ lat
            r = np.linalg.norm(v, axis=1)
            vs.append(v[(r > 1e-6) & (r < cutoff)])
        out.append(np.vstack(vs))
    return out


def has_collinear(vs):
    """True when two different vectors of the set point in the same direction."""
    u = vs / np.linalg.norm(vs, axis=1)[:, None]
    c = u @ u.T
    np.fill_diagonal(c, 0)
    return bool((c > 1 - 1e-9).any())


def cutoff_choices(lat, basis, a, minratio=1.10, rmax_factor=1.75):
    """Cutoffs lying between complete shells: geometric mean of two successive shell
    radii whose ratio is at least ``minratio`` (so that a 3 % deformation moves no
    pair across the cutoff), restricted to neighbour sets without two collinear
    vectors (the p/q matching of the strain tool is by direction)."""
    sh = lattice_shells(lat, basis, rmax_factor * a)
    out = []
    for k in range(len(sh) - 1):
        if sh[k + 1] / sh[k] >= minratio:
            c = float(np.sqrt(sh[k] * sh[k + 1]))
            sv = site_vectors(lat, basis, c)
            if any(has_collinear(v) for v in sv):
                break
            out.append(dict(cutoff=c, nshell=k + 1, below=float(sh[k]), above=float(sh[k + 1]),
                            coord=[len(v) for v in sv]))
    return out


def gen_crystal(rng, struct, orient, shellclass, sizeclass, origin='zero', need=2.6, maxatoms=1400):
    """A perfect supercell.

    ``need`` : every perpendicular width must exceed need*cutoff (+ margin), so that
    with cutoff + |imposed relative displacement| < width/2 no pair is its own image.
    Returns a dict with pos (Cartesian, oriented frame), types, vects, origin, site,
    cutoff information, R (crystal frame -> oriented frame), site vectors in both frames.
    """
    lat, basis, types, fam, a = unit_cell(struct, rng)
    choices = cutoff_choices(lat, basis, a)
    ch = choices[min(shellclass, len(choices) - 1)]
    cutoff = ch['cutoff']
    V, pos, site = oriented_cell(lat, basis, types, _U[(fam, orient)])
    R, Vp = to_lammps_frame(V)
    pos = pos @ R.T
    w = G.perp_widths(Vp)
    mults = np.maximum(np.ceil(need * cutoff / w).astype(int), 1)
    # size classes add cells round-robin while the atom budget allows
    extra = [0, 1, 2, 3][sizeclass]
    k = 0
    while extra > 0 and len(pos) * np.prod(mults) < maxatoms:
        trial = mults.copy()
        trial[np.argmin(w * mults) if k % 2 == 0 else int(rng.integers(0, 3))] += 1
        if len(pos) * np.prod(trial) > maxatoms:
            break
        mults = trial
        extra -= 1
        k += 1
    shifts = np.array(list(itertools.product(range(mults[0]), range(mults[1]), range(mults[2]))), float) @ Vp
    allpos = (pos[None, :, :] + shifts[:, None, :]).reshape(-1, 3)
    allsite = np.tile(site, len(shifts))
    vects = Vp * mults[:, None]
    # move every atom off the cell faces by a common fractional offset
    frac = rng.uniform(0.02, 0.08, 3) / mults
    allpos = allpos + frac @ Vp
    L = np.linalg.norm(vects, axis=1).max()
    if origin == 'zero':
        o = np.zeros(3)
    elif origin == 'near':
        o = rng.uniform(-1, 1, 3) * L
    else:
        o = rng.uniform(-30, 30, 3) * L
    allpos = allpos + o
    sv_crystal = site_vectors(lat, basis, cutoff)
    sv = [v @ R.T for v in sv_crystal]
    return dict(struct=struct, orient=orient, a=a, lat=lat, basis=basis, cutoff=cutoff, shell=ch,
                nshellclass=len(choices), pos=allpos, types=types[allsite], site=allsite, vects=vects,
                origin=o, mults=mults, R=R, site_vectors=sv, site_vectors_crystal=sv_crystal,
                widths=G.perp_widths(vects), ntypes=int(types.max()))


# ---------------------------------------------------------------- deformations
FCLASSES = ['general', 'rotation', 'strain', 'shear', 'volumetric', 'identity']


def gen_F(rng, fclass, maxnorm=0.03):
    """Deformation gradient with |F - I|_Frobenius <= maxnorm."""
    if fclass == 'identity':
        return np.eye(3)
    if fclass == 'general':
        D = rng.normal(size=(3, 3))
    elif fclass == 'strain':
        D = rng.normal(size=(3, 3))
        D = (D + D.T) / 2
    elif fclass == 'shear':
        D = np.zeros((3, 3))
        i, j = rng.choice(3, 2, replace=False)
        D[i, j] = rng.choice([-1, 1])
    elif fclass == 'volumetric':
        D = np.eye(3) * rng.choice([-1, 1])
    elif fclass == 'rotation':
        ax = rng.normal(size=3)
        ax /= np.linalg.norm(ax)
        th = rng.uniform(0.3, 1.0) * maxnorm / (2 * np.sqrt(2)) * 2      # |R-I|_F = 2 sqrt2 sin(th/2)
        K = np.array([[0, -ax[2], ax[1]], [ax[2], 0, -ax[0]], [-ax[1], ax[0], 0]])
        Rm = np.eye(3) + np.sin(th) * K + (1 - np.cos(th)) * K @ K
        return Rm
    else:
        raise ValueError(fclass)
    D *= rng.uniform(0.3, 1.0) * maxnorm / np.linalg.norm(D)
    return np.eye(3) + D


def wrap(pos, vects, origin, pbc):
    """Positions moved into the cell along the periodic directions (relative coordinate mod 1)."""
    rel = G.rel(pos, vects, origin)
    for k in range(3):
        if pbc[k]:
            rel[:, k] -= np.floor(rel[:, k])
    return G.cart(rel, vects, origin)


# ---------------------------------------------------------------- slip geometry
def layers(pos, vects, origin, axis, tol=1e-6):
    """Heights of the atoms along the normal of the plane spanned by the other two
    cell vectors, the distinct layer heights and the unit normal."""
    v = np.asarray(vects, float)
    n = np.cross(v[(axis + 1) % 3], v[(axis + 2) % 3])
    n /= np.linalg.norm(n)
    if n @ v[axis] < 0:
        n = -n
    h = (np.asarray(pos) - origin) @ n
    hs = np.sort(h)
    lay = [hs[0]]
    for x in hs[1:]:
        if x > lay[-1] + tol:
            lay.append(x)
    return h, np.array(lay), n


SCLASSES = ['inplane-small', 'inplane-large', 'opening', 'general']


def gen_slip(rng, cry, axis, sclass, pbc, smax):
    """Slip plane between two atomic layers, the slip vector and the displaced half."""
    h, lay, n = layers(cry['pos'], cry['vects'], cry['origin'], axis)
    gaps = np.diff(lay)
    good = np.where(gaps >= 0.5 * gaps.max())[0]
    # keep at least one layer on each side
    k = int(good[int(rng.integers(0, len(good)))])
    hp = lay[k] + rng.uniform(0.3, 0.7) * gaps[k]
    v = cry['vects']
    t1, t2 = v[(axis + 1) % 3], v[(axis + 2) % 3]
    e1 = t1 / np.linalg.norm(t1)
    e2 = np.cross(n, e1)
    ang = rng.uniform(0, 2 * np.pi)
    inpl = np.cos(ang) * e1 + np.sin(ang) * e2
    if sclass == 'inplane-small':
        s = inpl * rng.uniform(0.02, 0.15) * cry['a']
    elif sclass == 'inplane-large':
        s = inpl * rng.uniform(0.5, 1.0) * smax
    elif sclass == 'opening':
        s = inpl * rng.uniform(0.05, 0.3) * smax + n * rng.uniform(0.05, 0.4) * smax
    else:
        s = rng.normal(size=3)
        s *= rng.uniform(0.2, 0.9) * smax / np.linalg.norm(s)
    if np.linalg.norm(s) > smax:
        s *= smax / np.linalg.norm(s)
    upper = h > hp
    planepos = cry['origin'] + n * hp + rng.uniform(-1, 1) * t1 + rng.uniform(-1, 1) * t2
    return dict(axis=axis, n=n, hp=hp, s=s, upper=upper, planepos=planepos, e1=e1, e2=e2, h=h, lay=lay,
                below=lay[k], above=lay[k + 1], sclass=sclass)
