"""C18 workload generators (numpy only): gamma-surface data sets, query points,
Peierls-Nabarro set-ups and disregistry profiles.  Class choices are functions
of the case index; only the numbers inside a class come from ``rng``."""
from __future__ import annotations

from math import gcd

import numpy as np

from . import cells

GRIDS = [(4, 4), (5, 7), (6, 5), (8, 8), (12, 10), (9, 4), (10, 6)]
SHIFTS = ['cubic-rect', 'cubic-oblique', 'hex-rect', 'hex-oblique', 'hex-4index', 'triclinic-oblique',
          'nobox-rect', 'nobox-oblique', 'ortho-rect', 'ortho-oblique', 'mono-oblique']
NPOS = [1, 2, 3, 4, 17]

_PAIRS = {
    'cubic-rect': [([.5, -.5, 0], [.5, .5, -1]), ([1, 0, 0], [0, 1, 0]), ([0, 0, 1], [1, -1, 0]), ([1, 1, 0], [0, 0, 1])],
    'cubic-oblique': [([.5, -.5, 0], [0, .5, -.5]), ([.5, .5, -.5], [-.5, .5, .5]), ([1, 0, 0], [1, 1, 0])],
    'hex-rect': [([1, 0, 0], [1, 2, 0]), ([1, 0, 0], [0, 0, 1]), ([0, 0, 1], [1, 2, 0])],
    'hex-oblique': [([1, 0, 0], [0, 1, 0]), ([1, 0, 0], [1, 1, 0]), ([1, 0, 0], [1, 0, 1])],
    'hex-4index': [([2 / 3, -1 / 3, -1 / 3, 0], [-1 / 3, 2 / 3, -1 / 3, 0]), ([1 / 3, 1 / 3, -2 / 3, 0], [0, 0, 0, 1]),
                   ([2 / 3, -1 / 3, -1 / 3, 0], [1 / 3, 1 / 3, -2 / 3, 1])],
    # orthorhombic (a != b != c, all angles 90): cell edges are rectangular, face diagonals are not
    'ortho-rect': [([1, 0, 0], [0, 1, 0]), ([1, 0, 0], [0, 0, 1]), ([0, 1, 0], [0, 0, 1]), ([1, 1, 0], [0, 0, 1])],
    'ortho-oblique': [([1, 1, 0], [-1, 1, 0]), ([1, 0, 0], [1, 1, 0]), ([0, 1, 1], [0, -1, 1]), ([.5, .5, 0], [0, 1, 0])],
    # monoclinic (beta != 90): a and c span the oblique (010) plane
    'mono-oblique': [([1, 0, 0], [0, 0, 1]), ([1, 0, 1], [0, 0, 1]), ([1, 0, 0], [1, 0, 1]), ([.5, 0, .5], [-1, 0, 1])],
}


def surface_classes(i):
    """(shift class, grid, layout, with delta, energy kind, row order) for case i.
    11 x 7 shift/grid combinations are all met in 77 consecutive cases; layout (3),
    delta (5) and order (13) cycle with periods coprime to those; the energy kind
    alternates every 22 cases, i.e. inside every shift class."""
    shift = SHIFTS[i % 11]
    grid = GRIDS[i % 7]
    layout = 'dup' if i % 3 == 0 else 'open'
    with_delta = i % 5 < 2
    kind = 'rough' if (i // 22) % 2 else 'smooth'
    order = 'shuffled' if i % 13 in (1, 4, 8, 11) else 'sorted'
    return shift, grid, layout, with_delta, kind, order


def _random_rotation(rng):
    q, r = np.linalg.qr(rng.normal(size=(3, 3)))
    q = q * np.sign(np.diag(r))
    if np.linalg.det(q) < 0:
        q[:, 0] = -q[:, 0]
    return q


def shift_vectors(rng, shift):
    """(cell kind or None, boxvects or None, a1vect, a2vect) - vectors as they are handed to the class."""
    fam = shift.split('-')[0]
    if fam == 'nobox':
        R = _random_rotation(rng)
        l1, l2 = rng.uniform(2.0, 5.0, 2)
        if shift == 'nobox-rect':
            return None, None, l1 * R[0], l2 * R[1]
        ang = np.radians(rng.choice([rng.uniform(40, 80), rng.uniform(100, 140)]))
        return None, None, l1 * R[0], l2 * (np.cos(ang) * R[0] + np.sin(ang) * R[1])
    kind = {'cubic': 'cubic', 'hex': 'hexagonal', 'triclinic': 'triclinic', 'ortho': 'orthorhombic', 'mono': 'monoclinic'}[fam]
    cell = cells.gen_cell(rng, kind)
    if fam == 'triclinic':
        while True:
            u1 = rng.integers(-2, 3, 3)
            u2 = rng.integers(-2, 3, 3)
            if np.any(np.cross(u1, u2) != 0):
                return kind, cell['vects'], u1.astype(float), u2.astype(float)
    p = _PAIRS[shift]
    a1, a2 = p[int(rng.integers(0, len(p)))]
    if rng.random() < 0.5 and fam != 'hex':
        a1, a2 = a2, a1
    return kind, cell['vects'], np.array(a1, float), np.array(a2, float)


def energy_table(rng, n1, n2, kind, scale):
    """(n1, n2) table of periodic data: entry [k, l] belongs to (k/n1, l/n2)."""
    k, l = np.meshgrid(np.arange(n1) / n1, np.arange(n2) / n2, indexing='ij')
    if kind == 'rough':
        t = rng.uniform(0.0, 1.0, (n1, n2))
    else:
        t = np.zeros((n1, n2))
        for _ in range(int(rng.integers(2, 5))):
            p, q = rng.integers(-2, 3, 2)
            t += rng.uniform(0.2, 1.0) * np.cos(2 * np.pi * (p * k + q * l) + rng.uniform(0, 2 * np.pi))
        t -= t.min()
        if t.max() < 1e-3:
            t += rng.uniform(0.0, 1.0, (n1, n2))
        t /= t.max()
    return t * scale


def gen_surface(rng, i, override=None, vectors=None):
    """Data set of surface case i.  ``override`` replaces class fields (keys shift, grid,
    layout, with_delta, kind, order); ``vectors`` = (shift, cellkind, boxvects, a1vect, a2vect)
    re-uses the geometry of another data set."""
    c = dict(zip(('shift', 'grid', 'layout', 'with_delta', 'kind', 'order'), surface_classes(i)))
    c.update(override or {})
    shift, (n1, n2), layout, with_delta, kind, order = (c[k] for k in ('shift', 'grid', 'layout', 'with_delta', 'kind', 'order'))
    if vectors is None:
        cellkind, boxvects, a1v, a2v = shift_vectors(rng, shift)
    else:
        shift, cellkind, boxvects, a1v, a2v = vectors
    scale = 10 ** rng.uniform(-3, 0)
    E = energy_table(rng, n1, n2, kind, scale)
    D = energy_table(rng, n1, n2, 'smooth' if kind == 'rough' else 'rough', rng.uniform(0.05, 0.5)) - 0.1 if with_delta else None
    if layout == 'dup':
        ks, ls = np.meshgrid(np.arange(n1 + 1), np.arange(n2 + 1), indexing='ij')
    else:
        ks, ls = np.meshgrid(np.arange(n1), np.arange(n2), indexing='ij')
    ks, ls = ks.ravel(), ls.ravel()
    if order == 'shuffled':
        perm = rng.permutation(len(ks))
        ks, ls = ks[perm], ls[perm]
    a1 = ks / n1
    a2 = ls / n2
    e = E[ks % n1, ls % n2]
    d = D[ks % n1, ls % n2] if with_delta else None
    return dict(shift=shift, cellkind=cellkind, boxvects=boxvects, a1vect=a1v, a2vect=a2v, n1=n1, n2=n2,
                layout=layout, kind=kind, order=order, with_delta=with_delta, a1=a1, a2=a2, E=e, delta=d,
                table=E, dtable=D, scale=scale, sig=(shift, f'{n1}x{n2}', layout, 'delta' if with_delta else 'nodelta', kind, order))


def query_points(rng, n, n1, n2, cushion):
    """(generic, boundary, edge): n generic fractional points; hostile points on
    the wrap/blend boundaries (-c, c, 1-c), cell mid points and points a hair
    off the cell edge; and points with a coordinate exactly on the cell edge
    (0, 1, -0.0)."""
    a = rng.uniform(-0.2, 1.2, (n, 2))
    hard = [-cushion, cushion, 1 - cushion, 0.5 / n1, 1 - 0.5 / n1, 1 - 1e-9, 1e-9, -1e-9, 1 - cushion - 1e-9, 0.5 / n2, 1 - 0.5 / n2]
    if cushion == 0.0:
        hard = hard[3:]
    pick = lambda lst: lst[int(rng.integers(0, len(lst)))]
    hb = np.array([[pick(hard), rng.uniform(0.01, 0.99)] for _ in range(4)] + [[rng.uniform(0.01, 0.99), pick(hard)] for _ in range(4)]
                  + [[pick(hard), pick(hard)] for _ in range(3)])
    edge = [0.0, 1.0, -0.0]
    he = np.array([[pick(edge), rng.uniform(0.01, 0.99)] for _ in range(3)] + [[rng.uniform(0.01, 0.99), pick(edge)] for _ in range(3)]
                  + [[pick(edge), pick(edge)], [pick(edge), pick(hard)]])
    return a, hb, he


def periods(rng, n):
    pq = rng.integers(-3, 4, (n, 2))
    pq[0] = (3, -3)
    if n > 1:
        pq[1] = (-3, 3)
    if n > 2:
        pq[2] = (0, rng.choice([-1, 1]))
    return pq


# ----------------------------------------------------------------------------
# Peierls-Nabarro set-ups
# ----------------------------------------------------------------------------
PN_CELLS = ['cubic', 'hexagonal', 'triclinic', 'cartesian']
PN_KS = ['iso', 'stroh']
PN_PROFILES = ['arctan', 'smooth', 'rough', 'nodes', 'offset']
PN_TAU = ['zero', 'sym', 'asym']
PN_ALPHA = ['zero', 'scalar', 'one', 'two', 'three']
PN_BETA = ['zero', 'diag', 'sym', 'asym']
PN_N = [5, 8, 13, 21, 34, 47]
PN_MN = [('x', 'y'), ('x', 'y'), ('y', 'z'), ('z', 'x')]


def pn_classes(i):
    """Stratification of Peierls-Nabarro case i.  The 16 flag settings cycle
    with i, everything else with periods coprime to 16 or offset by i // 16."""
    flags = dict(fullstress=bool(i & 1), cdiffstress=bool(i & 2), cdiffelastic=bool(i & 4), cdiffsurface=bool(i & 8))
    j = i // 16
    return dict(cell=PN_CELLS[(i + j) % 4], K=PN_KS[(i // 4 + j) % 2], profile=PN_PROFILES[i % 5], tau=PN_TAU[(i + j) % 3],
                alpha=PN_ALPHA[(i // 2 + j) % 5], beta=PN_BETA[(i // 3 + j) % 4], N=PN_N[(i + 2 * j) % 6], mn=PN_MN[(i // 5) % 4],
                flags=flags, cutoff='default' if i % 4 else 'custom', x0='centred' if i % 3 else 'shifted')


def _integer(v, den):
    w = np.rint(np.asarray(v, float) * den).astype(int)
    g = 0
    for t in w:
        g = gcd(g, int(abs(t)))
    return w // max(g, 1)


def stiffness(rng, K, cell):
    """6x6 Voigt stiffness matrix (positive definite) in arbitrary pressure units."""
    mu = rng.uniform(0.2, 0.6)
    lam = rng.uniform(0.3, 0.9)
    C = np.zeros((6, 6))
    if K == 'iso':
        C[:3, :3] = lam
        C[np.arange(3), np.arange(3)] = lam + 2 * mu
        C[np.arange(3, 6), np.arange(3, 6)] = mu
        return C
    if cell == 'cubic':
        A = rng.choice([rng.uniform(0.35, 0.7), rng.uniform(1.6, 3.2)])      # Zener ratio away from 1
        c12 = lam
        c44 = mu
        c11 = c12 + 2 * c44 / A
        C[:3, :3] = c12
        C[np.arange(3), np.arange(3)] = c11
        C[np.arange(3, 6), np.arange(3, 6)] = c44
        return C
    if cell == 'hexagonal':
        c11, c12, c13, c33, c44 = lam + 2 * mu, lam, lam * rng.uniform(0.6, 0.95), (lam + 2 * mu) * rng.uniform(1.1, 1.4), mu * rng.uniform(0.6, 0.9)
        C[0, 0] = C[1, 1] = c11
        C[0, 1] = C[1, 0] = c12
        C[0, 2] = C[2, 0] = C[1, 2] = C[2, 1] = c13
        C[2, 2] = c33
        C[3, 3] = C[4, 4] = c44
        C[5, 5] = (c11 - c12) / 2
        return C
    # general (triclinic): isotropic part plus a symmetric perturbation, kept positive definite
    C[:3, :3] = lam
    C[np.arange(3), np.arange(3)] = lam + 2 * mu
    C[np.arange(3, 6), np.arange(3, 6)] = mu
    P = rng.normal(size=(6, 6)) * 0.06
    C = C + P + P.T
    w = np.linalg.eigvalsh(C).min()
    if w < 0.05:
        C += (0.05 - w) * np.eye(6)
    return C


def gen_pn(rng, i, cls=None):
    """Geometry + settings of one Peierls-Nabarro case.  The slip plane holds
    both shift vectors; the Burgers vector is the first shift vector; the line
    direction is an integer combination of the two."""
    c = dict(cls or pn_classes(i))
    cell = c['cell']
    if cell == 'cartesian':
        R = _random_rotation(rng)
        l1, l2 = rng.uniform(2.2, 3.5, 2)
        ang = np.radians(rng.choice([90.0, rng.uniform(55, 75), rng.uniform(105, 125)]))
        a1v = l1 * R[0]
        a2v = l2 * (np.cos(ang) * R[0] + np.sin(ang) * R[1])
        phi = rng.uniform(0, 2 * np.pi)
        xi = np.cos(phi) * R[0] + np.sin(phi) * R[1]
        nrm = np.cross(a1v, a2v)
        nrm /= np.linalg.norm(nrm)
        if rng.random() < 0.5:
            nrm = -nrm
        c.update(boxvects=None, a1vect=a1v, a2vect=a2v, burgers=a1v.copy(), transform=np.array([np.cross(nrm, xi), nrm, xi]),
                 xi_uvw=None, slip_hkl=None)
    else:
        cv = cells.gen_cell(rng, cell)['vects']
        if cell == 'triclinic':
            while True:
                u1 = rng.integers(-1, 2, 3)
                u2 = rng.integers(-2, 3, 3)
                if np.any(np.cross(u1, u2) != 0) and np.any(u1 != 0):
                    break
            a1v, a2v, den = u1.astype(float), u2.astype(float), 1
        elif cell == 'cubic':
            pairs = _PAIRS['cubic-rect'] + _PAIRS['cubic-oblique']
            a1v, a2v = pairs[int(rng.integers(0, len(pairs)))]
            a1v, a2v, den = np.array(a1v, float), np.array(a2v, float), 2
        else:
            pairs = _PAIRS['hex-rect'] + _PAIRS['hex-oblique']
            a1v, a2v = pairs[int(rng.integers(0, len(pairs)))]
            a1v, a2v, den = np.array(a1v, float), np.array(a2v, float), 1
        i1, i2 = _integer(a1v, den), _integer(a2v, den)
        hkl = np.cross(i1, i2)
        g = 0
        for t in hkl:
            g = gcd(g, int(abs(t)))
        hkl = hkl // g
        if rng.random() < 0.5:
            hkl = -hkl
        while True:
            p, q = rng.integers(-2, 3, 2)
            xi = p * i1 + q * i2
            # a line along the hexagonal c axis makes the Stroh eigenproblem degenerate (C12's exclusion)
            if (p or q) and not (cell == 'hexagonal' and c['K'] == 'stroh' and xi[0] == 0 and xi[1] == 0):
                break
        c.update(boxvects=cv, a1vect=a1v, a2vect=a2v, burgers=a1v.copy(), transform=None, xi_uvw=xi, slip_hkl=hkl)
    c['C'] = stiffness(rng, c['K'], cell)
    # settings
    s = rng.uniform(0.002, 0.02)
    if c['tau'] == 'zero':
        tau = np.zeros((3, 3))
    else:
        tau = rng.normal(size=(3, 3)) * s
        if c['tau'] == 'sym':
            tau = (tau + tau.T) / 2
    c['tau_value'] = tau
    al = rng.uniform(-0.02, 0.05, 3)
    c['alpha_value'] = {'zero': 0.0, 'scalar': float(al[0]), 'one': [float(al[0])], 'two': [float(al[0]), float(al[1])],
                        'three': [float(t) for t in al]}[c['alpha']]
    if c['beta'] == 'zero':
        beta = np.zeros((3, 3))
    elif c['beta'] == 'diag':
        beta = np.diag(rng.uniform(0.0, 0.3, 3))
    else:
        beta = rng.uniform(-0.1, 0.3, (3, 3))
        if c['beta'] == 'sym':
            beta = (beta + beta.T) / 2
    c['beta_value'] = beta
    c['cutoff_value'] = None if c['cutoff'] == 'default' else float(10 ** rng.uniform(1.5, 4))
    return c


def gen_grid(rng, N, b, x0='centred'):
    dx = b / rng.uniform(2.0, 12.0)
    x = (np.arange(N) - (N - 1) / 2) * dx
    if x0 == 'shifted':
        x = x + rng.uniform(-30, 30) * dx
    return x


def gen_profile(rng, kind, x, n1, n2):
    """Profile in units of the Burgers vector: (along, perp) per grid point, or
    for kind 'nodes' integer node indices (k, l) with along = k/n1 (in units of
    the first shift vector) and l/n2 in units of the second."""
    N = len(x)
    w = (x[-1] - x[0]) * rng.uniform(0.05, 0.25)
    c = x[(N - 1) // 2] + rng.uniform(-1, 1) * (x[1] - x[0])
    f = np.arctan((x - c) / w) / np.pi + 0.5
    f = (f - f[0]) / (f[-1] - f[0])
    t = (x - x[0]) / (x[-1] - x[0])
    if kind == 'arctan':
        return f, np.zeros(N)
    if kind == 'smooth':
        return f + 0.1 * np.sin(2 * np.pi * t) * rng.uniform(-1, 1), 0.3 * np.sin(np.pi * t) ** 2 * rng.uniform(-1, 1)
    if kind == 'rough':
        return f + rng.normal(size=N) * 0.05, rng.normal(size=N) * 0.05
    if kind == 'offset':
        return f + rng.uniform(-2, 2), np.full(N, rng.uniform(-1, 1))
    if kind == 'nodes':
        k = np.rint(f * n1).astype(int) + n1 * int(rng.integers(-2, 3))
        l = np.cumsum(rng.integers(-1, 2, N))
        return k, l
    raise ValueError(kind)


# ----------------------------------------------------------------------------
# alternative shift vectors handed to the conversion / query methods
# ----------------------------------------------------------------------------
ALT_KINDS = ['sum', 'diff', 'swap', 'a1only', 'a2only', 'general', 'fractional']
XMODES = ['derived', 'explicit-saved', 'explicit-other']


def alt_kind(i):
    """Alternative-vector class of surface case i: cycles inside every shift class
    (the shift class is i % 11)."""
    return ALT_KINDS[(i // 11) % len(ALT_KINDS)]


def alt_vectors(rng, kind, u1, u2):
    """(a1vect or None, a2vect or None) as crystal vectors, built from the saved
    three-index shift vectors u1, u2.  None = keyword not given (saved vector used)."""
    u1 = np.asarray(u1, float)
    u2 = np.asarray(u2, float)
    if kind == 'sum':
        return u1 + u2, u2.copy()
    if kind == 'diff':
        return u1.copy(), u2 - u1
    if kind == 'swap':
        return u2.copy(), u1.copy()
    if kind == 'a1only':
        return (u1 + u2 if rng.random() < 0.5 else u1 - u2), None
    if kind == 'a2only':
        return None, (u2 - u1 if rng.random() < 0.5 else u2 + 2 * u1)
    if kind == 'general':
        while True:
            p, q, r, s = (int(t) for t in rng.integers(-2, 3, 4))
            if p * s - q * r != 0 and q != 0:        # q != 0: the new a1 is not along the saved a1
                return p * u1 + q * u2, r * u1 + s * u2
    if kind == 'fractional':
        return 0.5 * u1 + 0.5 * u2, u2 - 0.5 * u1
    raise ValueError(kind)


# ----------------------------------------------------------------------------
# call histories on one object
# ----------------------------------------------------------------------------
HIST_STEPS = ['x-respaced', 'x-relength', 'x-shifted', 'disregistry', 'tau', 'alpha', 'beta', 'cutoff', 'flags',
              'K-load', 'gamma-set', 'solve-kwargs']
HIST_STRIDES = [1, 5, 7, 11]
HIST_N = [7, 9, 12, 16, 21, 30]
HIST_LEN = 5


def history_plan(i):
    """Five (step kind, how) pairs for Peierls-Nabarro history case i.  The first step is
    HIST_STEPS[i % 12], the following ones advance by a stride coprime to 12 that
    changes every 12 cases, so that in 48 consecutive cases every kind is met 20
    times, every kind comes first 4 times and every ordered pair of different kinds
    with one of four index differences follows each other.  how = 'args' (x and
    disregistry passed to every energy method) or 'stored' (assigned to pn.x /
    pn.disregistry, methods called without arguments)."""
    stride = HIST_STRIDES[(i // 12) % 4]
    steps = [HIST_STEPS[(i + j * stride) % 12] for j in range(HIST_LEN)]
    hows = ['args' if (i + j + i // 12) % 2 else 'stored' for j in range(HIST_LEN)]
    return list(zip(steps, hows))


GS_HIST_MODES = ['set-set', 'set-model', 'model-set', 'empty-set', 'same-shape', 'same-vectors', 'ABA']


def gs_history_plan(i):
    """(mode, index of surface A, index of surface B) for gamma-surface history case i.
    B differs from A in shift class, grid, layout and presence of plane separations
    unless the mode says otherwise."""
    mode = GS_HIST_MODES[i % len(GS_HIST_MODES)]
    ia = i
    ib = 3 * i + 4 + (i // 7)
    return mode, ia, ib


# ----------------------------------------------------------------------------
# who owns the numbers: arrays handed over / handed out, several instances side by side
# ----------------------------------------------------------------------------
GS_ALIAS_FORMS = ['array', 'ravel-view', 'strided', 'series', 'float32', 'list', 'tuple']
GS_ALIAS_PATHS = ['init', 'empty-set', 'set-again', 'model']
SCRAMBLES = ['scale', 'other-data', 'zeros']
GS_ALIAS_ARGS = ['E', 'a1', 'a2', 'delta', 'a1vect', 'a2vect']
GS_RESULT_ATTRS = ['a1vect', 'a2vect', 'planenormal']
QUERY_FORMS = ['int-scalar', 'int-list', 'int-array', 'int-in-cell', 'float32', 'tuple', 'int-pos', 'empty']


def gs_alias_plan(i):
    """(form, path, scramble kind, surface index, first argument) of ownership case i.
    Form cycles with period 7, path with i // 7 (all 28 pairs in 28 consecutive
    cases), the scramble kind with period 3; the surface index i + i // 7 moves the
    grid (period 7) against the form; the argument scrambled first rotates."""
    return (GS_ALIAS_FORMS[i % 7], GS_ALIAS_PATHS[(i // 7) % 4], SCRAMBLES[i % 3], i + i // 7, i % len(GS_ALIAS_ARGS))


def hand_over(values, form, slot=0, nslots=4):
    """(argument object to hand to the code under test, writer) for a 1-D or 2-D float array.
    ``writer(new_values)`` overwrites IN PLACE whatever the caller still owns of the
    argument (None when the form is immutable).  The numbers handed over are
    exactly ``values`` (float32: the caller rounds first, see promote())."""
    v = np.array(values, float)
    if form == 'array':
        buf = v.copy()
        return buf, lambda new: buf.__setitem__(Ellipsis, new)
    if form == 'ravel-view':
        base = v.reshape((1,) + v.shape).copy()          # the caller's table; its first row is what is handed over
        buf = base[0]
        return buf, lambda new: base.__setitem__(0, new)
    if form == 'strided':
        table = np.zeros(v.shape + (nslots,))
        table[..., slot] = v
        buf = table[..., slot]                            # non-contiguous view of the caller's table
        return buf, lambda new: table.__setitem__((Ellipsis, slot), new)
    if form == 'float32':
        buf = v.astype(np.float32)
        return buf, lambda new: buf.__setitem__(Ellipsis, new)
    if form == 'list':
        buf = v.tolist()

        def write(new):
            buf[:] = np.asarray(new, float).tolist()
        return buf, write
    if form == 'tuple':
        t = v.tolist()
        return (tuple(tuple(r) for r in t) if v.ndim == 2 else tuple(t)), None
    raise ValueError(form)


def promote(values, form):
    """The float64 numbers the code under test receives when ``values`` are handed over in ``form``."""
    v = np.array(values, float)
    return v.astype(np.float32).astype(float) if form == 'float32' else v


def scrambled(rng, kind, values):
    """Other numbers of the same shape (never equal to ``values`` unless they are all zero and kind is 'zeros')."""
    v = np.array(values, float)
    if kind == 'scale':
        return v * 3.0 + (1.0 if not np.any(v) else 0.0)
    if kind == 'other-data':
        return rng.permutation(v.ravel()).reshape(v.shape) * 1.7 + 0.31
    if kind == 'zeros':
        return np.zeros_like(v)
    raise ValueError(kind)


PN_ALIAS_PATHS = ['init', 'setter', 'solve-kw', 'model']
PN_ALIAS_FORMS = ['array', 'strided', 'float32', 'list', 'ravel-view']
PN_ALIAS_ARGS = ['tau', 'beta', 'alpha', 'x', 'disregistry', 'gamma-data']
PN_RESULT_ATTRS = ['K_tensor', 'burgers', 'transform']


def pn_alias_plan(i):
    """(form, path, scramble kind, first argument) of Peierls-Nabarro ownership case i:
    form period 5, path period 4 (all 20 pairs in 20 consecutive cases), kind period 3."""
    return PN_ALIAS_FORMS[i % 5], PN_ALIAS_PATHS[i % 4], SCRAMBLES[i % 3], i % len(PN_ALIAS_ARGS)
