"""C19 - synthesiser of LAMMPS log / screen output (numpy only, never imports atomman).

Written from the layout LAMMPS itself prints (src/finish.cpp, src/thermo.cpp,
src/run.cpp, src/min.cpp of the 2011-2024 releases), not from the reader:

    LAMMPS (29 Oct 2020)                              <- banner, first line of log.lammps / stdout
      using 1 OpenMP thread(s) per MPI task
    <echoed input script incl. its blank lines and comments>   (log file only)
    run 100                                           (log file only)
    Neighbor list info ...                            (optional block)
    Setting up Verlet run ...                         (optional block)
    Per MPI rank memory allocation (min/avg/max) = 3.2 | 3.2 | 3.2 Mbytes
        or  Memory usage per processor = 2.04 Mbytes  (releases before 2016)
    Step Temp E_pair ...                              <- thermo header (one line)
           0   1.44   -6.77 ...                       <- one line per thermo output
    Loop time of 0.64 on 4 procs for 250 steps with 4000 atoms
    <blank>
    Performance: ... / NN.N% CPU use ...              (newer releases)
    <blank>
    Minimization stats: ...                           (minimize only)
    <blank>
    MPI task timing breakdown: + table                (new)   |  Pair  time (%) = t (p)   (old)
    <blank>
    Nlocal: ... Histogram: ... Nghost: ... Neighs: ...
    <blank>
    Total # of neighbors = ...
    Total wall time: 0:00:02                          (end of the log)

``synth(rng, spec)`` returns ``(text, model)``.  The *model* is the ground truth
the text was printed from: version string, date, and per run/minimize block the
column names, the printed tokens, their numerical values and the timing table.
"""
from __future__ import annotations

import numpy as np

MONTHS = ['Jan', 'Feb', 'Mar', 'Apr', 'May', 'Jun', 'Jul', 'Aug', 'Sep', 'Oct', 'Nov', 'Dec']
DAYS_IN = [31, 28, 31, 30, 31, 30, 31, 31, 30, 31, 30, 31]

FLOAT_KEYS = ['Temp', 'Press', 'PotEng', 'KinEng', 'TotEng', 'Enthalpy', 'E_pair', 'E_mol', 'E_vdwl', 'E_coul',
              'E_bond', 'E_angle', 'E_long', 'E_tail', 'Volume', 'Density', 'Lx', 'Ly', 'Lz', 'Xy', 'Xz', 'Yz',
              'Xlo', 'Xhi', 'Pxx', 'Pyy', 'Pzz', 'Pxy', 'Pxz', 'Pyz', 'Fmax', 'Fnorm', 'Time', 'Dt', 'CPU',
              'T/CPU', 'S/CPU', 'CPULeft', 'Cella', 'CellAlpha', 'c_pe_all', 'c_msd[4]', 'v_strain', 'f_avg[1]',
              'c_st[2][3]', 'v_E-coh', 'f_2', 'c_1']
INT_KEYS = ['Atoms', 'Elapsed', 'Elaplong', 'Part', 'Nbuild', 'Ndanger', 'Bonds', 'Angles', 'v_count', 'c_nb']

# ---------------------------------------------------------------------------------------------
# stratification tables (class = deterministic function of the case index)
MEMS = ['per-mpi-rank', 'per-processor']
# timing breakdown printed after the loop line: 'new' = 'MPI task timing breakdown' table (timer normal), 'new-full' = the
# same with a %CPU column (timer full), 'old' = 'Pair  time (%) = t (p)' lines (releases before 2015), 'post-no' = 'run N
# post no' (loop line only, no histograms), 'none' = 'timer loop': loop line, no breakdown, Nlocal/Nghost histograms kept
BREAKDOWNS = ['new', 'old', 'new-full', 'post-no', 'none']
FORMATS = ['classic', 'aligned', 'custom']
TRUNCS = ['complete', 'rows', 'complete', 'after-loop', 'complete', 'mid-breakdown', 'complete', 'one-row',
          'complete', 'rows', 'complete', 'header-only']
FLAVOURS = ['logfile', 'screen']
PLANS = ['junction', 'disjoint', 'overlap', 'restart0', 'nested', 'out-of-order', 'starts-before', 'mixed-interval']
BANNERS = ['plain', 'update', 'suffix', 'plain', 'development', 'not-first-line']
VALUE_CLASSES = ['thermal', 'zero', 'integral', 'tiny', 'huge', 'mixed-sign', 'mixed-int']


def spec_for(i, rng, max_runs=6, big=False):
    """Stratified description of log number ``i`` (all class choices are functions of i;
    only the numbers inside a class come from rng)."""
    s = dict(
        mem=MEMS[i % 2],
        breakdown=BREAKDOWNS[(i // 2) % 5],
        fmt=FORMATS[(i // 10) % 3],
        trunc=TRUNCS[(i // 3) % 12],
        flavour=FLAVOURS[(i // 7) % 2],
        plan=PLANS[(i // 5) % 8],
        banner=BANNERS[(i // 11) % 6],
        nruns=1 + (i // 4) % max_runs,
        ncols=2 + (i // 13) % 8,                     # 2..9 thermo keywords
        step_pos=['first', 'first', 'middle', 'first', 'absent'][(i // 17) % 5],
        eol='\r\n' if (i // 37) % 5 == 3 else '\n',   # log written on Windows
        colchange=((i // 19) % 4 == 3),              # thermo_style changed between the runs
        flip=((i // 9) % 5 == 2),                    # last stage prints its float columns as whole numbers (Temp = 0 ...)
        blowup=((i // 31) % 6 == 4),                 # nan / inf printed after the run blew up
        big=big and (i % 23 == 0),
        middle=((i // 6) % 3 == 1),                  # the plan's relation is realised by the last run but one
    )
    if s['middle'] and s['plan'] != 'junction' and s['nruns'] < 3:
        s['nruns'] = 3 + (i // 29) % 3
    if s['plan'] in ('nested', 'out-of-order', 'starts-before', 'overlap', 'restart0', 'mixed-interval', 'disjoint') \
            and s['nruns'] < 2:
        s['nruns'] = 2 + (i // 29) % 3
    return s


# ---------------------------------------------------------------------------------------------
# numbers
def _fmt_float(v, fmt, custom):
    if fmt == 'classic':
        return '%12.8g' % v
    if fmt == 'aligned':
        return format(v, '< 14.8g')
    return custom % v


def _fmt_int(v, fmt):
    if fmt == 'aligned':
        return format(int(v), '>10d')
    return '%8d' % int(v)


def _float_column(rng, n, vclass):
    if vclass == 'zero':
        return np.zeros(n)
    scale = 10.0 ** rng.uniform(-3, 6)
    if vclass == 'thermal':
        return scale * (1 + 0.1 * rng.standard_normal(n)) * rng.choice([-1, 1])
    if vclass == 'integral':                       # whole numbers printed by %g without a point
        return np.round(rng.uniform(0, 500, n))
    if vclass == 'tiny':
        return rng.standard_normal(n) * 10.0 ** rng.uniform(-14, -6)
    if vclass == 'huge':
        return rng.standard_normal(n) * 10.0 ** rng.uniform(9, 18)
    if vclass == 'mixed-sign':
        return scale * rng.standard_normal(n)
    if vclass == 'mixed-int':                      # mostly whole numbers, some fractional
        v = np.round(rng.uniform(-50, 50, n))
        k = rng.integers(0, n)
        v[k] += 0.5
        return v
    raise ValueError(vclass)


def plan_steps(rng, plan, nruns, big=False, middle=False):
    """Step numbers printed by each run (first step, multiples of the thermo interval, last step).

    All plans chain the runs junction-wise (run k+1 starts at the last step of run k, as LAMMPS does
    when nothing resets the counter) except for ONE run, which realises the plan's relation to
    the range covered so far: the last run, or with ``middle`` (>= 3 runs) the last but one - the
    final run then carries on from where that run stopped, on the same thermo grid, to beyond
    everything printed so far (0-1000, restart from a checkpoint 200-600, carried on 600-1400)."""
    N = int(rng.choice([1, 10, 50, 100, 250, 1000]))
    lens = [int(rng.integers(0, 9 if not big else 300)) for _ in range(nruns)]   # number of intervals; 0 = 'run 0'
    if plan != 'junction':
        lens = [max(2, L) for L in lens]
    on_grid = plan != 'junction' or rng.random() < 0.5
    start = int(rng.integers(0, 20)) * N if on_grid else int(rng.integers(0, 20 * N + 1))
    if rng.random() < 0.15:
        start += 3_000_000_000                      # bigint step counter
    if plan == 'restart0':
        start = 0

    def run_from(a, nint, every, extra=None):
        b = a + nint * every if extra is None else extra
        s = [a] + [k for k in range((a // every + 1) * every, b, every)] + ([b] if b > a else [])
        return s

    out = []
    a = start
    rel_k = nruns - 2 if (middle and nruns >= 3 and plan != 'junction') else nruns - 1
    for k in range(nruns):
        last = (k == rel_k) and nruns > 1
        if k > rel_k:                                # the run after the one that realised the relation
            hi = max(max(r) for r in out)
            a0 = out[-1][-1]
            out.append(run_from(a0, max(hi - a0, 0) // N + max(1, min(lens[k], 8)), N))
            continue
        if not last or plan == 'junction':
            if on_grid:
                s = run_from(a, lens[k], N)
            else:                                    # run length not a multiple of the thermo interval
                s = run_from(a, lens[k], N, a + lens[k] * N + int(rng.integers(0, N)))
            out.append(s)
            a = s[-1]
            if plan == 'disjoint' and not last:
                pass
            continue
        lo = min(min(r) for r in out)
        hi = max(max(r) for r in out)
        prev = out[-1]
        if plan == 'disjoint':                       # reset_timestep forward / a later restart file
            s = run_from(hi + int(rng.integers(1, 6)) * N, lens[k], N)
        elif plan == 'overlap':                      # restart from a checkpoint inside the previous run, same grid
            a0 = prev[int(rng.integers(0, len(prev) - 1))]
            s = run_from(a0, (hi - a0) // N + lens[k] - 1, N)
        elif plan == 'restart0':                     # reset_timestep 0, run at least as long as everything before
            s = run_from(0, hi // N + int(rng.integers(0, 4)), N)
        elif plan == 'nested':                       # later run inside the range covered so far
            nin = (hi - lo) // N
            if nin < 2:
                s = run_from(lo, 0, N)
            else:
                i0 = int(rng.integers(0, nin - 1))
                i1 = int(rng.integers(i0 + 1, nin))
                s = run_from(lo + i0 * N, i1 - i0, N)
        elif plan == 'out-of-order':                 # later run entirely before the range covered so far
            if lo < 2 * N:                           # make room below
                shift = (lens[k] + 2) * N
                out[:] = [[x + shift for x in r] for r in out]
                lo += shift
                hi += shift
            b0 = lo - int(rng.integers(1, max(2, min(4, lo // N)))) * N
            nint = int(rng.integers(1, max(2, b0 // N + 1)))
            nint = min(nint, 8)
            s = run_from(b0 - nint * N, nint, N)
        elif plan == 'starts-before':                # later run starts before and runs past everything so far
            if lo < N:
                shift = 3 * N
                out[:] = [[x + shift for x in r] for r in out]
                lo += shift
                hi += shift
            a0 = lo - int(rng.integers(1, min(lo // N, 5) + 1)) * N
            s = run_from(a0, (hi - a0) // N + int(rng.integers(0, 3)), N)
        elif plan == 'mixed-interval':               # restart inside the previous run with another thermo interval
            M = N * int(rng.choice([2, 3, 5]))
            a0 = prev[int(rng.integers(0, len(prev) - 1))]
            s = run_from(a0, 0, M, hi + lens[k] * M)
        else:
            raise ValueError(plan)
        out.append(s)
    return out


def _columns(rng, ncols, step_pos):
    """ncols distinct thermo keywords (Step first / in the middle / absent), 0-2 further integer keywords."""
    nother = ncols if step_pos == 'absent' else ncols - 1
    keys = [str(x) for x in rng.permutation(FLOAT_KEYS)[:nother]]
    ints = [str(x) for x in rng.permutation(INT_KEYS)]
    nint = min(int(rng.integers(0, 3)), nother - 1)
    for j, p in enumerate(rng.permutation(nother)[:max(nint, 0)]):
        keys[int(p)] = ints[j]
    kinds = ['int' if k in INT_KEYS else 'float' for k in keys]
    if step_pos == 'first':
        keys, kinds = ['Step'] + keys, ['int'] + kinds
    elif step_pos == 'middle':
        p = int(rng.integers(1, len(keys) + 1))
        keys.insert(p, 'Step')
        kinds.insert(p, 'int')
    return keys, kinds


def _section_table(rng, style, minimize):
    """Timing breakdown: (sections, columns, values[list of rows with None for blank cells], text lines)."""
    if style in ('new', 'new-full'):
        secs = ['Pair'] + [s for s in ('Bond', 'Kspace') if rng.random() < 0.3] + ['Neigh', 'Comm', 'Output', 'Modify', 'Other']
        full = style == 'new-full'
        cols = ['min time', 'avg time', 'max time', '%varavg'] + (['%CPU'] if full else []) + ['%total']
        head = 'Section |  min time  |  avg time  |  max time  |%varavg|' + ('  %CPU | %total' if full else ' %total')
        lines = ['MPI task timing breakdown:', head, '-' * len(head)]
        vals = []
        tot = 10.0 ** rng.uniform(-4, 3)
        for s in secs:
            avg = float('%.5g' % (tot * rng.uniform(0, 1)))
            if s == 'Other':
                avg = float('%.4g' % avg)
                pct = float('%.2f' % rng.uniform(0, 100))
                row = [None, avg, None, None] + ([None] if full else []) + [pct]
                line = 'Other   |            | %-10.4g |            |       |' % avg + ('       |' if full else '') + '%6.2f' % pct
            else:
                mn = float('%.5g' % (avg * rng.uniform(0.5, 1)))
                mx = float('%.5g' % (avg * rng.uniform(1, 1.5)))
                if rng.random() < 0.2:
                    mn = avg = mx = 0.0
                var = float('%.1f' % rng.uniform(0, 30))
                cpu = float('%.1f' % rng.uniform(50, 100))
                pct = float('%.2f' % rng.uniform(0, 100))
                row = [mn, avg, mx, var] + ([cpu] if full else []) + [pct]
                line = '%-8s| %-10.5g | %-10.5g | %-10.5g |%6.1f |' % (s, mn, avg, mx, var) + \
                       ('%6.1f |' % cpu if full else '') + '%6.2f' % pct
            vals.append(row)
            lines.append(line)
        return dict(style='new', sections=secs, columns=cols, values=vals), lines
    # old style
    secs = ['Pair '] + [s for s in ('Bond ', 'Kspce') if rng.random() < 0.3] + ['Neigh', 'Comm ', 'Outpt', 'Other']
    vals, lines = [], []
    tot = 10.0 ** rng.uniform(-4, 3)
    for s in secs:
        t = float('%g' % (tot * rng.uniform(0, 1)))
        p = float('%g' % rng.uniform(0, 100))
        vals.append([t, p])
        lines.append('%s time (%%) = %g (%g)' % (s, t, p))
    return dict(style='old', sections=[s.strip() for s in secs], columns=['time', '%'], values=vals), lines


def _histograms(rng, natoms, nprocs, newer):
    out = []
    for name in ('Nlocal:', 'Nghost:', 'Neighs:') + (('FullNghs:',) if rng.random() < 0.3 else ()):
        ave = natoms / nprocs * rng.uniform(0.5, 40)
        if newer:
            out.append('%-10s %10.1f ave %11d max %11d min' % (name, ave, int(ave) + 3, max(int(ave) - 3, 0)))
        else:
            out.append('%-8s %g ave %d max %d min' % (name, round(ave, 2), int(ave) + 3, max(int(ave) - 3, 0)))
        h = rng.multinomial(nprocs, np.ones(10) / 10)
        out.append('Histogram: ' + ' '.join(str(x) for x in h))
    return out


def banner_text(rng, kind):
    """Returns (line or None, version string or None, (Y, M, D) or None, lines printed before the banner)."""
    y = int(rng.integers(2011, 2025))
    m = int(rng.integers(0, 12))
    d = int(rng.integers(1, DAYS_IN[m] + 1))
    date = '%d %s %d' % (d, MONTHS[m], y)
    pre = []
    if kind == 'none':
        return None, None, None, pre
    if kind == 'plain':
        v = date
    elif kind == 'update':
        v = date + ' - Update %d' % rng.integers(1, 5)
    elif kind == 'suffix':                           # e.g. 'LAMMPS (30 Jul 2016-ICMS)'
        v = date + '-ICMS'
    elif kind == 'development':
        v = date + ' - Development - patch_%d%s%d-%d-g%07x' % (d, MONTHS[m], y, rng.integers(1, 900), rng.integers(0, 16 ** 7))
    elif kind == 'not-first-line':                   # mpirun / module noise before the banner
        v = date
        pre = ['OMP_NUM_THREADS environment is not set. Defaulting to 1 thread. (src/comm.cpp:98)']
    else:
        raise ValueError(kind)
    return 'LAMMPS (%s)' % v, v, (y, m + 1, d), pre


def synth(rng, spec, steps=None, version=None):
    """Print one LAMMPS log.  ``steps`` (list of step lists) overrides the plan in ``spec``;
    ``version`` = (line, string, date, pre) overrides the banner."""
    fmt, mem, bd, flavour = spec['fmt'], spec['mem'], spec['breakdown'], spec['flavour']
    logfile = flavour == 'logfile'
    newer = mem == 'per-mpi-rank'
    custom = str(rng.choice(['%20.15g', '%.6f', '%14.6e', '%.10g', '%16.12f']))
    natoms = int(rng.integers(2, 100000))
    nprocs = int(rng.choice([1, 2, 4, 16]))
    L = []                                            # lines

    bline, vstr, vdate, pre = version if version is not None else banner_text(rng, spec['banner'])
    L += pre
    if bline is not None:
        L.append(bline)
        if newer and rng.random() < 0.7:
            L.append('  using %d OpenMP thread(s) per MPI task' % rng.choice([1, 2]))
    if logfile:
        L += ['# synthetic input script', '', 'units\t\tmetal', 'atom_style\tatomic', '   ', 'boundary p p p',
              'lattice\t\tfcc 4.05', 'Lattice spacing in x,y,z = 4.05 4.05 4.05', 'region\t\tbox block 0 10 0 10 0 10',
              'create_box\t1 box', 'Created orthogonal box = (0 0 0) to (40.5 40.5 40.5)',
              '  %d by 1 by 1 MPI processor grid' % nprocs, 'create_atoms\t1 box', 'Created %d atoms' % natoms, '',
              'pair_style\team/alloy', 'pair_coeff\t* * Al.eam.alloy Al', '', 'thermo_style custom step temp pe', 'thermo 100', '']
    else:
        L += ['Lattice spacing in x,y,z = 4.05 4.05 4.05', 'Created orthogonal box = (0 0 0) to (40.5 40.5 40.5)',
              '  %d by 1 by 1 MPI processor grid' % nprocs, 'Created %d atoms' % natoms]

    if steps is None:
        steps = plan_steps(rng, spec['plan'], spec['nruns'], spec.get('big', False), spec.get('middle', False))
    nruns = len(steps)
    keys, kinds = _columns(rng, spec['ncols'], spec['step_pos'])
    runs = []
    vclass_of = {}
    trunc = spec['trunc']
    done = False
    for k in range(nruns):
        last = k == nruns - 1
        kind = 'minimize' if rng.random() < 0.35 and bd != 'post-no' else 'run'      # minimize has no 'post no'
        if spec.get('colchange') and k > 0 and rng.random() < 0.7:
            keys, kinds = _columns(rng, int(rng.integers(2, 10)), spec['step_pos'])
        st = steps[k]
        n = len(st)
        # --- the values
        cols_tok, cols_val = [], []
        for key, kd in zip(keys, kinds):
            if key == 'Step':
                vals = [int(x) for x in st]
                toks = [_fmt_int(x, fmt) for x in vals]
            elif kd == 'int':
                vals = [int(x) for x in rng.integers(0, 10 ** int(rng.integers(1, 10)), n)]
                if key == 'Atoms':
                    vals = [natoms] * n
                toks = [_fmt_int(x, fmt) for x in vals]
            else:
                if key not in vclass_of:             # one value class per column and log ...
                    vclass_of[key] = VALUE_CLASSES[int(rng.integers(0, len(VALUE_CLASSES)))]
                vclass = vclass_of[key]
                if spec.get('flip') and last and nruns > 1:   # ... unless the last stage prints whole numbers
                    vclass = 'zero' if kind == 'minimize' or rng.random() < 0.5 else 'integral'
                raw = _float_column(rng, n, vclass)
                toks = [_fmt_float(float(x), fmt, custom) for x in raw]
                if spec.get('blowup') and last and n > 2 and rng.random() < 0.6:     # the run blew up: nan / inf printed
                    bad = str(rng.choice(['nan', '-nan', 'inf', '-inf']))
                    k0 = int(rng.integers(1, n))
                    w = len(toks[0])
                    toks[k0:] = [bad.rjust(w) if fmt != 'aligned' else (' ' + bad).ljust(w)] * (n - k0)
                vals = [float(t) for t in toks]
            cols_tok.append([t.strip() for t in toks])
            cols_val.append(vals)
        # --- text in front of the block
        if logfile:
            if kind == 'run':
                L.append('run\t\t%d' % (st[-1] - st[0]))
            else:
                L.append('minimize\t1e-8 1e-8 %d 100000' % max(1, st[-1] - st[0]))
        if kind == 'minimize' and rng.random() < 0.6:
            L.append("WARNING: Using 'neigh_modify every 1 delay 0 check yes' setting during minimization (src/min.cpp:190)")
        if k == 0 or rng.random() < 0.3:
            L += ['Neighbor list info ...', '  update every 1 steps, delay 10 steps, check yes',
                  '  max neighbors/atom: 2000, page size: 100000', '  master list distance cutoff = 8.28721',
                  '  ghost atom cutoff = 8.28721', '  binsize = 4.1436, bins = 10 10 10',
                  '  1 neighbor lists, perpetual/occasional/extra = 1 0 0', '  (1) pair eam/alloy, perpetual',
                  '      attributes: half, newton on', '      pair build: half/bin/atomonly/newton',
                  '      stencil: half/bin/3d/newton', '      bin: standard']
        if rng.random() < 0.3:
            L += ['Setting up %s ...' % ('Verlet run' if kind == 'run' else 'cg style minimization'),
                  '  Unit style    : metal', '  Current step  : %d' % st[0]] + (['  Time step     : 0.001'] if kind == 'run' else [])
        if newer:
            x = rng.uniform(1, 500)
            L.append('Per MPI rank memory allocation (min/avg/max) = %.4g | %.4g | %.4g Mbytes' % (x, x * 1.01, x * 1.02))
        else:
            L.append('Memory usage per processor = %g Mbytes' % round(rng.uniform(1, 500), 5))
        # --- header
        if fmt == 'aligned':
            L.append(' '.join(format(key, '^10' if kd == 'int' else '^14') for key, kd in zip(keys, kinds)) + ' ')
        else:
            L.append(' '.join(keys) + ' ')
        # --- rows (possibly cut short)
        nprint = n
        complete = True
        if last and trunc == 'rows':
            nprint = int(rng.integers(1, n)) if n > 1 else 1
            complete = False
        elif last and trunc == 'one-row':
            nprint = 1
            complete = False
        elif last and trunc == 'header-only':
            nprint = 0
            complete = False
        for r in range(nprint):
            row = []
            for c, (key, kd) in enumerate(zip(keys, kinds)):
                t = cols_tok[c][r]
                if fmt == 'aligned':
                    row.append(t.rjust(10) if kd == 'int' else ((' ' + t) if not t.startswith('-') else t).ljust(14))
                elif fmt == 'classic':
                    row.append(t.rjust(8 if kd == 'int' else 12))
                else:
                    row.append(t.rjust(8) if kd == 'int' else t)
            L.append(' '.join(row) + ' ')
        run = dict(kind=kind, columns=list(keys), sem_kinds=list(kinds),
                   tokens=[[cols_tok[c][r] for c in range(len(keys))] for r in range(nprint)],
                   rows=[[cols_val[c][r] for c in range(len(keys))] for r in range(nprint)],
                   complete=complete, perf=None)
        runs.append(run)
        if not complete:
            done = True
            break
        # --- after the block
        nst = st[-1] - st[0]
        L.append('Loop time of %g on %d procs for %d steps with %d atoms' % (rng.uniform(1e-6, 1e4), nprocs, nst, natoms))
        if last and trunc == 'after-loop':
            done = True
            break
        if bd == 'post-no':                          # 'run N post no': nothing but the loop line
            if logfile:
                L.append('')
            continue
        L.append('')
        if newer:
            if kind == 'run':
                L.append('Performance: %.3f ns/day, %.3f hours/ns, %.3f timesteps/s' % tuple(rng.uniform(0.1, 900, 3)))
            L.append('%.1f%% CPU use with %d MPI tasks x 1 OpenMP threads' % (rng.uniform(50, 100), nprocs))
            L.append('')
        if kind == 'minimize':
            e = rng.uniform(-1e5, -1, 3)
            L += ['Minimization stats:', '  Stopping criterion = energy tolerance',
                  '  Energy initial, next-to-last, final = ', '        %.10f     %.10f     %.10f' % tuple(e),
                  '  Force two-norm initial, final = %g %g' % (rng.uniform(1, 9), rng.uniform(0, 1e-6)),
                  '  Force max component initial, final = %g %g' % (rng.uniform(0, 1), rng.uniform(0, 1e-7)),
                  '  Final line search alpha, max atom move = 1 %g' % rng.uniform(0, 1e-6),
                  '  Iterations, force evaluations = %d %d' % (nst, 2 * nst), '']
        if bd in ('new', 'new-full', 'old'):
            perf, plines = _section_table(rng, bd, kind == 'minimize')
            if last and trunc == 'mid-breakdown':
                cut = int(rng.integers(1, len(plines)))
                L += plines[:cut]
                done = True
                break
            L += plines
            run['perf'] = perf
            L.append('')
        elif last and trunc == 'mid-breakdown':      # no table to cut: cut before the histograms instead
            done = True
            break
        L += _histograms(rng, natoms, nprocs, newer)
        L.append('')
        L += ['Total # of neighbors = %d' % rng.integers(0, 10 ** 8), 'Ave neighs/atom = %g' % rng.uniform(0, 80),
              'Neighbor list builds = %d' % rng.integers(0, 500), 'Dangerous builds = 0']
        if logfile and not last:
            L += ['', '# next stage', 'reset_timestep\t%d' % steps[k + 1][0] if steps[k + 1][0] != st[-1] else 'unfix\t\t1', '']
    if not done:
        if logfile and rng.random() < 0.5:
            L += ['', 'print "All done"', 'All done']
        L.append('Total wall time: 0:%02d:%02d' % (rng.integers(0, 60), rng.integers(0, 60)))
    eol = spec.get('eol', '\n')
    text = eol.join(L)
    if not (done and rng.random() < 0.3):            # a cut log may or may not end with a newline
        text += eol
    model = dict(version=vstr, date=vdate, runs=runs, banner=(bline, vstr, vdate, pre))
    return text, model
