"""C19 - workloads for the entry point ``atomman.lammps.run`` (numpy only, never imports atomman).

``run()`` starts the LAMMPS executable as a subprocess and builds the Log it returns from the logs of all
earlier invocations of the same simulation (``log-1.lammps ... log-N.lammps``, rotated by run() itself when a
restart script is given) followed by the output of the current one (stdout, or the log file with screen=False).

The executable is replaced by a stand-in (a POSIX shell script) that understands the LAMMPS command line
switches run() uses (-in, -log, -screen, -suffix), consumes the script from the file or from stdin as LAMMPS does,
and prints what the harness staged for this invocation: a synthesised log (vf/gen/c19_logs.py) to the log file
and its screen flavour to stdout; a staged crash prints a log cut short and exits with status 1.

``case_plan(i)`` is the stratification table: every class choice is a function of the case index.
"""
from __future__ import annotations

import os
import shutil
import stat
import tempfile

STANDIN = r'''#!/bin/sh
# stand-in for the LAMMPS executable (harness C19): prints the output staged in payload/
d="$(dirname "$0")/payload"
echo "$@" > "$d/argv"
log=log.lammps
screen=1
in=
while [ $# -gt 0 ]; do
  case "$1" in
    -log) log="$2"; shift 2;;
    -screen) if [ "$2" = none ]; then screen=0; fi; shift 2;;
    -in) in="$2"; shift 2;;
    -suffix) shift 2;;
    *) shift;;
  esac
done
if [ -n "$in" ]; then cat "$in" > "$d/script"; else cat > "$d/script"; fi
if [ "$log" != none ]; then cat "$d/out.log" > "$log"; fi
if [ $screen = 1 ]; then cat "$d/out.screen"; fi
if [ -f "$d/fail" ]; then
  echo "ERROR: Lost atoms: original 4000 current 3999 (src/thermo.cpp:494)"
  exit 1
fi
exit 0
'''

MPI_STANDIN = r'''#!/bin/sh
# stand-in for "mpirun -n N <command>"
shift 2
exec "$@"
'''

# number of run() calls of one simulation in one directory (restart script given): the k-th call reads k-1 rotated logs
CALL_LENGTHS = [2, 11, 3, 12, 1, 13, 5, 10, 4, 11, 7, 22]
# number of rotated logs log-1 .. log-N found in the directory (left by earlier sessions), written in shuffled order
STAGED_N = [10, 0, 11, 9, 19, 1, 20, 12, 99, 2, 100, 21]
# logfile argument: (label, value or None = argument left out, is a pathlib.Path)
LOGFILES = [('default', None, False), ('explicit-default', 'log.lammps', False), ('named', 'md.log', False),
            ('hyphen-in-stem', 'my-sim.lammps', False), ('two-dots', 'relax.run.txt', False),
            ('Path', 'nvt.lammps', True), ('no-extension', 'thermo', False),
            ('subdirectory', 'out/eq.lammps', False), ('absolute', '<work>/abs.lammps', False)]
# two simulations restarted in the same directory: their rotated logs must not mix
PAIRS = [('a.lammps', 'b.lammps'), ('log.lammps', 'log2.lammps'), ('run.log', 'run.lammps'), ('md.log', 'md2.log'),
         ('sim.lammps', 'xsim.lammps'), ('eq.out', 'eq.out2')]
MODES = ['calls', 'staged', 'calls', 'two-sims', 'calls', 'staged', 'calls', 'fresh']
_SLOT = {'calls': {0: 0, 2: 1, 4: 2, 6: 3}, 'staged': {1: 0, 5: 1}, 'two-sims': {3: 0}, 'fresh': {7: 0}}


def case_plan(i):
    """All class choices of case ``i``."""
    pos = (i + i // 8) % 8                              # rotated, so that no worker shard (i % nshards) owns a mode
    mode = MODES[pos]
    slots = _SLOT[mode]
    m = (i // 8) * len(slots) + slots[pos]              # running index within the mode
    p = dict(mode=mode, m=m)
    lf = LOGFILES[m % len(LOGFILES)]
    p['logfile'] = lf
    p['restart_form'] = ['restart_script', 'restart_script_name'][(m // 3) % 2]
    p['script_form'] = ['script', 'script_name'][(m // 5) % 2]
    p['mpi'] = m % 5 == 3
    p['suffix'] = m % 4 == 2
    p['clutter'] = m % 3 == 1
    p['versions'] = 'different' if m % 4 == 1 else 'same'
    p['crash_at'] = None
    if mode == 'calls':
        k = m % len(CALL_LENGTHS)
        p['ncalls'] = CALL_LENGTHS[k]
        p['screen'] = bool((k + m // len(CALL_LENGTHS)) % 2)
        if m % 3 == 0 and p['ncalls'] >= 2:              # one invocation crashes (1-based), a later one restarts it
            p['crash_at'] = 1 + (5 * (m // len(CALL_LENGTHS)) + 8) % (p['ncalls'] - 1)
    elif mode == 'staged':
        k = m % len(STAGED_N)
        p['nold'] = STAGED_N[k]
        p['ncalls'] = 2 if p['nold'] < 30 else 1
        p['screen'] = bool((k + m // len(STAGED_N)) % 2)
        p['crashed_old'] = (m % 4 == 3)                  # one of the logs found was cut short by a crash
    elif mode == 'two-sims':
        p['pair'] = PAIRS[m % len(PAIRS)]
        p['two_dirs'] = m % 3 == 2                       # the same logfile name in two directories instead
        p['ncalls_a'] = [11, 3, 12][m % 3]
        p['ncalls_b'] = [2, 3, 2][m % 3]
        p['screen'] = bool((m // 3) % 2)
    else:                                                # 'fresh': no restart script, every call stands alone
        p['ncalls'] = 3
        p['screen'] = bool(m % 2) or (m % 4 == 2)
        p['no_logfile'] = m % 4 == 2                     # logfile=None: '-log none', screen output only
        p['stale_rotated'] = True                        # rotated logs of somebody else's earlier simulation lie around
    return p


class Sandbox:
    """A directory with the stand-in executables (bin/), the staging area (bin/payload/) and one or two
    working directories the simulations run in."""

    def __init__(self, base):
        os.makedirs(base, exist_ok=True)
        self.root = tempfile.mkdtemp(prefix='run-', dir=base)
        self.bin = os.path.join(self.root, 'bin')
        self.payload = os.path.join(self.bin, 'payload')
        self.work = os.path.join(self.root, 'work')
        self.work2 = os.path.join(self.root, 'work2')
        for d in (self.bin, self.payload, self.work, self.work2):
            os.makedirs(d)
        self.exe = os.path.join(self.bin, 'lmp_standin')
        self.mpi = os.path.join(self.bin, 'mpirun_standin')
        for path, text in ((self.exe, STANDIN), (self.mpi, MPI_STANDIN)):
            with open(path, 'w') as f:
                f.write(text)
            os.chmod(path, os.stat(path).st_mode | stat.S_IXUSR | stat.S_IXGRP | stat.S_IXOTH)

    def stage(self, logtext, screentext, fail=False):
        """What the next invocation of the stand-in prints."""
        with open(os.path.join(self.payload, 'out.log'), 'w', newline='') as f:
            f.write(logtext)
        with open(os.path.join(self.payload, 'out.screen'), 'w', newline='') as f:
            f.write(screentext)
        flag = os.path.join(self.payload, 'fail')
        if fail:
            open(flag, 'w').close()
        elif os.path.exists(flag):
            os.remove(flag)
        for name in ('argv', 'script'):
            q = os.path.join(self.payload, name)
            if os.path.exists(q):
                os.remove(q)

    def received(self):
        """(argv line, script text) the stand-in saw on its last invocation, or (None, None)."""
        out = []
        for name in ('argv', 'script'):
            q = os.path.join(self.payload, name)
            if os.path.exists(q):
                with open(q) as f:
                    out.append(f.read())
            else:
                out.append(None)
        return tuple(out)

    def remove(self):
        shutil.rmtree(self.root, ignore_errors=True)


def rotated_name(logfile, k):
    """Name run() gives the k-th old log of ``logfile`` ('log.lammps' -> 'log-3.lammps'): stem-k + last extension."""
    base = os.path.basename(str(logfile))
    stem, ext = os.path.splitext(base)
    return '%s-%d%s' % (stem, k, ext)


def clutter_names(logfile):
    """Files that do not belong to the simulation although their names resemble its rotated logs."""
    base = os.path.basename(str(logfile))
    stem, ext = os.path.splitext(base)
    out = ['bak.%s-7%s' % (stem, ext), '%s_3%s' % (stem, ext), 'in.%s' % stem]
    if ext:                                              # without an extension 'name-7.bak' would be a rotated log
        out.append('%s-7%s.bak' % (stem, ext))
    return out
