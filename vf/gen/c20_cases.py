"""C20 generators: linear rate laws, evaluation points, initial strings.

Class choices are functions of the case index (mixed strides so that every
single class and the important pairs are hit in the first few dozen cases);
only numbers inside a class come from the rng.  numpy only.
"""
from __future__ import annotations

import numpy as np

# ---------------------------------------------------------------- rate laws
METHODS = ('euler', 'rungekutta')
MATRIX_KINDS = ('general', 'symneg', 'skew', 'nilpotent', 'diagonal', 'stiff', 'nonnormal', 'rank1')
DIMS = (1, 2, 3, 4, 5, 6)
STEPS = (1.0, 0.3, 0.1, 0.03)
NORMS = (1.0, 1e-3, 10.0, 1e3)
STATE_SHAPES = ('vector', 'batch', 'list', 'kwargs', 'scalar', 'int', 'float32', 'tuple', 'batch1')


def integrator_class(i):
    """(method, matrix kind, d, h, norm scale, state shape) for case i."""
    method = METHODS[i % 2]
    kind = MATRIX_KINDS[(i // 2) % 8]
    d = DIMS[(i // 16) % 6]
    r = i // 96
    h = STEPS[(i // 2 + i // 16 + r) % 4]
    norm = NORMS[(i // 8 + r) % 4 if (i // 2) % 3 else 0]          # two thirds of the cases at norm 1
    shape = STATE_SHAPES[(i // 2 + i // 32 + 2 * r) % len(STATE_SHAPES)]
    if shape == 'scalar' and d != 1:
        shape = 'vector'
    return method, kind, d, h, norm, shape


def gen_matrix(rng, kind, d):
    """A in R^{dxd} of the given structural class with spectral norm ~1 (exactly 1 unless zero)."""
    if kind == 'general':
        A = rng.normal(size=(d, d))
    elif kind == 'symneg':                       # gradient flow of a convex quadratic
        M = rng.normal(size=(d, d + 1))
        A = -(M @ M.T)
    elif kind == 'skew':
        M = rng.normal(size=(d, d))
        A = M - M.T
        if d == 1:
            A = np.array([[rng.choice([-1.0, 1.0])]])     # no skew 1x1: plain scalar
    elif kind == 'nilpotent':
        A = np.triu(rng.normal(size=(d, d)), 1)
        if d == 1:
            A = np.zeros((1, 1))
    elif kind == 'diagonal':
        A = np.diag(rng.uniform(-1, 1, d))
    elif kind == 'stiff':
        Q, _ = np.linalg.qr(rng.normal(size=(d, d)))
        A = Q @ np.diag(-10.0 ** rng.uniform(-3, 0, d)) @ Q.T
    elif kind == 'nonnormal':
        A = np.triu(rng.normal(size=(d, d)), 1) * 5 + np.diag(rng.uniform(-1, 1, d))
    elif kind == 'rank1':
        A = np.outer(rng.normal(size=d), rng.normal(size=d))
    else:
        raise ValueError(kind)
    s = np.linalg.norm(A, 2)
    if s > 0:
        A = A / s
    return A


class LinearRate:
    """rate(y) = A y for y of shape (d,), (n, d) or a python list; counts its calls.
    ``via_kwargs``: A is not stored but must arrive through the integrator's **kwargs."""

    def __init__(self, A, via_kwargs=False, scalar=False):
        self._vf_A = np.array(A, float)
        self.via_kwargs = via_kwargs
        self.scalar = scalar
        self.ncalls = 0
        self.bad_kwargs = 0

    def __call__(self, y, **kw):
        self.ncalls += 1
        A = self._vf_A
        if self.via_kwargs:
            if set(kw) != {'A', 'gain'}:
                self.bad_kwargs += 1
                return np.full(np.shape(y), np.nan)
            A = np.asarray(kw['A']) * kw['gain']
        elif kw:
            self.bad_kwargs += 1
        if self.scalar:
            return float(A[0, 0]) * y
        y = np.asarray(y, float)
        return y @ A.T


# ---------------------------------------------------------------- slopes
SLOPE_KINDS = ('general', 'symneg', 'skew', 'diagonal', 'stiff', 'nonnormal', 'rank1', 'nilpotent')


def slope_class(i):
    method = METHODS[i % 2]
    kind = SLOPE_KINDS[(i // 2) % 8]
    d = DIMS[(i // 16) % 6]
    r = i // 96
    if method == 'euler':
        h0 = (1.0, 0.3, 0.1, 0.03)[(i // 2 + r) % 4]        # error ~ h^2/2 stays >> rounding down to h0/16
    else:
        h0 = (1.0, 0.7, 0.5, 0.3)[(i // 2 + r) % 4]         # error ~ h^5/120: keep h0/16 >= ~0.02
    return method, kind, d, h0


# ---------------------------------------------------------------- gradients
FUNC_KINDS = ('mixed', 'trig', 'quadratic', 'exp', 'quartic')
POINT_SHAPES = ('n', 'mn', 'abn', '1n', 'list', 'int', 'float32', 'tuple')
GRAD_DIMS = (1, 2, 3, 5)
SHIFT_CLASSES = ('default', 'kw1e-3', 'pos1e-2', 'kw1e-4', 'halvings')


def gradient_class(i):
    kind = FUNC_KINDS[i % 5]
    shape = POINT_SHAPES[(i // 5) % len(POINT_SHAPES)]
    n = GRAD_DIMS[(i // 40 + i) % 4]
    shift = SHIFT_CLASSES[(i // 40 + i // 5 + i) % 5]
    return kind, shape, n, shift


def gen_points(rng, shape, n):
    if shape in ('n', 'list'):
        p = rng.uniform(-1.5, 1.5, n)
    elif shape == 'mn':
        p = rng.uniform(-1.5, 1.5, (int(rng.integers(2, 8)), n))
    elif shape == 'abn':
        p = rng.uniform(-1.5, 1.5, (int(rng.integers(2, 4)), int(rng.integers(1, 5)), n))
    elif shape == '1n':
        p = rng.uniform(-1.5, 1.5, (1, n))
    elif shape == 'int':                       # integer-valued evaluation points (lattice sites)
        p = rng.integers(-2, 3, (int(rng.integers(1, 5)), n))
    elif shape == 'float32':                   # single-precision storage of the points (values are exact float32 numbers)
        p = rng.uniform(-1.5, 1.5, (int(rng.integers(1, 6)), n)).astype(np.float32)
    elif shape == 'tuple':                     # handed over as nested tuples
        p = rng.uniform(-1.5, 1.5, (int(rng.integers(1, 4)), n))
    else:
        raise ValueError(shape)
    return p


# ---------------------------------------------------------------- strings
IMAGES = (9, 15, 21, 31, 10, 16, 24, 12)
INITIAL = ('straight', 'bent', 'sbent', 'offset')
GRADOPTS = ('omitted', 'none', 'empty', 'shift1e-4', 'shift1e-6', 'cdiff-long-name', 'analytic-callable')
INTOPTS = ('omitted', 'rk', 'rungekutta', 'euler', 'callable-euler', 'callable-rk')
TIMESTEPS = ('hL0.3', 'hL0.6', 'hL1.0', 'default')
TOLERANCES = ('1e-6', '1e-8', 'default')
ENTRIES = ('create_path', 'ISMPath', 'create_path-from-path', 'create_path-style-long')


def relax_class(i):
    n_img = IMAGES[i % 8]
    init = INITIAL[(i // 8 + i) % 4]
    gopt = GRADOPTS[i % 7]
    iopt = INTOPTS[(i // 7) % 6]
    ts = TIMESTEPS[(i // 2 + i // 7) % 4]
    tol = TOLERANCES[(i // 3 + i // 8) % 3]
    entry = ENTRIES[(i // 5) % 4]
    if ts == 'default' and n_img > 16:
        # default time step 0.05/N needs ~1e4 steps for N > 16: keep the default-options class on short strings
        n_img = (9, 15, 10, 12)[(i // 8) % 4]
    return n_img, init, gopt, iopt, ts, tol, entry


def gen_surface_params(rng):
    return float(rng.uniform(0.5, 4.0)), float(rng.uniform(-0.6, 0.6))


def gen_string(rng, n_img, init, c):
    """Initial string from the left to the right basin (end points within 0.2 of the
    minima), straight or bent; never symmetric under x -> -x, so that no image sits on
    the saddle by symmetry."""
    t = np.linspace(0.0, 1.0, n_img)
    a = np.array([-1.0, 0.0]) + rng.uniform(-0.2, 0.2, 2)
    b = np.array([1.0, 0.0]) + rng.uniform(-0.2, 0.2, 2)
    coord = a + (b - a) * t[:, None]
    if init == 'bent':
        coord[:, 1] += rng.uniform(0.2, 0.5) * rng.choice([-1, 1]) * np.sin(np.pi * t)
    elif init == 'sbent':
        coord[:, 1] += rng.uniform(0.15, 0.35) * rng.choice([-1, 1]) * np.sin(2 * np.pi * t)
        coord[:, 0] += 0.1 * np.sin(np.pi * t) ** 2
    elif init == 'offset':                     # straight but passing the ridge away from the saddle
        coord[:, 1] += (-c + rng.uniform(0.3, 0.5) * rng.choice([-1, 1])) * np.sin(np.pi * t) ** 2
    # break the mirror symmetry explicitly
    coord[:, 0] += rng.uniform(0.03, 0.08) * rng.choice([-1, 1]) * np.sin(np.pi * t)
    return coord


STEP_CLIMB = ('none', 'int', 'list1', 'list2', 'array1', 'npint')


STEP_IMAGES = IMAGES + (5, 7)                   # down to the shortest strings that still have two interior segments
COORD_FORMS = ('array', 'list', 'tuple', 'array')


def step_class(i):
    n_img = STEP_IMAGES[(i + i // 30) % 10]
    init = INITIAL[(i // 8 + i) % 4]
    climb = STEP_CLIMB[i % 6]
    iopt = ('rk', 'euler', 'omitted')[(i // 6 + i) % 3]
    ts = ('default', 'explicit')[(i // 6) % 2]
    return n_img, init, climb, iopt, ts


# ---------------------------------------------------------------- call histories (state kept between instances)
HIST_ENTRIES = ('ISMPath', 'create_path', 'BasePath', 'create_path-style-long', 'create_path-from-path', 'deepcopy')
HIST_KINDS = ('edit-default', 'edit-none', 'custom-then-default', 'edit-child')
HIST_SHIFTS = (0.2, 0.05, 0.01)
HIST_IMAGES = (9, 12, 10, 15)


def history_class(i):
    """(entry point, history kind, shift written into the other path, image count): all 24 entry x kind pairs
    within any 24 consecutive cases."""
    entry = HIST_ENTRIES[i % 6]
    kind = HIST_KINDS[(i // 6 + i) % 4]
    s = HIST_SHIFTS[(i // 6 + i // 24) % 3]
    n_img = HIST_IMAGES[(i // 3 + i // 24) % 4]
    return entry, kind, s, n_img
