"""Stratified cell generator (numpy only).  Every cell is right-handed,
non-degenerate and reasonably conditioned (volume >= 10 % of a*b*c)."""
from __future__ import annotations

import numpy as np

from ..oracle import geometry as G

FAMILIES = ['cubic', 'tetragonal', 'orthorhombic', 'hexagonal', 'rhombohedral', 'monoclinic', 'triclinic']
KINDS = FAMILIES + ['tilted', 'rotated']
ORIGINS = ['zero', 'near', 'far']
SCALES = [1.0, 1e-4, 1e4]


def family_params(rng, family):
    """Generic (non-coincident) lattice parameters of a crystal family."""
    a = rng.uniform(2.5, 6.0)
    b = a * rng.uniform(1.15, 1.6)
    c = a * rng.uniform(1.7, 2.4)
    if family == 'cubic':
        return dict(a=a, b=a, c=a, alpha=90.0, beta=90.0, gamma=90.0)
    if family == 'tetragonal':
        return dict(a=a, b=a, c=c, alpha=90.0, beta=90.0, gamma=90.0)
    if family == 'orthorhombic':
        return dict(a=a, b=b, c=c, alpha=90.0, beta=90.0, gamma=90.0)
    if family == 'hexagonal':
        return dict(a=a, b=a, c=c, alpha=90.0, beta=90.0, gamma=120.0)
    if family == 'rhombohedral':
        al = rng.choice([rng.uniform(50, 80), rng.uniform(95, 112)])
        return dict(a=a, b=a, c=a, alpha=al, beta=al, gamma=al)
    if family == 'monoclinic':
        return dict(a=a, b=b, c=c, alpha=90.0, beta=rng.uniform(95, 125), gamma=90.0)
    if family == 'triclinic':
        while True:
            al, be, ga = rng.uniform(55, 125, 3)
            if G.realisable(al, be, ga, 0.25) and min(abs(al - be), abs(be - ga), abs(al - ga)) > 3 \
                    and min(abs(al - 90), abs(be - 90), abs(ga - 90)) > 3:
                return dict(a=a, b=b, c=c, alpha=al, beta=be, gamma=ga)
    raise ValueError(family)


def gen_cell(rng, kind, origin='zero', scale=1.0):
    """Returns dict(kind, vects, origin, params (a..gamma) or None, lammps (bool))."""
    if kind in FAMILIES:
        p = family_params(rng, kind)
        lx, ly, lz, xy, xz, yz = G.lammps_from_abc(**p)
        v = G.vects_from_lammps(lx, ly, lz, xy, xz, yz)
        lam = True
    elif kind == 'tilted':
        lx, ly, lz = rng.uniform(2.5, 8.0, 3)
        xy = rng.uniform(-2, 2) * lx
        xz = rng.uniform(-2, 2) * lx
        yz = rng.uniform(-2, 2) * ly
        v = G.vects_from_lammps(lx, ly, lz, xy, xz, yz)
        p = None
        lam = True
    elif kind == 'rotated':
        p = family_params(rng, 'triclinic')
        v = G.vects_from_lammps(*G.lammps_from_abc(**p)) @ G.random_rotation(rng).T
        lam = False
    else:
        raise ValueError(kind)
    v = v * scale
    L = np.linalg.norm(v, axis=1).max()
    if origin == 'zero':
        o = np.zeros(3)
    elif origin == 'near':
        o = rng.uniform(-2, 2, 3) * L
    else:
        o = rng.uniform(-1e3, 1e3, 3) * L
    if p is not None:
        p = dict(p)
        for k in 'abc':
            p[k] *= scale
    return dict(kind=kind, vects=v, origin=o, params=p, lammps=lam, L=L, origin_class=origin, scale=scale)


def stratified(i):
    """Deterministic class assignment for case index i (round-robin over the
    product of cell kind x origin class, scale rotating more slowly)."""
    kind = KINDS[i % len(KINDS)]
    origin = ORIGINS[(i // len(KINDS)) % len(ORIGINS)]
    scale = SCALES[(i // (len(KINDS) * len(ORIGINS))) % len(SCALES)]
    return kind, origin, scale


PBCS = [(bool(i & 1), bool(i & 2), bool(i & 4)) for i in range(8)]
