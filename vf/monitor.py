"""Wrap real callables with recording monitors and replace every alias.

``observe(owner, name, post, pre=None)`` replaces ``owner.name`` by a wrapper
that calls ``pre(args, kwargs)`` (its result is handed on as OLD), the real
function, then ``post(args, kwargs, result, exc, OLD)``.  Monitors record and
return; they never raise into the code under test, and an exception of the
real function propagates unchanged.  ``patch_everywhere`` replaces every alias
of an object in all loaded ``atomman`` modules (``from . import dvect`` style
re-exports and the dump/load style registries) so that no call bypasses the
monitor; every monitor counts its evaluations.
"""
from __future__ import annotations

import functools
import sys

_installed = []
calls = {}


def _wrap(real, label, post, pre):
    @functools.wraps(real)
    def wrapper(*args, **kwargs):
        calls[label] = calls.get(label, 0) + 1
        old = None
        if pre is not None:
            try:
                old = pre(args, kwargs)
            except Exception as e:  # monitor bug: remember, do not disturb the run
                calls[label + ':pre_error'] = calls.get(label + ':pre_error', 0) + 1
                old = e
        try:
            result = real(*args, **kwargs)
        except BaseException as exc:
            try:
                post(args, kwargs, None, exc, old)
            except Exception:
                calls[label + ':post_error'] = calls.get(label + ':post_error', 0) + 1
            raise
        try:
            post(args, kwargs, result, None, old)
        except Exception:
            calls[label + ':post_error'] = calls.get(label + ':post_error', 0) + 1
            import traceback
            calls.setdefault('_post_tracebacks', [])
            if len(calls['_post_tracebacks']) < 3:
                calls['_post_tracebacks'].append(traceback.format_exc()[-1500:])
        return result
    wrapper.__vf_real__ = real
    return wrapper


def observe(owner, name, post, pre=None, label=None):
    """Replace attribute ``name`` of class/module ``owner``."""
    real = owner.__dict__[name] if isinstance(owner, type) else getattr(owner, name)
    label = label or f'{getattr(owner, "__name__", owner)}.{name}'
    if isinstance(real, staticmethod):
        w = staticmethod(_wrap(real.__func__, label, post, pre))
    elif isinstance(real, classmethod):
        raise TypeError('wrap the underlying function of a classmethod')
    else:
        w = _wrap(real, label, post, pre)
    setattr(owner, name, w)
    _installed.append((owner, name, real))
    return w


def patch_everywhere(real, wrapper, prefix='atomman'):
    """Replace every module-level alias of ``real`` (and entries of dict
    registries found in module namespaces) by ``wrapper``."""
    n = 0
    for mname, mod in list(sys.modules.items()):
        if mod is None or not (mname == prefix or mname.startswith(prefix + '.')):
            continue
        d = getattr(mod, '__dict__', None)
        if not d:
            continue
        for k, v in list(d.items()):
            if v is real:
                try:
                    setattr(mod, k, wrapper)
                    _installed.append((mod, k, real))
                    n += 1
                except Exception:
                    pass
            elif isinstance(v, dict) and k.endswith('_styles'):
                for kk, vv in list(v.items()):
                    if vv is real:
                        v[kk] = wrapper
                        n += 1
    return n


def observe_function(real, post, pre=None, label=None):
    """Wrap a module-level function/cyfunction and patch all its aliases."""
    w = _wrap(real, label or getattr(real, '__qualname__', repr(real)), post, pre)
    n = patch_everywhere(real, w)
    return w, n


def uninstall():
    while _installed:
        owner, name, real = _installed.pop()
        try:
            setattr(owner, name, real)
        except Exception:
            pass
