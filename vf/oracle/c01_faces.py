"""C01 reference geometry of the six faces of a parallelepiped, written from definitions (numpy only, never atomman).

Definitions used
----------------
* A point p has relative coordinates s with p = origin + s0*a + s1*b + s2*c.  The face ``s_k = 0`` (``s_k = 1``) is the
  plane through ``origin`` (``origin + v_k``) spanned by the other two cell vectors.
* s_k(p) = (p - origin) . r_k with r_k the k-th reciprocal vector (row k of inv(V)^T), so grad s_k = r_k: the unit
  outward normal of the face s_k = 0 is -r_k/|r_k| and of the face s_k = 1 it is +r_k/|r_k|.  (No cross products.)
* The cell is the intersection of the six closed half-spaces; a point lies inside iff 0 <= s_k <= 1 for all k.
"""
from __future__ import annotations

import numpy as np


def reciprocal(vects):
    """Rows r_k with v_i . r_k = delta_ik, by a linear solve."""
    v = np.asarray(vects, float)
    return np.linalg.solve(v, np.eye(3)).T


def faces(vects, origin):
    """The six faces as (axis k, side s, unit outward normal, anchor point on the face)."""
    v = np.asarray(vects, float)
    o = np.asarray(origin, float)
    r = reciprocal(v)
    out = []
    for k in range(3):
        n = r[k] / np.linalg.norm(r[k])
        out.append((k, 0, -n, o))
        out.append((k, 1, n, o + v[k]))
    return out


def match_planes(normals, points, vects, origin, tol_n=1e-9, tol_d=None):
    """Order-free comparison of six (normal, point) pairs with the six faces of the cell.

    Returns (ok, why).  ok iff there is a one-to-one assignment plane <-> face such that the plane's normal is the unit
    outward normal of the face (within tol_n) and the plane's point lies in the face's plane (distance <= tol_d)."""
    v = np.asarray(vects, float)
    o = np.asarray(origin, float)
    normals = [np.asarray(n, float) for n in normals]
    points = [np.asarray(p, float) for p in points]
    if len(normals) != 6 or len(points) != 6:
        return False, f'{len(normals)} planes instead of 6'
    L = np.linalg.norm(v, axis=1).max()
    if tol_d is None:
        tol_d = 1e-9 * (L + np.abs(o).max())
    used = set()
    for k, s, n, anchor in faces(v, o):
        hit = None
        for j in range(6):
            if j in used:
                continue
            if normals[j].shape != (3,) or points[j].shape != (3,):
                return False, f'plane {j} has malformed normal/point'
            if np.abs(normals[j] - n).max() <= tol_n and abs(np.dot(points[j] - anchor, n)) <= tol_d:
                hit = j
                break
        if hit is None:
            return False, f'no plane describes the face rel[{k}]={s} (outward normal {n.tolist()}, through {anchor.tolist()})'
        used.add(hit)
    return True, ''


def classify(points, vects, origin, bound):
    """Relative coordinates by a direct linear solve and the membership decision.

    Returns (rel (N,3), inside_closed (N,), exempt (N,)): exempt = closer than ``bound`` (in relative coordinates) to
    the plane of some face, where the decision may legitimately flip by rounding."""
    p = np.asarray(points, float).reshape(-1, 3)
    v = np.asarray(vects, float)
    o = np.asarray(origin, float)
    if len(p) == 0:
        z = np.zeros(0, bool)
        return np.zeros((0, 3)), z, z
    rel = np.linalg.solve(v.T, (p - o).T).T
    inside = np.all((rel >= 0) & (rel <= 1), axis=1)
    dist = np.minimum(np.abs(rel), np.abs(rel - 1)).min(axis=1)
    return rel, inside, dist < bound


def signed_distance(pos, normal, point):
    """Signed distance of positions from the plane (unit normal n through point): (pos - point) . n"""
    n = np.asarray(normal, float)
    n = n / np.linalg.norm(n)
    return (np.asarray(pos, float) - np.asarray(point, float)) @ n


def gram_from_abc(a, b, c, alpha, beta, gamma):
    """Metric tensor of a cell with the given lengths and angles: G_ij = |v_i||v_j| cos(angle_ij)."""
    a, b, c, alpha, beta, gamma = (float(x) for x in (a, b, c, alpha, beta, gamma))
    ca, cb, cg = (np.cos(np.radians(x)) for x in (alpha, beta, gamma))
    return np.array([[a * a, a * b * cg, a * c * cb],
                     [a * b * cg, b * b, b * c * ca],
                     [a * c * cb, b * c * ca, c * c]])


def is_axis_aligned(vects):
    """Cell vectors exactly along +x, +y, +z (all off-diagonal components are exactly zero)."""
    v = np.asarray(vects, float)
    off = v[~np.eye(3, dtype=bool)]
    return bool(np.all(off == 0.0) and np.all(np.diag(v) > 0))


def exact_face_points(vects, origin):
    """For an axis-aligned cell: six points lying exactly (in floating point) on the six faces, otherwise at the
    middle of the cell.  Coordinate k of the point on face (k, s) is origin[k] (s=0) or fl(origin[k] + v[k,k]) (s=1):
    the very number every correct description of that face reduces to, so the membership decision of a closed
    (inclusive) and of an open (exclusive) cell is determined without rounding."""
    v = np.asarray(vects, float)
    o = np.asarray(origin, float)
    mid = o + 0.5 * np.diag(v)
    pts = []
    for k in range(3):
        for s in (0, 1):
            p = mid.copy()
            p[k] = o[k] if s == 0 else o[k] + v[k, k]
            pts.append(p)
    pts = np.array(pts)
    # the mid coordinates must be strictly interior in floating point for the decision to rest on the face alone
    strict = bool(np.all((mid > o) & (mid < o + np.diag(v))))
    return pts, strict
