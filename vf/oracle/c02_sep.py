"""C02 oracle: what a periodic separation must satisfy, from the definitions.

numpy only, never atomman.  The exhaustive nearest-image search and the
27-candidate minimum come from ``vf.oracle.geometry``; this module adds the
input broadcasting rule, the rounding bound, the guard of the nearest-image
clause and the row-wise judgement of a returned vector / distance.

Definitions
-----------
direct separation   d   = p1 - p0
lattice image       d + n.vects, n integer, n_i = 0 on non-periodic axes
27 candidates       n_i in {-1,0,1} on periodic axes
true nearest image  the shortest lattice image (exhaustive search, proven radius)
guard of the nearest-image clause
                    both points in the cell (0 <= rel <= 1) AND
                    (cell orthogonal OR true nearest-image distance < w_min/2),
                    w_min = smallest perpendicular width of the cell
bound               64 eps (|p0| + |p1| + 3L), L = longest cell vector
"""
from __future__ import annotations

import numpy as np

from . import geometry as G

EPS = 2.220446049250313e-16
REL_TOL = 1e-9            # a point counts as "in the cell" when -REL_TOL <= rel <= 1+REL_TOL
MAX_CAND = 400_000        # exhaustive search refused (row exempt, counted) beyond this many candidates


class Mismatch(Exception):
    """The two position arguments cannot be paired (N vs M, both > 1)."""


def as_rows(p):
    a = np.asarray(p, dtype=float)
    if a.ndim == 0:
        raise TypeError('scalar position')
    if a.ndim == 1:
        a = a[None, :]
    return a


def broadcast_pairs(p0, p1):
    """One-to-one, one-to-many (either way) or many-to-many rows; otherwise Mismatch."""
    a, b = as_rows(p0), as_rows(p1)
    na, nb = a.shape[0], b.shape[0]
    if na == nb:
        return a, b
    if na == 1:
        return np.repeat(a, nb, axis=0), b
    if nb == 1:
        return a, np.repeat(b, na, axis=0)
    raise Mismatch(f'{na} vs {nb}')


def shape_class(p):
    """'(3,)' / '(1,3)' / '(N,3)' / '(0,3)' of a raw position argument."""
    try:
        a = np.asarray(p, dtype=float)
    except Exception:
        return '?'
    if a.ndim == 1:
        return '(3,)'
    return {0: '(0,3)', 1: '(1,3)'}.get(a.shape[0], '(N,3)')


def is_orthogonal(vects, tol=1e-12):
    v = np.asarray(vects, float)
    n = np.linalg.norm(v, axis=1)
    return bool(abs(v[0] @ v[1]) <= tol * n[0] * n[1] and abs(v[0] @ v[2]) <= tol * n[0] * n[2]
                and abs(v[1] @ v[2]) <= tol * n[1] * n[2])


def ni_candidates(l0, vects, pbc, w=None):
    """Number of lattice points the exhaustive search of geometry.nearest_image visits."""
    if w is None:
        w = G.perp_widths(vects)
    k = 1
    for i in range(3):
        if pbc[i]:
            k *= 2 * (int(np.floor(2 * l0 / w[i])) + 1) + 1
    return k


_GRIDS = {}
_WIDTHS = {}


def widths(v):
    """geometry.perp_widths, memoised per cell (one-pair-at-a-time calls repeat the same cell many times)."""
    key = v.tobytes()
    w = _WIDTHS.get(key)
    if w is None:
        if len(_WIDTHS) > 16:
            _WIDTHS.clear()
        w = _WIDTHS[key] = G.perp_widths(v)
    return w


def _grid(ms):
    """All integer triples with |n_i| <= ms[i] (memoised)."""
    g = _GRIDS.get(ms)
    if g is None:
        if len(_GRIDS) > 64:
            _GRIDS.clear()
        ax = [np.arange(-m, m + 1, dtype=float) for m in ms]
        g = _GRIDS[ms] = np.stack(np.meshgrid(*ax, indexing='ij'), axis=-1).reshape(-1, 3)
    return g


def nearest_image(l0, d0, vects, pbc, w):
    """geometry.nearest_image with the 27-candidate minimum (l0, d0) and the perpendicular widths w of the cell given
    (both are the same for every row of a call; the search itself is unchanged): any lattice vector T with
    |d0 + T| <= |d0| has |T| <= 2 |d0|, and its integer coefficient along axis i is bounded by |T| / w_i."""
    r = 2 * l0
    ms = tuple(int(np.floor(r / w[i])) + 1 if pbc[i] else 0 for i in range(3))
    cand = d0 + _grid(ms) @ vects
    ln = np.sqrt(np.einsum('ij,ij->i', cand, cand))
    k = int(np.argmin(ln))
    return float(ln[k]), cand[k]


class Truth:
    """Everything the oracle knows about N pairs in one cell."""
    __slots__ = ('P0', 'P1', 'd', 'bnd', 'l27', 'v27', 'ntie27', 'inside', 'ortho', 'wmin', 'lni', 'vni',
                 'guard', 'guard_exempt', 'ni_done', 'vects', 'pbc', 'L', 'n', 'host')


def truth(p0, p1, vects, origin, pbc, want_ni=True, sample_outside=0):
    """Oracle values for the pairs (p0, p1) (raw arguments, broadcast here).

    want_ni: run the exhaustive search for every pair with both points in the cell
    (needed to evaluate the guard).  sample_outside: additionally search for up to
    that many pairs outside the guard (information only)."""
    P0, P1 = broadcast_pairs(p0, p1)
    v = np.asarray(vects, float)
    o = np.asarray(origin, float)
    pbc = tuple(bool(x) for x in pbc)
    t = Truth()
    t.host = None
    t.P0, t.P1, t.vects, t.pbc = P0, P1, v, pbc
    t.n = n = P0.shape[0]
    t.L = L = np.linalg.norm(v, axis=1).max()
    t.d = d = P1 - P0
    t.bnd = 64 * EPS * (np.linalg.norm(P0, axis=1) + np.linalg.norm(P1, axis=1) + 3 * L)
    t.ortho = is_orthogonal(v)
    t.wmin = widths(v).min()
    t.lni = np.full(n, np.nan)
    t.vni = np.full((n, 3), np.nan)
    t.ni_done = np.zeros(n, bool)
    t.guard = np.zeros(n, bool)
    t.guard_exempt = np.zeros(n, bool)
    if n == 0:
        t.l27 = np.zeros(0)
        t.v27 = np.zeros((0, 3))
        t.ntie27 = np.zeros(0, int)
        t.inside = np.zeros(0, bool)
        return t
    t.l27, t.v27, ln = G.min27(d, v, pbc)
    t.ntie27 = (ln <= (t.l27 + 8 * t.bnd)[:, None]).sum(axis=1)
    r0, r1 = G.rel(P0, v, o), G.rel(P1, v, o)
    t.inside = (np.all((r0 >= -REL_TOL) & (r0 <= 1 + REL_TOL), axis=1)
                & np.all((r1 >= -REL_TOL) & (r1 <= 1 + REL_TOL), axis=1))
    if want_ni:
        todo = list(np.nonzero(t.inside)[0])
        if sample_outside:
            todo += list(np.nonzero(~t.inside & (t.l27 < 4 * L))[0][:sample_outside])
        w = widths(v)
        for k in todo:
            if ni_candidates(t.l27[k], v, pbc, w) > MAX_CAND:
                continue
            t.lni[k], t.vni[k] = nearest_image(t.l27[k], t.v27[k], v, pbc, w)
            t.ni_done[k] = True
        half = 0.5 * t.wmin
        if t.ortho:
            t.guard = t.inside & t.ni_done
        else:
            near_edge = np.abs(t.lni - half) <= 4 * t.bnd
            t.guard = t.inside & t.ni_done & (t.lni < half) & ~near_edge
            t.guard_exempt = t.inside & t.ni_done & near_edge
        t.guard_exempt |= t.inside & ~t.ni_done
    return t


def _le(a, b):
    with np.errstate(all='ignore'):
        return np.asarray(a <= b) & np.isfinite(a)


def judge_vector(t, res):
    """Row masks for a returned (n,3) separation.  Returns dict clause -> ok mask (True = clause holds)
    plus 'nint' (the integer shifts found) and 'unique_ni' rows where the vector was compared too."""
    res = np.asarray(res, float).reshape(-1, 3)
    out = {}
    if res.shape[0] != t.n:
        return {'rows': np.zeros(max(t.n, 1), bool)}
    out['rows'] = np.ones(t.n, bool)
    if t.n == 0:
        return out
    shift = res - t.d
    with np.errstate(all='ignore'):
        coef = np.linalg.solve(t.vects.T, shift.T).T
        nint = np.rint(coef)
        resid = np.linalg.norm(shift - nint @ t.vects, axis=1)
        ln = np.linalg.norm(res, axis=1)
    nonper = ~np.array(t.pbc)
    out['lattice'] = _le(resid, t.bnd)
    out['periodic-only'] = out['lattice'] & np.all(nint[:, nonper] == 0, axis=1) if nonper.any() else out['lattice'].copy()
    out['min27'] = _le(ln, t.l27 + t.bnd)
    g = t.guard
    ni_len = np.ones(t.n, bool)
    ni_len[g] = _le(ln[g], t.lni[g] + t.bnd[g])
    out['nearest'] = ni_len
    # the vector itself where the nearest image is unique (no second candidate within the bound)
    uniq = g & (t.ntie27 == 1)
    ni_vec = np.ones(t.n, bool)
    if uniq.any():
        ni_vec[uniq] = _le(np.linalg.norm(res[uniq] - t.vni[uniq], axis=1), 2 * t.bnd[uniq])
    out['nearest-vector'] = ni_vec
    out['_nint'] = nint
    out['_len'] = ln
    out['_uniq'] = uniq
    return out


def judge_mag(t, mag):
    """Row masks for a returned (n,) scalar periodic distance."""
    mag = np.asarray(mag, float).reshape(-1)
    if mag.shape[0] != t.n:
        return {'rows': np.zeros(max(t.n, 1), bool)}
    out = {'rows': np.ones(t.n, bool)}
    if t.n == 0:
        return out
    out['min27'] = _le(mag, t.l27 + t.bnd) & (mag >= 0)
    g = t.guard
    ok = np.ones(t.n, bool)
    ok[g] = _le(np.abs(mag[g] - t.lni[g]), t.bnd[g])
    out['nearest'] = ok
    # no lattice image at all is shorter than the true nearest one
    done = t.ni_done
    lo = np.ones(t.n, bool)
    lo[done] = _le(t.lni[done] - t.bnd[done], mag[done])
    out['not-below-nearest'] = lo
    return out


def is_lammps_normalised(vects, tol=1e-12):
    """Lower-triangular cell with positive diagonal and tilt factors within the LAMMPS limits
    (|xy| <= lx/2, |xz| <= lx/2, |yz| <= ly/2; LAMMPS manual, triclinic boxes)."""
    v = np.asarray(vects, float)
    if not G.is_lammps_form(v):
        return False
    return bool(abs(v[1, 0]) <= 0.5 * v[0, 0] * (1 + tol) and abs(v[2, 0]) <= 0.5 * v[0, 0] * (1 + tol)
                and abs(v[2, 1]) <= 0.5 * v[1, 1] * (1 + tol))


def zero_class(vects):
    """Arrangement of the EXACT zeros of the matrix of cell vectors (a statement about the input, independent of how
    the workload generator labels the cell): 'full' (no zero) / 'diagonal' / 'upper-triangular' (zero lower triangle,
    a non-zero above the diagonal) / 'lower-triangular' / 'permuted-diagonal' (one non-zero per row and column, not on
    the diagonal) / 'other-zeros' (any other pattern: permuted triangles, blocks, single zeros)."""
    z = np.asarray(vects, float) == 0.0
    if not z.any():
        return 'full'
    low = z[1, 0] and z[2, 0] and z[2, 1]
    up = z[0, 1] and z[0, 2] and z[1, 2]
    if not z[0, 0] and not z[1, 1] and not z[2, 2]:
        if low and up:
            return 'diagonal'
        if low:
            return 'upper-triangular'
        if up:
            return 'lower-triangular'
    if np.all((~z).sum(axis=0) == 1) and np.all((~z).sum(axis=1) == 1):
        return 'permuted-diagonal'
    return 'other-zeros'


def axis_wrap_length(t):
    """Length of the separation a "no tilt" shortcut would return: every periodic cell vector i is treated as if it
    lay along its dominant Cartesian axis c_i, and component c_i of the direct separation is wrapped by vects[i, c_i]
    (shift clipped to -1/0/+1).  Exact for diagonal and permuted-diagonal cells.  None where two cell vectors share
    their dominant axis."""
    ax = np.argmax(np.abs(t.vects), axis=1)
    if sorted(int(a) for a in ax) != [0, 1, 2] or t.n == 0:
        return None
    d = t.d.copy()
    with np.errstate(all='ignore'):
        for i in range(3):
            if t.pbc[i]:
                c = int(ax[i])
                d[:, c] -= t.vects[i, c] * np.clip(np.rint(d[:, c] / t.vects[i, c]), -1, 1)
        return np.linalg.norm(d, axis=1)


def hostility(t):
    """Row masks of input classes that defeat plausible shortcuts of the image search (coverage information for
    floors, no verdicts).  All are statements about the INPUT (direct separation, cell, periodicity):

    beaten                some candidate image is shorter than the direct separation by more than 8 bounds
    short_direct_beaten   ... although the direct separation is shorter than half the shortest cell vector (only
                          possible where a +-1 combination of periodic cell vectors is shorter than every cell vector)
    relhalf_beaten        ... although every box-relative component of the direct separation is within +-1/2
    combo_image           the unique best candidate shifts along two or three cell vectors at once
    axis_wrap_wrong       wrapping each Cartesian component on its own (axis_wrap_length) gives another length than the
                          shortest candidate (by more than 8 bounds, either way)"""
    if t.host is not None:
        return t.host
    if t.n == 0:
        z = np.zeros(0, bool)
        return dict(beaten=z, short_direct_beaten=z, relhalf_beaten=z, combo_image=z, axis_wrap_wrong=z)
    ld = np.linalg.norm(t.d, axis=1)
    vmin = np.linalg.norm(t.vects, axis=1).min()
    beaten = t.l27 < ld - 8 * t.bnd
    with np.errstate(all='ignore'):
        dr = np.linalg.solve(t.vects.T, t.d.T).T
        nwin = np.rint(np.linalg.solve(t.vects.T, (t.v27 - t.d).T).T)
    aw = axis_wrap_length(t)
    t.host = dict(beaten=beaten,
                  axis_wrap_wrong=np.zeros(t.n, bool) if aw is None else np.abs(aw - t.l27) > 8 * t.bnd,
                  short_direct_beaten=beaten & (ld < 0.5 * vmin),
                  relhalf_beaten=beaten & np.all(np.abs(dr) <= 0.5, axis=1),
                  combo_image=(t.ntie27 == 1) & ((nwin != 0).sum(axis=1) >= 2))
    return t.host


def self_check(t):
    """Internal consistency of the oracle itself: the exhaustive minimum can never exceed the 27-candidate one."""
    done = t.ni_done
    return bool(np.all(t.lni[done] <= t.l27[done] + t.bnd[done]))
