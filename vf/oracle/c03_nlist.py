"""C03 oracle: neighbour relation by O(N^2) brute force over the <=27 periodic
images, list well-formedness predicates and a reader for the neighbour-list
text file.  Written from the property statement / the file's own header
comment; numpy only, never atomman (and not atomman's dmag)."""
from __future__ import annotations

import itertools

import numpy as np

EPS = 2.220446049250313e-16


def image_shifts(vects, pbc):
    """The <=27 lattice translations n.vects with n_i in {-1,0,1} on periodic axes, n_i = 0 otherwise."""
    v = np.asarray(vects, float)
    ranges = [(-1, 0, 1) if bool(p) else (0,) for p in pbc]
    ns = np.array(list(itertools.product(*ranges)), float)
    return ns, ns @ v


def pair_table(pos, vects, pbc, cutoff, chunk=None):
    """Brute-force pair table.

    Returns dict with
      dmin   (N,N) float  shortest of the <=27 candidate separations |p_j - p_i + T|
      nimg   (N,N) int16  how many of the candidates are shorter than the cutoff
      direct (N,N) float  |p_j - p_i| (T = 0)
    The diagonal is included (i == j: dmin = 0, nimg counts the atom's own
    images inside the cutoff, the T = 0 candidate included)."""
    p = np.asarray(pos, float)
    n = len(p)
    _, sh = image_shifts(vects, pbc)
    dmin = np.empty((n, n))
    nimg = np.zeros((n, n), np.int16)
    direct = np.empty((n, n))
    if chunk is None:
        chunk = max(1, int(1_000_000 // max(n, 1)))
    for a in range(0, n, chunk):
        b = min(n, a + chunk)
        d0 = p[None, :, :] - p[a:b, None, :]                # (c,N,3) p_j - p_i
        best = None
        for t in sh:
            d = d0 + t
            r = np.sqrt(d[..., 0] * d[..., 0] + d[..., 1] * d[..., 1] + d[..., 2] * d[..., 2])
            if not t.any():
                direct[a:b] = r
            nimg[a:b] += (r < cutoff)
            best = r if best is None else np.minimum(best, r)
        dmin[a:b] = best
    return dict(dmin=dmin, nimg=nimg, direct=direct)


def compare_bound(pos, vects, cutoff):
    """Pairs nearer to the cutoff than this are not decided: the property's own
    1e-9*cutoff plus the rounding of a separation formed from coordinates of
    this magnitude (difference + three lattice-vector terms, square, sum, root)."""
    p = np.asarray(pos, float)
    v = np.asarray(vects, float)
    big = (np.abs(p).max() if p.size else 0.0) + 3 * np.linalg.norm(v, axis=1).max()
    return 1e-9 * cutoff + 64 * EPS * big


def expected(pos, vects, pbc, cutoff, bound):
    """(adjacency, exempt, table): adjacency[i,j] = (i != j and dmin < cutoff);
    exempt[i,j] = |dmin - cutoff| <= bound (i != j; never when bound == 0)."""
    tab = pair_table(pos, vects, pbc, cutoff)
    n = len(tab['dmin'])
    off = ~np.eye(n, dtype=bool)
    adj = (tab['dmin'] < cutoff) & off
    if bound > 0:
        ex = (np.abs(tab['dmin'] - cutoff) <= bound) & off
    else:
        ex = np.zeros((n, n), bool)
    return adj, ex, tab


def rows_from_array(arr):
    """Split the raw (N, 1+width) array into coord and python lists of the first coord[i] entries."""
    a = np.asarray(arr)
    coord = a[:, 0]
    rows = []
    for i in range(a.shape[0]):
        c = int(coord[i])
        c = max(0, min(c, a.shape[1] - 1))
        rows.append(a[i, 1:1 + c].tolist())
    return coord, rows


def adjacency_from_rows(rows, n):
    """Boolean matrix from the lists; entries outside [0,n) are returned separately."""
    m = np.zeros((n, n), bool)
    bad = []
    for i, r in enumerate(rows):
        for j in r:
            if 0 <= j < n:
                m[i, j] = True
            else:
                bad.append((i, int(j)))
    return m, bad


def structure_report(rows, n):
    """Counts of malformed rows: unsorted (a descent), duplicates, self entries, out of range."""
    unsorted = dup = selfe = oor = 0
    first = {}
    for i, r in enumerate(rows):
        if any(r[k] > r[k + 1] for k in range(len(r) - 1)):
            unsorted += 1
            first.setdefault('unsorted', (i, r[:12]))
        if len(set(r)) != len(r):
            dup += 1
            first.setdefault('duplicate', (i, r[:12]))
        if i in r:
            selfe += 1
            first.setdefault('self', (i, r[:12]))
        if any((j < 0 or j >= n) for j in r):
            oor += 1
            first.setdefault('range', (i, r[:12]))
    return dict(unsorted=unsorted, duplicate=dup, self=selfe, range=oor, first=first)


def parse_file(text):
    """Reader for the neighbour-list text format as its header describes it:
    '#' lines are comments; every other line is 'atom-index neighbour neighbour ...'.
    Returns {index: [neighbours]} and the number of data lines."""
    out = {}
    nlines = 0
    for line in text.splitlines():
        s = line.strip()
        if not s or s.startswith('#'):
            continue
        nlines += 1
        t = s.split()
        out[int(t[0])] = [int(x) for x in t[1:]]
    return out, nlines
