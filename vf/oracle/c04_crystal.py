"""'Same infinite crystal' oracle (numpy/scipy only, never atomman).

A *cell description* is ``Cell(vects, origin, pos, labels)``:

* ``vects``  (3,3) rows = cell vectors (Cartesian), any orientation / handedness;
* ``origin`` (3,)  Cartesian position of the cell corner;
* ``pos``    (N,3) Cartesian atom positions (need not lie inside the cell);
* ``labels`` (N,k) float array, one row per atom, holding everything that must
  travel with an atom (type number, flattened per-atom property values).
  Build it with :func:`make_labels`.

The *infinite crystal* of a cell is the set {(pos_j + n.vects, labels_j) : j, n in Z^3}.

``compare(orig, res, T=None, anchor='origin', tol=..)`` decides whether the
crystal of ``res`` is the crystal of ``orig`` re-expressed in a frame rotated
by ``T`` (column convention ``x_res = T . x_orig``; for row vectors
``x_orig = x_res @ inv(T).T``).  It returns a :class:`Report` whose fields are
the separate clauses, so that a caller can attach its own expectations
(replication count, expected cell vectors):

``M``            (3,3) float: result cell vectors, rotated back, in units of the
                 original cell vectors (``res_vects_back = M @ orig_vects``).
``den``          smallest d <= max_den with d.M integer (None: the two lattices
                 are not commensurate - nothing else is evaluated).
``index``        |det M| : the replication count n (1/multiplicity for a
                 primitive cell cut out of a centred one).
``count_ratio``  N_res / N_orig            (must equal index)
``volume_ratio`` |det res_vects| / |det orig_vects|   (must equal index)
``site``         (N_res,) index of the original atom each result atom falls on
                 modulo the original lattice (-1: on no site, -2: on several).
``offset``       (N_res,3) integer lattice offset n: x_back = orig_pos[site] + n.orig_vects
``residual``     (N_res,) Cartesian distance to the matched site.
``unmatched``    result atoms (or, if den > 1, result-lattice translates of
                 them) that fall on no original site.
``mislabelled``  result atoms whose matched site carries different labels.
``multiplicity`` (N_orig,) how often each original atom is represented (summed over
                 the d^3 coset translates when den > 1; the translates cover every
                 coset equally often, so 'equal' keeps its meaning).
``coincident``   list of pairs (i, j) of result atoms that coincide modulo the
                 result lattice.
``same``         conjunction of all clauses.

Why these clauses decide crystal equality:  every result atom (and, when the
result lattice is not a sub-lattice of the original one, every coset
translate of it: the d^3 combinations n.res_vects, 0 <= n_i < d, exhaust
L_res / (L_res & L_orig) because d.res_vects is in L_orig) lies on an original
site with equal labels  =>  crystal(res) is a subset of crystal(orig); equal
atom density (count_ratio = volume_ratio) without coincident result atoms  =>
the subset is everything.

Frames.  ``anchor='origin'``: the two cell corners are the same crystal point
(``x_orig = orig_origin + (x_res - res_origin) @ inv(T).T``) - this is what
atomman's rotate/normalize does, it re-bases the result at a zero origin.
``anchor='absolute'``: plain rotation about the Cartesian origin
(``x_orig = x_res @ inv(T).T``) - supersize, which never moves an atom.
``shift`` (3,) is added to x_orig in either mode (a known rigid translation).
"""
from __future__ import annotations

import itertools
from collections import namedtuple

import numpy as np

Cell = namedtuple('Cell', 'vects origin pos labels')


def make_labels(natoms, *arrays):
    """Stack per-atom arrays (leading dimension natoms) into an (natoms, k) float label table."""
    cols = []
    for a in arrays:
        a = np.asarray(a)
        if a.shape[:1] != (natoms,):
            raise ValueError(f'label array of shape {a.shape} for {natoms} atoms')
        cols.append(a.reshape(natoms, -1).astype(float))
    if not cols:
        return np.zeros((natoms, 0))
    return np.hstack(cols)


def cell(vects, origin, pos, labels=None):
    pos = np.asarray(pos, float).reshape(-1, 3)
    if labels is None:
        labels = np.zeros((len(pos), 0))
    return Cell(np.asarray(vects, float).reshape(3, 3), np.asarray(origin, float).reshape(3), pos,
                np.asarray(labels, float).reshape(len(pos), -1))


def rel_coords(points, vects, origin):
    """Cell-relative coordinates s with points = origin + s @ vects (direct linear solve)."""
    p = np.asarray(points, float).reshape(-1, 3) - np.asarray(origin, float)
    return np.linalg.solve(np.asarray(vects, float).T, p.T).T


def perp_widths(vects):
    v = np.asarray(vects, float)
    vol = abs(np.linalg.det(v))
    return np.array([vol / np.linalg.norm(np.cross(v[1], v[2])),
                     vol / np.linalg.norm(np.cross(v[2], v[0])),
                     vol / np.linalg.norm(np.cross(v[0], v[1]))])


def rational_denominator(M, max_den=6, tol=1e-6):
    """Smallest positive integer d <= max_den with d*M integer to within tol, else None."""
    M = np.asarray(M, float)
    for d in range(1, max_den + 1):
        if np.abs(d * M - np.rint(d * M)).max() <= tol * d:
            return d
    return None


def coincident_pairs(vects, pos, tol):
    """Pairs (i<j) of atoms closer than tol modulo the lattice ``vects`` (the
    origin is irrelevant).  Atoms are wrapped into the cell; an atom within
    tol of a low face also appears as a ghost one lattice vector up, so pairs
    straddling a face are found.  Direct O(N^2) for small N, KD-tree otherwise."""
    pos = np.asarray(pos, float).reshape(-1, 3)
    n = len(pos)
    if n < 2:
        return []
    v = np.asarray(vects, float)
    s = rel_coords(pos, v, np.zeros(3))
    if n <= 400:
        d = s[:, None, :] - s[None, :, :]
        d -= np.rint(d)
        dist = np.linalg.norm(d @ v, axis=-1)
        # two atoms coincide modulo the lattice iff their relative separation is within
        # tol of an integer vector, which is the one rint() picks
        i, j = np.where(np.triu(dist < tol, 1))
        return list(zip(i.tolist(), j.tolist()))
    from scipy.spatial import cKDTree
    s = s - np.floor(s)
    s[s >= 1.0] = 0.0
    delta = 2.0 * tol / perp_widths(v)
    pts, owner = [s], [np.arange(n)]
    low = s < delta          # near a low face -> ghost shifted by +1
    high = s > 1 - delta     # near a high face -> ghost shifted by -1
    for sh in itertools.product((-1, 0, 1), repeat=3):
        if sh == (0, 0, 0):
            continue
        m = np.ones(n, bool)
        for ax in range(3):
            if sh[ax] == 1:
                m &= low[:, ax]
            elif sh[ax] == -1:
                m &= high[:, ax]
        if m.any():
            pts.append(s[m] + np.array(sh, float))
            owner.append(np.nonzero(m)[0])
    pts = np.vstack(pts) @ v
    owner = np.concatenate(owner)
    out = set()
    for a, b in cKDTree(pts).query_pairs(tol):
        i, j = int(owner[a]), int(owner[b])
        if i != j:
            out.add((min(i, j), max(i, j)))
    return sorted(out)


class Report:
    """Outcome of :func:`compare`; see the module docstring for the fields."""

    def __init__(self):
        self.M = None
        self.den = None
        self.index = None
        self.count_ratio = None
        self.volume_ratio = None
        self.site = None
        self.offset = None
        self.residual = None
        self.unmatched = []
        self.mislabelled = []
        self.multiplicity = None
        self.coincident = []
        self.tol = None
        self.n_orig = self.n_res = 0

    # individual clauses -------------------------------------------------------
    @property
    def commensurate(self):
        return self.den is not None

    @property
    def count_ok(self):
        return self.commensurate and abs(self.count_ratio - self.index) <= 1e-6 * max(1.0, self.index)

    @property
    def volume_ok(self):
        return self.commensurate and abs(self.volume_ratio - self.index) <= 1e-6 * max(1.0, self.index)

    @property
    def matched_ok(self):
        return self.commensurate and not self.unmatched

    @property
    def labels_ok(self):
        return self.commensurate and not self.mislabelled

    @property
    def multiplicity_ok(self):
        return (self.commensurate and self.multiplicity is not None and len(self.multiplicity) > 0
                and int(self.multiplicity.min()) == int(self.multiplicity.max()))

    @property
    def distinct_ok(self):
        return self.commensurate and not self.coincident

    @property
    def same(self):
        return bool(self.count_ok and self.volume_ok and self.matched_ok and self.labels_ok
                    and self.multiplicity_ok and self.distinct_ok)

    def failures(self):
        names = ['commensurate', 'count_ok', 'volume_ok', 'matched_ok', 'labels_ok', 'multiplicity_ok', 'distinct_ok']
        return [k for k in names if not getattr(self, k)]

    def summary(self):
        return dict(M=self.M, den=self.den, index=self.index, count_ratio=self.count_ratio,
                    volume_ratio=self.volume_ratio, n_orig=self.n_orig, n_res=self.n_res,
                    unmatched=self.unmatched[:5], mislabelled=self.mislabelled[:5],
                    multiplicity=None if self.multiplicity is None else self.multiplicity.tolist()[:12],
                    coincident=self.coincident[:5],
                    max_residual=None if self.residual is None or not len(self.residual) else float(np.nanmax(self.residual)),
                    failures=self.failures())


def back_map(res, orig, T=None, anchor='origin', shift=None):
    """Result atom positions and result cell vectors expressed in the original frame."""
    Ti = np.eye(3) if T is None else np.linalg.inv(np.asarray(T, float))
    if anchor == 'origin':
        x = orig.origin + (res.pos - res.origin) @ Ti.T
    elif anchor == 'absolute':
        x = res.pos @ Ti.T
    else:
        raise ValueError(anchor)
    if shift is not None:
        x = x + np.asarray(shift, float)
    return x, res.vects @ Ti.T


def match_sites(points, orig, tol, label_tol=0.0, labels=None):
    """For every point: the original atom it falls on modulo the original lattice.
    Returns (site, offset, residual, label_ok)."""
    s = rel_coords(points, orig.vects, orig.origin)                 # (P,3)
    so = rel_coords(orig.pos, orig.vects, orig.origin)              # (N,3)
    d = s[:, None, :] - so[None, :, :]
    n = np.rint(d)
    r = np.linalg.norm((d - n) @ orig.vects, axis=-1)               # (P,N)
    hit = r <= tol
    nh = hit.sum(axis=1)
    best = np.argmin(r, axis=1)
    site = np.where(nh == 1, best, np.where(nh == 0, -1, -2))
    ar = np.arange(len(s))
    offset = n[ar, best].astype(int)
    residual = r[ar, best]
    if labels is None or labels.shape[1] == 0:
        lab_ok = np.ones(len(s), bool)
    else:
        lab_ok = np.all(np.abs(labels - orig.labels[best]) <= label_tol, axis=1)
    return site, offset, residual, lab_ok


def compare(orig, res, T=None, anchor='origin', shift=None, tol=None, label_tol=0.0, max_den=6):
    """Compare the infinite crystals of two cell descriptions (see module docstring).

    ``tol``: Cartesian matching / coincidence distance (default 1e-6 x the
    longest original cell vector).  ``label_tol``: allowed absolute label
    difference (0 = identical values)."""
    orig = cell(*orig)
    res = cell(*res)
    rep = Report()
    rep.n_orig, rep.n_res = len(orig.pos), len(res.pos)
    L = np.linalg.norm(orig.vects, axis=1).max()
    tol = 1e-6 * L if tol is None else float(tol)
    rep.tol = tol
    x_back, v_back = back_map(res, orig, T, anchor, shift)
    rep.M = v_back @ np.linalg.inv(orig.vects)
    rep.den = rational_denominator(rep.M, max_den)
    rep.index = float(abs(np.linalg.det(rep.M)))
    rep.volume_ratio = float(abs(np.linalg.det(res.vects)) / abs(np.linalg.det(orig.vects)))
    rep.count_ratio = rep.n_res / rep.n_orig if rep.n_orig else float('nan')
    if rep.den is None or rep.n_orig == 0 or rep.n_res == 0:
        if rep.n_res == 0 or rep.n_orig == 0:
            rep.unmatched = ['no atoms']
        return rep
    site, offset, residual, lab_ok = match_sites(x_back, orig, tol, label_tol, res.labels)
    rep.site, rep.offset, rep.residual = site, offset, residual
    rep.unmatched = np.nonzero(site < 0)[0].tolist()
    rep.mislabelled = np.nonzero((site >= 0) & ~lab_ok)[0].tolist()
    rep.multiplicity = np.bincount(site[site >= 0], minlength=rep.n_orig)
    if rep.den > 1:
        # the result lattice is finer than (or oblique to) the original one: every coset
        # translate of every result atom must be an original atom with the same labels too
        for nvec in itertools.product(range(rep.den), repeat=3):
            if nvec == (0, 0, 0):
                continue
            tr = np.array(nvec, float) @ v_back
            s2, _, _, l2 = match_sites(x_back + tr, orig, tol, label_tol, res.labels)
            rep.multiplicity = rep.multiplicity + np.bincount(s2[s2 >= 0], minlength=rep.n_orig)
            for k in np.nonzero(s2 < 0)[0].tolist():
                rep.unmatched.append((k, nvec))
            for k in np.nonzero((s2 >= 0) & ~l2)[0].tolist():
                rep.mislabelled.append((k, nvec))
    rep.coincident = coincident_pairs(res.vects, res.pos, tol)
    return rep


def inside_fraction(vects, origin, pos, bound=1e-9):
    """Relative coordinates and the mask of atoms with every coordinate in [-bound, 1+bound]."""
    s = rel_coords(pos, vects, origin)
    return s, np.all((s >= -bound) & (s <= 1 + bound), axis=1)


def is_lammps_cell(vects, tol=1e-9):
    """a along +x, b in the xy plane with positive y, c with positive z (hence right-handed)."""
    v = np.asarray(vects, float)
    m = np.abs(v).max()
    return bool(abs(v[0, 1]) <= tol * m and abs(v[0, 2]) <= tol * m and abs(v[1, 2]) <= tol * m
                and v[0, 0] > 0 and v[1, 1] > 0 and v[2, 2] > 0)


def is_proper_rotation(T, tol=1e-9):
    T = np.asarray(T, float)
    return bool(T.shape == (3, 3) and np.abs(T @ T.T - np.eye(3)).max() <= tol and abs(np.linalg.det(T) - 1) <= tol)


# ------------------------------------------------------------------------------------------------
# hand-computed cases: the oracle must accept the first and name the right clause for each broken one
# ------------------------------------------------------------------------------------------------
def selfcheck():
    """Returns a list of (name, passed) for hand-built cases (good and deliberately broken)."""
    out = []
    a = 4.0
    ov = np.diag([a, a, a])
    oo = np.array([1.0, -2.0, 0.5])
    # CsCl-like cell: two atoms, labels (type, id)
    op = oo + np.array([[0, 0, 0], [0.5, 0.5, 0.5]]) * a
    ol = np.array([[1, 7.0], [2, 9.0]])
    orig = (ov, oo, op, ol)
    # 2x1x1 supercell written out by hand
    rv = np.diag([2 * a, a, a])
    rp = oo + np.array([[0, 0, 0], [0.5, 0.5, 0.5], [1, 0, 0], [1.5, 0.5, 0.5]]) * a
    rl = np.array([[1, 7.0], [2, 9.0], [1, 7.0], [2, 9.0]])
    r = compare(orig, (rv, oo, rp, rl), anchor='absolute')
    out.append(('supercell accepted', r.same and abs(r.index - 2) < 1e-12 and r.den == 1
                and r.offset.tolist() == [[0, 0, 0], [0, 0, 0], [1, 0, 0], [1, 0, 0]]))
    # rotated by 90 degrees about z (x -> y): x_res = T x_orig, result re-based at origin 0
    T = np.array([[0.0, -1, 0], [1, 0, 0], [0, 0, 1]])
    rv2 = rv @ T.T
    rp2 = (rp - oo) @ T.T
    r = compare(orig, (rv2, np.zeros(3), rp2, rl), T=T, anchor='origin')
    out.append(('rotated supercell accepted', r.same))
    # orthorhombic cell with a generic second atom: no rotation of the crystal is a symmetry
    ov3 = np.diag([a, 1.3 * a, 1.7 * a])
    op3 = oo + np.array([[0, 0, 0], [0.21, 0.37, 0.43]]) @ ov3
    rv3 = np.diag([2.0, 1, 1]) @ ov3
    rp3 = np.vstack([op3, op3 + ov3[0]])
    r = compare((ov3, oo, op3, ol), (rv3 @ T.T, np.zeros(3), (rp3 - oo) @ T.T, rl), T=T, anchor='origin')
    out.append(('rotated orthorhombic supercell accepted', r.same))
    r = compare((ov3, oo, op3, ol), (rv3 @ T.T, np.zeros(3), (rp3 - oo) @ T.T, rl), T=T.T, anchor='origin')
    out.append(('wrong rotation sense rejected', not r.same))
    r = compare((ov3, oo, op3, ol), (rv3 @ T.T, np.zeros(3), (rp3 - oo) @ T.T, rl), T=T, anchor='absolute')
    out.append(('wrong anchoring rejected', not r.same))
    bad = rp.copy(); bad[3, 0] += 0.01
    r = compare(orig, (rv, oo, bad, rl), anchor='absolute')
    out.append(('displaced atom -> unmatched', (not r.same) and r.unmatched == [3]))
    bl = rl.copy(); bl[2, 1] = 9.0
    r = compare(orig, (rv, oo, rp, bl), anchor='absolute')
    out.append(('wrong property -> mislabelled', (not r.same) and r.mislabelled == [2] and r.matched_ok))
    dup = rp.copy(); dup[2] = rp[0] + [2 * a, 0, 0]
    r = compare(orig, (rv, oo, dup, rl), anchor='absolute')
    out.append(('duplicate atom -> coincident', (not r.same) and r.coincident == [(0, 2)] and r.matched_ok))
    swp = rp.copy(); swp[3] = rp[0] + [a, a, 0]; swl = rl.copy(); swl[3] = rl[0]
    r = compare(orig, (rv, oo, swp, swl), anchor='absolute')
    out.append(('unequal multiplicity flagged', (not r.same) and not r.multiplicity_ok))
    r = compare(orig, (rv, oo, rp[:3], rl[:3]), anchor='absolute')
    out.append(('missing atom -> count', (not r.same) and not r.count_ok))
    r = compare(orig, (np.diag([5 ** 0.5 * a, a, a]), oo, rp, rl), anchor='absolute')
    out.append(('incommensurate cell rejected', not r.same and not r.commensurate))
    # primitive cell of a body-centred crystal: conventional cell with 2 identical atoms
    cp = np.array([[0, 0, 0], [0.5, 0.5, 0.5]]) * a
    cl = np.array([[1, 3.0], [1, 3.0]])
    pv = np.array([[-0.5, 0.5, 0.5], [0.5, -0.5, 0.5], [0.5, 0.5, -0.5]]) * a
    r = compare((ov, np.zeros(3), cp, cl), (pv, np.zeros(3), cp[:1], cl[:1]), anchor='absolute')
    out.append(('bcc primitive cell accepted', r.same and r.den == 2 and abs(r.index - 0.5) < 1e-12))
    cl2 = np.array([[1, 3.0], [2, 3.0]])
    r = compare((ov, np.zeros(3), cp, cl2), (pv, np.zeros(3), cp[:1], cl2[:1]), anchor='absolute')
    out.append(('primitive cell of a non-centred crystal rejected', not r.same and not r.labels_ok))
    # coincidence across a cell face, large-N branch
    rng = np.random.default_rng(5)
    big = rng.uniform(0.05, 0.95, (500, 3)) * a
    big[10] = [1e-9, 2.0, 2.0]; big[400] = [a - 1e-9, 2.0, 2.0]
    out.append(('face-straddling pair found (KD-tree branch)', coincident_pairs(ov, big, 1e-6) == [(10, 400)]))
    out.append(('face-straddling pair found (direct branch)', coincident_pairs(ov, big[[10, 400, 3]], 1e-6) == [(0, 1)]))
    return out
