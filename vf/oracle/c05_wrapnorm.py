"""Reference judgements for C05 (wrap / normalise), written from the property
statement and elementary lattice geometry.  numpy only, never atomman.

Nothing here predicts *which* lattice image the code picks: every function
decomposes an observed (before, after) pair and says what kind of motion it
was, so an atom sitting on a face may legitimately go either way.
"""
from __future__ import annotations

import numpy as np

from . import geometry as G


def handed(vects):
    """+1 right-handed, -1 left-handed (sign of the triple product)."""
    return 1 if G.volume(vects) > 0 else -1


def c_reversed(vects, origin):
    """The same parallelepiped described with its third vector reversed:
    (a, b, -c) hung on origin + c."""
    v = np.array(vects, float)
    o = np.asarray(origin, float) + v[2]
    v[2] = -v[2]
    return v, o


def reference_cell(vects, origin):
    """The cell normalise is stated to rotate: the input itself when it is
    right-handed, its c-reversed description when it is left-handed."""
    if handed(vects) > 0:
        return np.array(vects, float), np.array(origin, float), False
    v, o = c_reversed(vects, origin)
    return v, o, True


def lattice_coeffs(d, vects):
    """Coefficients n with d = n . vects (rows of ``vects`` are the cell vectors)."""
    d = np.asarray(d, float)
    return np.linalg.solve(np.asarray(vects, float).T, d.reshape(-1, 3).T).T.reshape(d.shape)


def dist_to_int(x):
    x = np.asarray(x, float)
    return np.abs(x - np.rint(x))


def cell_change(old_vects, old_origin, new_vects, new_origin):
    """Describe a new cell relative to an old one, per cell direction i:
    s[i]    factor by which vector i was stretched (projection on the old one),
    perp[i] length of the part of the new vector i that is NOT along old vector i,
    lo[i]   position of the new origin in old relative coordinates,
    hi[i]   lo[i] + s[i]: position of the far face in old relative coordinates."""
    ov = np.asarray(old_vects, float)
    nv = np.asarray(new_vects, float)
    s = np.einsum('ij,ij->i', nv, ov) / np.einsum('ij,ij->i', ov, ov)
    perp = np.linalg.norm(nv - s[:, None] * ov, axis=1)
    lo = lattice_coeffs(np.asarray(new_origin, float) - np.asarray(old_origin, float), ov)
    return s, perp, lo, lo + s


def reduce_separation(d, vects):
    """A lattice-equivalent separation with relative components in [-1/2, 1/2]."""
    d = np.asarray(d, float)
    n = np.rint(lattice_coeffs(d, vects))
    return d - n @ np.asarray(vects, float)


def pair_indices(natoms, rng, maxpairs=66):
    """All i<j pairs, or a seeded sample of ``maxpairs`` of them."""
    ii, jj = np.triu_indices(natoms, 1)
    if len(ii) > maxpairs:
        k = np.sort(rng.choice(len(ii), maxpairs, replace=False))
        ii, jj = ii[k], jj[k]
    return ii, jj


def true_pair_distances(pos, vects, ii, jj):
    """True nearest-image distance of each listed pair in the fully periodic
    lattice spanned by ``vects`` (exhaustive search of geometry.nearest_image
    after bringing the separation next to the origin, which changes nothing
    but the search radius)."""
    pos = np.asarray(pos, float)
    out = np.empty(len(ii))
    pbc = (True, True, True)
    for k, (i, j) in enumerate(zip(ii, jj)):
        d0 = reduce_separation(pos[j] - pos[i], vects)
        out[k] = G.nearest_image(d0, vects, pbc)[0]
    return out


def rotation_between(ref_vects, new_vects):
    """The linear map R with  ref_vects . R^T = new_vects  (x_new = R x_old)."""
    return np.linalg.solve(np.asarray(ref_vects, float), np.asarray(new_vects, float)).T


def is_proper_rotation(T, tol):
    """T . T^T = 1 and det T = +1, every entry within ``tol`` (dimensionless; no hidden relative allowance)."""
    T = np.asarray(T, float)
    if T.shape != (3, 3) or not np.all(np.isfinite(T)):
        return False
    return bool(np.abs(T @ T.T - np.eye(3)).max() <= tol and abs(np.linalg.det(T) - 1.0) <= tol)


def same_cell(va, oa, vb, ob):
    """Largest difference between two cells in units of the largest cell-vector length of the second
    (dimensionless, so the same bound serves every length scale)."""
    vb = np.asarray(vb, float)
    L = np.linalg.norm(vb, axis=1).max()
    return float(max(np.abs(np.asarray(va, float) - vb).max(), np.abs(np.asarray(oa, float) - np.asarray(ob, float)).max()) / L)
