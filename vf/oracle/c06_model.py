"""C06 reference model: a record-per-atom model of atomman's Atoms / System.

Written from the documented semantics (class and method docstrings), not from
the implementation.  numpy only; never imports atomman.

Representation
--------------
``MAtoms.rows`` is a list with one dict per atom: ``{property name -> cell}``.
A *cell* is a numpy array holding the value of that property for that atom
(shape = the property's per-atom shape, dtype = the property's stored dtype).
Cells are modified in place, so two model objects can describe the same stored
value by holding the *same* cell object -- this is how "``atoms[1:3]`` may be a
window onto its parent" is represented (the aliasing topology of the
non-copying accessors is documented nowhere; the harness observes it and tells
the model, see ``subset(shared=...)``).  ``MAtoms.keys`` is the ordered list of
property names, ``dtypes`` / ``shapes`` the per-property dtype and per-atom
shape.  ``MSystem`` adds the ``symbols`` / ``masses`` tuples, ``pbc`` and the
(fixed) cell.

Documented semantics the model implements
-----------------------------------------
* a property value is converted to an array; a scalar or a leading length of 1
  is broadcast to every atom; any other leading length than natoms is refused;
* ``atype`` values below 1 are refused by the property mapping;
* assigning to an existing property saves the values over the old ones (the
  stored dtype is kept, values are cast to it); a new name creates a property
  with the dtype / per-atom shape of the value;
* ``prop(key, index, value)`` writes only the indexed atoms;
* ``prop_atype(key, values)`` gives atom i the value ``values[atype_i - 1]`` and
  needs ``len(values) >= natypes``; ``prop_atype(key, value, atype=k)`` gives
  ``value`` to the atoms of type k only, a new property starting from zeros, and
  needs k to be one of 1..natypes;
* ``extend(n)`` appends n atoms with atype 1 and every other property 0;
  ``extend(other)`` appends other's atoms, the union of the property sets is
  kept and what one side lacks is 0; a new object is returned;
* ``atoms[index]`` is the Atoms of the selected atoms (an int selects one atom,
  negative ints count from the end); ``atoms[index] = other`` needs identical
  property sets;
* System: ``symbols`` shorter than the number of atom types is padded with
  None; ``natypes`` is the larger of ``len(symbols)`` and the largest atype;
  ``masses`` are floats or None, padded with None to ``natypes``, and more masses
  than ``natypes`` are refused; ``pbc`` is three booleans;
  ``atoms_prop(scale=True)`` reads box-relative / writes from box-relative
  coordinates; ``atoms_extend(scale=True)`` takes the positions of the *added*
  atoms as box-relative; ``atoms_ix[index]`` is the System of the selected atoms
  with the same box, pbc and symbols.
"""
from __future__ import annotations

import numpy as np

from . import geometry as G


class Refused(Exception):
    """The documented behaviour for this input is a refusal (state unchanged)."""

    def __init__(self, kind):
        super().__init__(kind)
        self.kind = kind


class OutOfDomain(Exception):
    """The generator produced an input the model gives no meaning to (harness bug)."""


KINDCLASS = {'i': 'int', 'u': 'int', 'f': 'float', 'b': 'bool', 'U': 'str'}


def kindclass(dtype):
    return KINDCLASS.get(np.dtype(dtype).kind, np.dtype(dtype).kind)


def _cell(value, dtype, shape):
    c = np.zeros(shape, dtype=dtype)
    c[...] = value
    return c


def resolve(natoms, index):
    """Row numbers selected by ``index`` (numpy selection rules over 0..natoms-1).
    Returns (rows, single) where single is True for an integer index."""
    if isinstance(index, (int, np.integer)) and not isinstance(index, (bool, np.bool_)):
        i = int(index)
        if not -natoms <= i < natoms:
            raise OutOfDomain('integer index out of range')
        return [i % natoms], True
    return [int(j) for j in np.arange(natoms)[index]], False


class MAtoms:
    def __init__(self, natoms, keys, dtypes, shapes, rows):
        self.natoms = int(natoms)
        self.keys = list(keys)
        self.dtypes = dict(dtypes)
        self.shapes = dict(shapes)
        self.rows = rows

    # ---- construction ------------------------------------------------------
    @classmethod
    def build(cls, natoms, atype=None, pos=None, **props):
        m = cls(natoms, [], {}, {}, [dict() for _ in range(natoms)])
        m.set('atype', np.array([1], dtype='int64') if atype is None else atype)
        m.set('pos', np.zeros((1, 3)) if pos is None else pos)
        for k, v in props.items():
            m.set(k, v)
        return m

    # ---- helpers -----------------------------------------------------------
    def _peratom(self, value):
        """Split an assigned value into one value per atom (documented broadcast rule)."""
        v = np.asarray(value)
        n = self.natoms
        if v.ndim == 0:
            return [v] * n, v.dtype, ()
        if v.shape[0] == 1:
            return [v[0]] * n, v.dtype, v.shape[1:]
        if v.shape[0] != n:
            raise Refused('leading-length')
        return [v[i] for i in range(n)], v.dtype, v.shape[1:]

    def _add_key(self, key, dtype, shape, values):
        self.keys.append(key)
        self.dtypes[key] = np.dtype(dtype)
        self.shapes[key] = tuple(shape)
        for r, val in zip(self.rows, values):
            r[key] = _cell(val, dtype, shape)

    def _castable(self, key, per, shape):
        """Can per-atom values of this shape be stored in the existing property?"""
        try:
            np.broadcast_shapes(tuple(shape), self.shapes[key])
        except ValueError:
            return False
        return len(shape) <= len(self.shapes[key]) and np.broadcast_shapes(tuple(shape), self.shapes[key]) == self.shapes[key]

    def column(self, key, rows=None):
        rows = range(self.natoms) if rows is None else rows
        out = np.zeros((len(rows),) + self.shapes[key], dtype=self.dtypes[key])
        for j, i in enumerate(rows):
            out[j] = self.rows[i][key]
        return out

    def natypes(self):
        return int(max(int(r['atype']) for r in self.rows))

    # ---- whole-property assignment (attribute, view[...], prop(key, value=)) ----
    def set(self, key, value):
        per, dtype, shape = self._peratom(value)
        if key == 'atype' and self.natoms > 0 and min(int(np.min(p)) for p in per) < 1:
            raise Refused('atype<1')
        if key in self.keys:
            if not self._castable(key, per, shape):
                raise OutOfDomain(f'per-atom shape {shape} into {self.shapes[key]}')
            for r, val in zip(self.rows, per):
                r[key][...] = val
        else:
            if key == 'pos' and np.dtype(dtype).kind in 'biu':      # documented: pos is a list/ndarray of float
                dtype = np.dtype(float)
            self._add_key(key, dtype, shape, per)

    # ---- reads -------------------------------------------------------------
    def get(self, key, index=None):
        if index is None:
            return self.column(key)
        rows, single = resolve(self.natoms, index)
        if single:
            return np.array(self.rows[rows[0]][key])
        return self.column(key, rows)

    # ---- indexed write of one property ----------------------------------------
    def write(self, key, index, value):
        rows, single = resolve(self.natoms, index)
        v = np.asarray(value)
        shape = self.shapes[key]
        if single:
            vals = [np.broadcast_to(v, shape)]
        else:
            try:
                vals = np.broadcast_to(v, (len(rows),) + shape)
            except ValueError:
                raise OutOfDomain('indexed write of an incompatible shape')
        for j, i in enumerate(rows):
            self.rows[i][key][...] = vals[j]

    # ---- sub-selection --------------------------------------------------------
    def subset(self, index, shared=False):
        """Atoms of the selected rows.  ``shared`` (bool or dict key->bool) says for
        which properties the result is a window onto this object's storage."""
        rows, _ = resolve(self.natoms, index)
        newrows = []
        for i in rows:
            d = {}
            for k in self.keys:
                sh = shared.get(k, False) if isinstance(shared, dict) else shared
                d[k] = self.rows[i][k] if sh else np.array(self.rows[i][k])
            newrows.append(d)
        return MAtoms(len(rows), self.keys, self.dtypes, self.shapes, newrows)

    def copy(self):
        return self.subset(slice(None), shared=False)

    # ---- atoms[index] = other -------------------------------------------------
    def assign(self, index, other):
        if sorted(self.keys) != sorted(other.keys):
            raise Refused('mismatched-properties')
        rows, single = resolve(self.natoms, index)
        if other.natoms != len(rows) and other.natoms != 1:
            raise Refused('leading-length')
        for k in self.keys:
            if other.shapes[k] != self.shapes[k]:
                raise OutOfDomain('same name, different per-atom shape')
        for j, i in enumerate(rows):
            src = other.rows[j if other.natoms == len(rows) else 0]
            for k in self.keys:
                self.rows[i][k][...] = src[k]

    # ---- per-type assignment --------------------------------------------------
    def prop_atype(self, key, value, atype=None):
        if atype is None:
            v = np.asarray(value)
            if len(v) < self.natypes():
                raise Refused('fewer-values-than-natypes')
            per = [v[int(r['atype']) - 1] for r in self.rows]
            if key in self.keys:
                if not self._castable(key, per, v.shape[1:]):
                    raise OutOfDomain('per-type value of an incompatible shape')
                for r, val in zip(self.rows, per):
                    r[key][...] = val
            else:
                self._add_key(key, v.dtype, v.shape[1:], per)
        else:
            if not 1 <= int(atype) <= self.natypes():
                raise Refused('atype-not-found')
            v = np.asarray(value)
            if key not in self.keys:
                self._add_key(key, v.dtype, v.shape, [np.zeros(v.shape, v.dtype)] * self.natoms)
            elif not self._castable(key, None, v.shape):
                raise OutOfDomain('per-type value of an incompatible shape')
            for r in self.rows:
                if int(r['atype']) == int(atype):
                    r[key][...] = v

    # ---- extension ------------------------------------------------------------
    def extend(self, value):
        new = self.copy()
        if isinstance(value, (int, np.integer)):
            extra = MAtoms.build(int(value))
        else:
            extra = value
        for k in extra.keys:
            if k not in new.keys:
                new._add_key(k, extra.dtypes[k], extra.shapes[k],
                             [np.zeros(extra.shapes[k], extra.dtypes[k])] * new.natoms)
            elif extra.shapes[k] != new.shapes[k]:
                raise OutOfDomain('same name, different per-atom shape')
        for r in extra.rows:
            d = {}
            for k in new.keys:
                d[k] = _cell(r[k] if k in r else np.zeros(new.shapes[k], new.dtypes[k]), new.dtypes[k], new.shapes[k])
            new.rows.append(d)
        new.natoms += extra.natoms
        return new

    # ---- table ----------------------------------------------------------------
    def table(self):
        """Ordered {column name -> list of per-atom scalars}: multi-dimensional
        properties are spread over columns named key[i][j]..."""
        out = {}
        for k in self.keys:
            col = self.column(k)
            if self.shapes[k] == ():
                out[k] = col
            else:
                for idx in np.ndindex(*self.shapes[k]):
                    out[k + ''.join(f'[{i}]' for i in idx)] = col[(Ellipsis,) + idx]
        return out


class MSystem:
    def __init__(self, atoms, vects, origin, pbc=(True, True, True), symbols=None, masses=None, scale=False):
        self.atoms = atoms
        self.vects = np.array(vects, float)
        self.origin = np.array(origin, float)
        self.pbc = tuple(bool(x) for x in pbc)
        if masses is None:
            masses = []
        masses = _aslist(masses)
        if symbols is None:
            symbols = [None] * len(masses)
        self._symbols = tuple(_aslist(symbols))
        self._masses = ()
        self.set_masses(masses)
        if scale:
            self.atoms.set('pos', G.cart(self.atoms.column('pos'), self.vects, self.origin))

    # symbols / masses: padded with None when read (and the padding stays)
    def symbols(self):
        n = self.atoms.natypes()
        if len(self._symbols) < n:
            self._symbols = self._symbols + (None,) * (n - len(self._symbols))
        return self._symbols

    def set_symbols(self, value):
        self._symbols = tuple(_aslist(value))
        self.symbols()

    def natypes(self):
        return max(len(self.symbols()), self.atoms.natypes())

    def masses(self):
        n = self.natypes()
        if len(self._masses) < n:
            self._masses = self._masses + (None,) * (n - len(self._masses))
        return self._masses

    def set_masses(self, value):
        value = [None if v is None else float(v) for v in _aslist(value)]
        if len(value) > self.natypes():
            raise Refused('more-masses-than-natypes')
        self._masses = tuple(value)
        self.masses()

    def set_pbc(self, value):
        v = np.asarray(value, dtype=bool)
        if v.shape != (3,):
            raise Refused('pbc-shape')
        self.pbc = tuple(bool(x) for x in v)

    # scaled access
    def rel(self, cart):
        return G.rel(cart, self.vects, self.origin)

    def cart(self, rel):
        return G.cart(rel, self.vects, self.origin)

    def subsystem(self, index, shared=False):
        return MSystem(self.atoms.subset(index, shared), self.vects, self.origin, self.pbc, symbols=self.symbols())

    def atoms_extend(self, value, scale=False, symbols=None):
        if scale and isinstance(value, (int, np.integer)):
            raise Refused('scale-with-int')
        if scale:
            value = value.copy()
            value.set('pos', self.cart(value.column('pos')))
        new = self.atoms.extend(value)
        return MSystem(new, self.vects, self.origin, self.pbc, symbols=self.symbols() if symbols is None else symbols)

    def copy(self):
        s = MSystem(self.atoms.copy(), self.vects, self.origin, self.pbc)
        s._symbols, s._masses = self._symbols, self._masses
        return s


def _aslist(v):
    if isinstance(v, str) or not hasattr(v, '__iter__'):
        return [v]
    return list(v)
