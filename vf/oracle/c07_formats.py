"""Independent readers for the text formats atomman writes (numpy only, never
imports atomman).  Written from the format manuals:

* LAMMPS ``read_data`` manual page  -> :func:`parse_lammps_data`
* LAMMPS ``dump`` manual page (text ``custom``/``atom`` layout, "ITEM:" blocks,
  triclinic bounding box)            -> :func:`parse_lammps_dump`
* VASP wiki page "POSCAR"             -> :func:`parse_poscar`
* plain whitespace tables             -> :func:`parse_table`

Every number is returned together with the size of one unit in its last
printed place (``ulp``; 0 for integer tokens), so that a monitor can compare
"to the printed precision" without knowing how the file was produced.
A file that breaks a rule of its format raises :class:`FormatError` whose
``code`` names the rule.

API summary (all pure functions of the text)::

    d = parse_lammps_data(text)              # DataFile
    d.natoms, d.natypes, d.atom_style, d.has_tilt, d.lohi (3,2), d.tilt (3,), d.vects(), d.origin()
    t = d.atoms_table(style=None, layout=0)  # AtomTable: t.col('x'), t.ulp('x'), t.ids, t.types, t.xyz, t.image (or None)
    t.unwrapped()                            # x + ix*a + iy*b + iz*c
    v = d.velocities_table(style=None)       # AtomTable or None
    s = parse_lammps_dump(text)[0]           # DumpSnapshot
    s.natoms, s.boundary, s.triclinic, s.bounds, s.tilt, s.lohi, s.vects(), s.origin(), s.columns, s.col('xs')
    p = parse_poscar(text)                   # Poscar
    p.scale, p.factor, p.lattice (scaled), p.symbols, p.counts, p.cartesian, p.coords, p.cart(), p.types()
"""
from __future__ import annotations

import re

import numpy as np


class FormatError(Exception):
    def __init__(self, code, msg=''):
        super().__init__(f'{code}: {msg}' if msg else code)
        self.code = code


# ---------------------------------------------------------------------------------------
# numbers
# ---------------------------------------------------------------------------------------
_INT = re.compile(r'^[+-]?\d+$')
_FLT = re.compile(r'^[+-]?(\d+)(?:\.(\d*))?(?:[eE]([+-]?\d+))?$|^[+-]?\.(\d+)(?:[eE]([+-]?\d+))?$')


def parse_number(tok):
    """-> (value, ulp, is_int).  ``ulp`` = one unit in the last printed place."""
    if _INT.match(tok):
        return float(int(tok)), 0.0, True
    m = _FLT.match(tok)
    if not m:
        raise FormatError('number', f'not a number: {tok!r}')
    if m.group(4) is not None:
        dec, ex = len(m.group(4)), int(m.group(5) or 0)
    else:
        dec, ex = len(m.group(2) or ''), int(m.group(3) or 0)
    return float(tok), 10.0 ** (ex - dec), False


def _numbers(tokens, what):
    vals, ulps, ints = [], [], []
    for t in tokens:
        try:
            v, u, i = parse_number(t)
        except FormatError as e:
            raise FormatError('number', f'{what}: {e}') from None
        vals.append(v)
        ulps.append(u)
        ints.append(i)
    return vals, ulps, ints


def token_shape(tok):
    """('i',0) for integer tokens, ('f',ndecimals) for fixed, ('e',ndecimals) for exponent notation."""
    if _INT.match(tok):
        return ('i', 0)
    m = re.match(r'^[+-]?\d+\.(\d*)$', tok)
    if m:
        return ('f', len(m.group(1)))
    m = re.match(r'^[+-]?\d\.(\d*)[eE][+-]\d{2,3}$', tok)
    if m:
        return ('e', len(m.group(1)))
    m = re.match(r'^[+-]?\d[eE][+-]\d{2,3}$', tok)
    if m:
        return ('e', 0)
    return ('?', 0)


def format_shape(float_format):
    """('f', p) / ('e', p) of a C format such as '%.13f' or '%.5e'."""
    m = re.match(r'^%(?:\d*)\.(\d+)([feE])$', float_format)
    if not m:
        raise ValueError(float_format)
    return (m.group(2).lower(), int(m.group(1)))


# ---------------------------------------------------------------------------------------
# LAMMPS data files
# ---------------------------------------------------------------------------------------
# Atoms-section layouts, LAMMPS manual "read_data", table "atom style -> line syntax".
# Where the published layout changed between manual editions both are listed
# (index 0 = current manual, 1 = editions before the 2020 atom-style refactoring).
ATOM_STYLE_LAYOUTS = {
    'angle': [['id', 'mol', 'type', 'x', 'y', 'z']],
    'atomic': [['id', 'type', 'x', 'y', 'z']],
    'body': [['id', 'type', 'bodyflag', 'mass', 'x', 'y', 'z']],
    'bond': [['id', 'mol', 'type', 'x', 'y', 'z']],
    'charge': [['id', 'type', 'q', 'x', 'y', 'z']],
    'dipole': [['id', 'type', 'q', 'x', 'y', 'z', 'mux', 'muy', 'muz']],
    'dpd': [['id', 'type', 'theta', 'x', 'y', 'z']],
    'electron': [['id', 'type', 'q', 'espin', 'eradius', 'x', 'y', 'z']],
    'ellipsoid': [['id', 'type', 'ellipsoidflag', 'density', 'x', 'y', 'z']],
    'full': [['id', 'mol', 'type', 'q', 'x', 'y', 'z']],
    'line': [['id', 'mol', 'type', 'lineflag', 'density', 'x', 'y', 'z']],
    'meso': [['id', 'type', 'rho', 'esph', 'cv', 'x', 'y', 'z']],        # called 'sph' in current editions
    'sph': [['id', 'type', 'rho', 'esph', 'cv', 'x', 'y', 'z']],
    'molecular': [['id', 'mol', 'type', 'x', 'y', 'z']],
    'peri': [['id', 'type', 'volume', 'density', 'x', 'y', 'z']],
    'smd': [['id', 'type', 'mol', 'volume', 'mass', 'kradius', 'cradius', 'x0', 'y0', 'z0', 'x', 'y', 'z'],
            ['id', 'type', 'mol', 'volume', 'mass', 'kradius', 'cradius', 'x', 'y', 'z']],
    'sphere': [['id', 'type', 'diameter', 'density', 'x', 'y', 'z']],
    'spin': [['id', 'type', 'x', 'y', 'z', 'spx', 'spy', 'spz', 'sp']],
    'template': [['id', 'type', 'mol', 'template_index', 'template_atom', 'x', 'y', 'z'],
                 ['id', 'mol', 'template_index', 'template_atom', 'type', 'x', 'y', 'z']],
    'tri': [['id', 'mol', 'type', 'triangleflag', 'density', 'x', 'y', 'z']],
    'wavepacket': [['id', 'type', 'q', 'espin', 'eradius', 'etag', 'cs_re', 'cs_im', 'x', 'y', 'z']],
}
# Velocities-section layouts ("all styles except those listed": id vx vy vz)
VELOCITY_EXTRA = {
    'electron': ['ervel'],
    'ellipsoid': ['lx', 'ly', 'lz'],
    'sphere': ['wx', 'wy', 'wz'],
}
INT_COLUMNS = {'id', 'mol', 'type', 'bodyflag', 'ellipsoidflag', 'lineflag', 'triangleflag', 'espin', 'etag',
               'template_index', 'template_atom'}
# physical quantity of each column (None: the manual gives no unit / a pure number)
COLUMN_QUANTITY = {
    'x': 'length', 'y': 'length', 'z': 'length', 'x0': 'length', 'y0': 'length', 'z0': 'length',
    'q': 'charge', 'mux': 'dipole', 'muy': 'dipole', 'muz': 'dipole', 'mass': 'mass', 'density': 'density',
    'volume': 'volume', 'diameter': 'length', 'eradius': 'length', 'kradius': 'length', 'cradius': 'length',
    'vx': 'velocity', 'vy': 'velocity', 'vz': 'velocity', 'ervel': 'velocity',
    'lx': 'ang-mom', 'ly': 'ang-mom', 'lz': 'ang-mom', 'wx': 'ang-vel', 'wy': 'ang-vel', 'wz': 'ang-vel',
    'rho': None, 'esph': None, 'cv': None, 'cs_re': None, 'cs_im': None, 'theta': None,
}


def atom_style_layouts(style):
    """Candidate column lists of the Atoms section for ``style`` (incl. 'hybrid a b ...')."""
    words = style.split()
    if not words:
        raise FormatError('atom_style', 'empty')
    if words[0] != 'hybrid':
        if len(words) != 1 or words[0] not in ATOM_STYLE_LAYOUTS:
            raise FormatError('atom_style', f'unknown atom style {style!r}')
        return [list(c) for c in ATOM_STYLE_LAYOUTS[words[0]]]
    if len(words) < 2:
        raise FormatError('atom_style', 'hybrid needs sub-styles')
    # "hybrid: atom-ID atom-type x y z sub-style1 sub-style2 ..." -- each sub-style adds, in its own
    # order, the fields that are not among the first five and were not added by an earlier sub-style
    cols = ['id', 'type', 'x', 'y', 'z']
    for sub in words[1:]:
        if sub not in ATOM_STYLE_LAYOUTS:
            raise FormatError('atom_style', f'unknown sub-style {sub!r}')
        for c in ATOM_STYLE_LAYOUTS[sub][0]:
            if c not in cols:
                cols.append(c)
    return [cols]


def velocity_layout(style):
    words = style.split()
    subs = words[1:] if words and words[0] == 'hybrid' else words
    cols = ['id', 'vx', 'vy', 'vz']
    for sub in subs:
        for c in VELOCITY_EXTRA.get(sub, []):
            if c not in cols:
                cols.append(c)
    return cols


_HEADER_COUNTS = ['atoms', 'bonds', 'angles', 'dihedrals', 'impropers', 'atom types', 'bond types', 'angle types',
                  'dihedral types', 'improper types', 'extra bond per atom', 'extra angle per atom',
                  'extra dihedral per atom', 'extra improper per atom', 'extra special per atom', 'ellipsoids',
                  'lines', 'triangles', 'bodies']
_SECTIONS = {'Atoms', 'Velocities', 'Masses', 'Ellipsoids', 'Lines', 'Triangles', 'Bodies', 'Bonds', 'Angles',
             'Dihedrals', 'Impropers', 'Pair Coeffs', 'PairIJ Coeffs', 'Bond Coeffs', 'Angle Coeffs',
             'Dihedral Coeffs', 'Improper Coeffs', 'Atom Type Labels'}


class AtomTable:
    """One per-atom section decoded with a column layout."""

    def __init__(self, columns, rows, image_tokens):
        self.columns = list(columns)
        n = len(rows)
        self.natoms = n
        self.tokens = rows                                   # list of list of str (layout columns only)
        self.values = np.zeros((n, len(columns)))
        self.ulps = np.zeros((n, len(columns)))
        self.isint = np.zeros((n, len(columns)), bool)
        for r, row in enumerate(rows):
            v, u, i = _numbers(row, f'row {r + 1}')
            self.values[r], self.ulps[r], self.isint[r] = v, u, i
        self.image = None
        if image_tokens is not None:
            img = np.zeros((n, 3), int)
            for r, row in enumerate(image_tokens):
                for k, t in enumerate(row):
                    if not _INT.match(t):
                        raise FormatError('image-flag', f'row {r + 1}: image flag {t!r} is not an integer')
                    img[r, k] = int(t)
            self.image = img
        for c in self.columns:
            if c in INT_COLUMNS:
                j = self.columns.index(c)
                if not self.isint[:, j].all():
                    raise FormatError('integer-column', f'column {c} holds a non-integer token')
        self.box = None

    def has(self, name):
        return name in self.columns

    def col(self, name):
        return self.values[:, self.columns.index(name)]

    def ulp(self, name):
        return self.ulps[:, self.columns.index(name)]

    def cols(self, names):
        return np.stack([self.col(n) for n in names], axis=1)

    def colulps(self, names):
        return np.stack([self.ulp(n) for n in names], axis=1)

    @property
    def ids(self):
        return self.col('id').astype(int)

    @property
    def types(self):
        return self.col('type').astype(int)

    @property
    def xyz(self):
        return self.cols(['x', 'y', 'z'])

    def unwrapped(self, vects):
        """LAMMPS unmap: x + ix*a + iy*b + iz*c with the box vectors of the file."""
        xyz = self.xyz
        if self.image is None:
            return xyz
        return xyz + self.image @ np.asarray(vects, float)


class DataFile:
    def __init__(self):
        self.title = ''
        self.header = {}            # keyword -> int
        self.lohi = np.full((3, 2), np.nan)
        self.lohi_ulp = np.zeros((3, 2))
        self.tilt = np.zeros(3)     # xy xz yz
        self.tilt_ulp = np.zeros(3)
        self.has_tilt = False
        self.sections = {}          # name -> (comment, [token rows])
        self.section_order = []
        self.float_tokens = []      # every non-integer header token (for format checks)

    natoms = property(lambda self: self.header.get('atoms'))
    natypes = property(lambda self: self.header.get('atom types'))

    @property
    def atom_style(self):
        """Style named in the 'Atoms # style' comment (None if absent)."""
        c = self.sections.get('Atoms', (None, None))[0]
        return c if c else None

    def vects(self):
        lx, ly, lz = self.lohi[:, 1] - self.lohi[:, 0]
        xy, xz, yz = self.tilt
        return np.array([[lx, 0, 0], [xy, ly, 0], [xz, yz, lz]], float)

    def vects_ulp(self):
        """Resolution of each entry of vects() (sum of the ulps of the tokens it is built from)."""
        l = self.lohi_ulp.sum(axis=1)
        t = self.tilt_ulp
        return np.array([[l[0], 0, 0], [t[0], l[1], 0], [t[1], t[2], l[2]]], float)

    def origin(self):
        return self.lohi[:, 0].copy()

    def _table(self, section, layouts, layout, allow_image):
        comment, rows = self.sections[section]
        cols = layouts[layout]
        n = len(cols)
        if not rows:
            return AtomTable(cols, [], None)
        width = len(rows[0])
        if width == n:
            img = None
        elif allow_image and width == n + 3:
            img = [r[n:] for r in rows]
        else:
            raise FormatError('columns', f'{section}: {width} fields per line, layout {cols} needs {n}'
                              + (' or %d' % (n + 3) if allow_image else ''))
        for k, r in enumerate(rows):
            if len(r) != width:
                raise FormatError('columns', f'{section}: line {k + 1} has {len(r)} fields, first line has {width}')
        return AtomTable(cols, [r[:n] for r in rows], img)

    def atoms_table(self, style=None, layout=0):
        style = style or self.atom_style
        if style is None:
            raise FormatError('atom_style', 'no atom style given and none in the Atoms comment')
        if 'Atoms' not in self.sections:
            raise FormatError('section', 'no Atoms section')
        t = self._table('Atoms', atom_style_layouts(style), layout, True)
        if self.natoms is not None and t.natoms != self.natoms:
            raise FormatError('count', f'header says {self.natoms} atoms, Atoms section has {t.natoms} lines')
        return t

    def velocities_table(self, style=None):
        if 'Velocities' not in self.sections:
            return None
        style = style or self.atom_style or 'atomic'
        t = self._table('Velocities', [velocity_layout(style)], 0, False)
        if self.natoms is not None and t.natoms != self.natoms:
            raise FormatError('count', f'header says {self.natoms} atoms, Velocities section has {t.natoms} lines')
        return t


def parse_lammps_data(text):
    """Parse a LAMMPS data file (header + sections).  Per-atom tables are decoded
    on request with :meth:`DataFile.atoms_table` / :meth:`DataFile.velocities_table`."""
    if isinstance(text, bytes):
        text = text.decode()
    lines = text.split('\n')
    d = DataFile()
    if not lines:
        raise FormatError('empty')
    d.title = lines[0]                       # "the first line of the file is skipped"
    i = 1
    nl = len(lines)

    def strip(s):
        return s.split('#', 1)[0].strip()

    def section_name(s):
        body = strip(s)
        return body if body in _SECTIONS else None

    # --- header ------------------------------------------------------------------
    while i < nl:
        raw = lines[i]
        body = strip(raw)
        if not body:
            i += 1
            continue
        if section_name(raw):
            break
        toks = body.split()
        matched = False
        for kw in ('xlo xhi', 'ylo yhi', 'zlo zhi'):
            if body.endswith(kw):
                if len(toks) != 4:
                    raise FormatError('header', f'bad box line {raw!r}')
                v, u, isint = _numbers(toks[:2], kw)
                ax = 'xyz'.index(kw[0])
                if not np.isnan(d.lohi[ax, 0]):
                    raise FormatError('header', f'duplicate {kw}')
                d.lohi[ax], d.lohi_ulp[ax] = v, u
                d.float_tokens += [t for t, ii in zip(toks[:2], isint) if not ii]
                matched = True
        if not matched and body.endswith('xy xz yz'):
            if len(toks) != 6:
                raise FormatError('header', f'bad tilt line {raw!r}')
            if d.has_tilt:
                raise FormatError('header', 'duplicate tilt line')
            v, u, isint = _numbers(toks[:3], 'xy xz yz')
            d.tilt[:], d.tilt_ulp[:] = v, u
            d.float_tokens += [t for t, ii in zip(toks[:3], isint) if not ii]
            d.has_tilt = True
            matched = True
        if not matched:
            for kw in _HEADER_COUNTS:
                k = kw.split()
                if toks[1:] == k:
                    if not _INT.match(toks[0]):
                        raise FormatError('header', f'count is not an integer: {raw!r}')
                    if kw in d.header:
                        raise FormatError('header', f'duplicate {kw}')
                    d.header[kw] = int(toks[0])
                    matched = True
                    break
        if not matched:
            raise FormatError('header', f'unrecognised header line {raw!r}')
        i += 1
    if 'atoms' not in d.header:
        raise FormatError('header', 'no "atoms" line')
    if np.isnan(d.lohi).any():
        raise FormatError('header', 'box bounds missing')
    # --- sections ----------------------------------------------------------------
    while i < nl:
        raw = lines[i]
        name = section_name(raw)
        if name is None:
            if strip(raw):
                raise FormatError('section', f'expected a section keyword, found {raw!r}')
            i += 1
            continue
        comment = raw.split('#', 1)[1].strip() if '#' in raw else ''
        i += 1
        if i >= nl or lines[i].strip():
            raise FormatError('section', f'section {name}: keyword line must be followed by a blank line')
        i += 1
        rows = []
        while i < nl and lines[i].strip():
            rows.append(strip(lines[i]).split())
            i += 1
        if name in d.sections:
            raise FormatError('section', f'duplicate section {name}')
        d.sections[name] = (comment, rows)
        d.section_order.append(name)
    return d


# ---------------------------------------------------------------------------------------
# LAMMPS text dump files
# ---------------------------------------------------------------------------------------
# dump custom attributes with units (LAMMPS manual "dump": "... in the units of the unit style")
DUMP_ATTR_QUANTITY = {
    'mass': 'mass', 'x': 'length', 'y': 'length', 'z': 'length', 'xu': 'length', 'yu': 'length', 'zu': 'length',
    'vx': 'velocity', 'vy': 'velocity', 'vz': 'velocity', 'fx': 'force', 'fy': 'force', 'fz': 'force',
    'q': 'charge', 'mux': 'dipole', 'muy': 'dipole', 'muz': 'dipole', 'mu': 'dipole', 'radius': 'length',
    'diameter': 'length', 'omegax': 'ang-vel', 'omegay': 'ang-vel', 'omegaz': 'ang-vel',
    'angmomx': 'ang-mom', 'angmomy': 'ang-mom', 'angmomz': 'ang-mom', 'tqx': 'torque', 'tqy': 'torque', 'tqz': 'torque',
}
DUMP_INT_ATTRS = {'id', 'mol', 'proc', 'procp1', 'type', 'ix', 'iy', 'iz'}
_BFLAGS = set('pfsm')


class DumpSnapshot:
    def __init__(self):
        self.timestep = None
        self.natoms = None
        self.triclinic = False
        self.boundary = None         # ['pp','pp','fm']
        self.bounds = None           # (3,2) as printed: the BOUNDING box for triclinic
        self.bounds_ulp = None
        self.tilt = np.zeros(3)      # xy xz yz
        self.tilt_ulp = np.zeros(3)
        self.columns = []
        self.tokens = []
        self.values = None
        self.ulps = None
        self.isint = None
        self.box_tokens = []

    @property
    def periodic(self):
        return [b == 'pp' for b in self.boundary]

    @property
    def lohi(self):
        """xlo..zhi of the simulation box recovered from the printed bounding box:
        xlo_bound = xlo + min(0,xy,xz,xy+xz), xhi_bound = xhi + max(0,xy,xz,xy+xz),
        ylo_bound = ylo + min(0,yz), yhi_bound = yhi + max(0,yz)."""
        xy, xz, yz = self.tilt
        b = self.bounds
        out = b.copy()
        out[0, 0] = b[0, 0] - min(0.0, xy, xz, xy + xz)
        out[0, 1] = b[0, 1] - max(0.0, xy, xz, xy + xz)
        out[1, 0] = b[1, 0] - min(0.0, yz)
        out[1, 1] = b[1, 1] - max(0.0, yz)
        return out

    @property
    def lohi_ulp(self):
        t = self.tilt_ulp
        u = self.bounds_ulp.copy()
        u[0] += t[0] + t[1]
        u[1] += t[2]
        return u

    def vects(self):
        lh = self.lohi
        lx, ly, lz = lh[:, 1] - lh[:, 0]
        xy, xz, yz = self.tilt
        return np.array([[lx, 0, 0], [xy, ly, 0], [xz, yz, lz]], float)

    def vects_ulp(self):
        l = self.lohi_ulp.sum(axis=1)
        t = self.tilt_ulp
        return np.array([[l[0], 0, 0], [t[0], l[1], 0], [t[1], t[2], l[2]]], float)

    def origin(self):
        return self.lohi[:, 0].copy()

    def has(self, name):
        return name in self.columns

    def col(self, name):
        return self.values[:, self.columns.index(name)]

    def ulp(self, name):
        return self.ulps[:, self.columns.index(name)]

    def cols(self, names):
        return np.stack([self.col(n) for n in names], axis=1)

    def colulps(self, names):
        return np.stack([self.ulp(n) for n in names], axis=1)


def parse_lammps_dump(text):
    """Parse a LAMMPS text dump (one or more snapshots) -> list of DumpSnapshot."""
    if isinstance(text, bytes):
        text = text.decode()
    lines = text.split('\n')
    while lines and not lines[-1].strip():
        lines.pop()
    snaps = []
    i = 0
    nl = len(lines)

    def need(prefix):
        nonlocal i
        if i >= nl or not lines[i].startswith(prefix):
            raise FormatError('item', f'expected {prefix!r} at line {i + 1}, found {lines[i] if i < nl else "EOF"!r}')
        rest = lines[i][len(prefix):]
        i += 1
        return rest

    def need_line(what):
        nonlocal i
        if i >= nl or lines[i].startswith('ITEM:'):
            raise FormatError('item', f'missing {what} at line {i + 1}')
        s = lines[i]
        i += 1
        return s

    while i < nl:
        s = DumpSnapshot()
        need('ITEM: TIMESTEP')
        t = need_line('timestep').split()
        if len(t) != 1 or not _INT.match(t[0]):
            raise FormatError('timestep', f'{t!r}')
        s.timestep = int(t[0])
        need('ITEM: NUMBER OF ATOMS')
        t = need_line('number of atoms').split()
        if len(t) != 1 or not _INT.match(t[0]) or int(t[0]) < 0:
            raise FormatError('natoms', f'{t!r}')
        s.natoms = int(t[0])
        rest = need('ITEM: BOX BOUNDS').split()
        if rest[:3] == ['xy', 'xz', 'yz']:
            s.triclinic = True
            rest = rest[3:]
        if len(rest) != 3:
            raise FormatError('boundary', f'need three boundary flags, found {rest!r}')
        for b in rest:
            if len(b) != 2 or not set(b) <= _BFLAGS or (('p' in b) and b != 'pp'):
                raise FormatError('boundary', f'bad boundary flag {b!r}')
        s.boundary = rest
        s.bounds = np.zeros((3, 2))
        s.bounds_ulp = np.zeros((3, 2))
        for ax in range(3):
            toks = need_line('box bounds').split()
            if len(toks) != (3 if s.triclinic else 2):
                raise FormatError('bounds', f'box line {ax + 1} has {len(toks)} fields')
            v, u, isint = _numbers(toks, 'box bounds')
            s.bounds[ax], s.bounds_ulp[ax] = v[:2], u[:2]
            if s.triclinic:                     # lines carry xy, xz, yz in this order
                s.tilt[ax], s.tilt_ulp[ax] = v[2], u[2]
            s.box_tokens += [t_ for t_, ii in zip(toks, isint) if not ii]
        s.columns = need('ITEM: ATOMS').split()
        if len(set(s.columns)) != len(s.columns):
            raise FormatError('columns', 'duplicate column name')
        rows = []
        for _ in range(s.natoms):
            if i >= nl or lines[i].startswith('ITEM:'):
                raise FormatError('count', f'{len(rows)} atom lines, header says {s.natoms}')
            r = lines[i].split()
            if len(r) != len(s.columns):
                raise FormatError('columns', f'atom line {len(rows) + 1} has {len(r)} fields for {len(s.columns)} columns')
            rows.append(r)
            i += 1
        if i < nl and not lines[i].startswith('ITEM: TIMESTEP'):
            raise FormatError('count', f'more atom lines than the {s.natoms} announced')
        n, m = len(rows), len(s.columns)
        s.tokens = rows
        s.values, s.ulps, s.isint = np.zeros((n, m)), np.zeros((n, m)), np.zeros((n, m), bool)
        for r, row in enumerate(rows):
            v, u, ii = _numbers(row, f'atom line {r + 1}')
            s.values[r], s.ulps[r], s.isint[r] = v, u, ii
        for c in s.columns:
            if c in DUMP_INT_ATTRS and n and not s.isint[:, s.columns.index(c)].all():
                raise FormatError('integer-column', f'column {c} holds a non-integer token')
        snaps.append(s)
    if not snaps:
        raise FormatError('empty')
    return snaps


# ---------------------------------------------------------------------------------------
# POSCAR
# ---------------------------------------------------------------------------------------
class Poscar:
    def __init__(self):
        self.comment = ''
        self.scale = None            # as printed (scalar; negative = cell volume)
        self.scale_ulp = 0.0
        self.factor = None           # the multiplier that applies to lattice and Cartesian coordinates
        self.lattice_raw = None
        self.lattice_ulp = None
        self.symbols = None
        self.counts = None
        self.selective = False
        self.mode_line = ''
        self.cartesian = False
        self.coords = None           # as printed
        self.coords_ulp = None
        self.flags = None
        self.float_tokens = []
        self.trailing = []

    @property
    def natoms(self):
        return int(sum(self.counts))

    @property
    def lattice(self):
        return self.lattice_raw * self.factor

    def cart(self):
        """Cartesian positions under VASP's rules: direct -> coords . lattice (scaled);
        Cartesian -> coords * scale factor."""
        if self.cartesian:
            return self.coords * self.factor
        return self.coords @ self.lattice

    def types(self):
        return np.repeat(np.arange(1, len(self.counts) + 1), self.counts)


def parse_poscar(text):
    if isinstance(text, bytes):
        text = text.decode()
    lines = text.split('\n')
    p = Poscar()
    if len(lines) < 7:
        raise FormatError('short', 'fewer than 7 lines')
    p.comment = lines[0]
    t = lines[1].split()
    if len(t) not in (1, 3):
        raise FormatError('scale', f'scale line {lines[1]!r}')
    v, u, isint = _numbers(t, 'scale')
    p.float_tokens += [x for x, ii in zip(t, isint) if not ii]
    if len(t) == 3:
        raise FormatError('scale', 'three scaling factors are not handled by this reader')
    p.scale, p.scale_ulp = v[0], u[0]
    if p.scale == 0:
        raise FormatError('scale', 'zero scale')
    raw, rulp = np.zeros((3, 3)), np.zeros((3, 3))
    for k in range(3):
        t = lines[2 + k].split()
        if len(t) < 3:
            raise FormatError('lattice', f'lattice line {lines[2 + k]!r}')
        v, u, isint = _numbers(t[:3], 'lattice')
        raw[k], rulp[k] = v, u
        p.float_tokens += [x for x, ii in zip(t[:3], isint) if not ii]
    p.lattice_raw, p.lattice_ulp = raw, rulp
    det = float(np.linalg.det(raw))
    if det == 0:
        raise FormatError('lattice', 'singular lattice')
    p.factor = p.scale if p.scale > 0 else (abs(p.scale) / abs(det)) ** (1.0 / 3.0)
    i = 5
    t = lines[i].split()
    if not t:
        raise FormatError('counts', 'blank line where symbols/counts are expected')
    if not all(_INT.match(x) for x in t):
        if any(_INT.match(x) for x in t):
            raise FormatError('symbols', f'mixed symbols/numbers {lines[i]!r}')
        p.symbols = t
        i += 1
        t = lines[i].split() if i < len(lines) else []
    if not t or not all(_INT.match(x) for x in t):
        raise FormatError('counts', f'ions-per-species line {lines[i] if i < len(lines) else "EOF"!r}')
    p.counts = [int(x) for x in t]
    if any(c < 0 for c in p.counts):
        raise FormatError('counts', 'negative count')
    if p.symbols is not None and len(p.symbols) != len(p.counts):
        raise FormatError('counts-vs-symbols', f'{len(p.symbols)} species names but {len(p.counts)} counts')
    i += 1
    if i >= len(lines):
        raise FormatError('mode', 'no coordinate-mode line')
    if lines[i].strip()[:1] in ('S', 's'):
        p.selective = True
        i += 1
        if i >= len(lines):
            raise FormatError('mode', 'no coordinate-mode line')
    p.mode_line = lines[i]
    first = lines[i].strip()[:1]
    if not first:
        raise FormatError('mode', 'blank coordinate-mode line')
    p.cartesian = first in 'CcKk'
    i += 1
    n = p.natoms
    coords, culp = np.zeros((n, 3)), np.zeros((n, 3))
    flags = []
    for k in range(n):
        if i + k >= len(lines):
            raise FormatError('count', f'{k} coordinate lines for {n} ions')
        t = lines[i + k].split()
        if len(t) < 3:
            raise FormatError('count', f'coordinate line {k + 1}: {lines[i + k]!r}')
        v, u, isint = _numbers(t[:3], f'coordinate line {k + 1}')
        coords[k], culp[k] = v, u
        p.float_tokens += [x for x, ii in zip(t[:3], isint) if not ii]
        if p.selective:
            if len(t) < 6 or not all(x in ('T', 'F') for x in t[3:6]):
                raise FormatError('selective', f'coordinate line {k + 1} lacks T/F flags')
            flags.append(t[3:6])
    p.coords, p.coords_ulp, p.flags = coords, culp, flags or None
    p.trailing = [s for s in lines[i + n:] if s.strip()]
    return p


# ---------------------------------------------------------------------------------------
# whitespace tables
# ---------------------------------------------------------------------------------------
class Table:
    def __init__(self, names, tokens):
        self.names = names
        self.tokens = tokens
        n = len(tokens)
        m = len(tokens[0]) if tokens else (len(names) if names else 0)
        self.values, self.ulps, self.isint = np.zeros((n, m)), np.zeros((n, m)), np.zeros((n, m), bool)
        for r, row in enumerate(tokens):
            if len(row) != m:
                raise FormatError('columns', f'row {r + 1} has {len(row)} fields, first row has {m}')
            v, u, ii = _numbers(row, f'row {r + 1}')
            self.values[r], self.ulps[r], self.isint[r] = v, u, ii
        if names is not None and tokens and len(names) != m:
            raise FormatError('columns', f'{len(names)} column names for {m} columns')

    def col(self, name):
        return self.values[:, self.names.index(name)]

    def ulp(self, name):
        return self.ulps[:, self.names.index(name)]


def parse_table(text, header=False):
    if isinstance(text, bytes):
        text = text.decode()
    lines = [s for s in text.split('\n')]
    while lines and not lines[-1].strip():
        lines.pop()
    names = None
    if header:
        if not lines:
            raise FormatError('empty')
        names = lines[0].split()
        lines = lines[1:]
    for s in lines:
        if not s.strip():
            raise FormatError('blank', 'blank line inside the table')
    return Table(names, [s.split() for s in lines])
