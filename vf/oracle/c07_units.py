"""Independent unit table for LAMMPS unit styles (numpy-free, never imports atomman).

Everything here is hand-entered from two published sources:

* the LAMMPS manual, page ``units`` -- for each of the eight unit styles the
  unit of mass, distance, time, energy, velocity, force, torque, charge,
  dipole moment and density, written down below as the SI value of ONE such
  unit;
* CODATA-2022 / SI-2019 values of the constants needed to do so.

``factor(style, quantity)`` is the number a value held in atomman's documented
default *working units* (length angstrom, mass amu, energy eV, charge e -- time
is derived: angstrom*sqrt(amu/eV)) has to be multiplied with to obtain the
number LAMMPS expects for that quantity in that unit style.  ``lj`` is
dimensionless: numbers are written as they are (factor 1).

Comparisons against numbers produced with another CODATA edition should allow
``SLACK`` relative difference (amu changed by 1.4e-9 between CODATA 2018 and
2022, the Bohr radius by 7e-10).
"""
from __future__ import annotations

import math

SLACK = 3e-9

# ---- constants (SI; exact ones are marked) ---------------------------------------
C_LIGHT = 299792458.0               # m/s, exact
E_CHARGE = 1.602176634e-19          # C, exact
N_AVOGADRO = 6.02214076e23          # 1/mol, exact
AMU = 1.66053906892e-27             # kg, CODATA 2022
BOHR = 5.29177210544e-11            # m, CODATA 2022
HARTREE = 4.3597447222060e-18       # J, CODATA 2022
CALORIE = 4.184                     # J, thermochemical calorie, exact
ANGSTROM = 1e-10
EV = E_CHARGE                       # J
GRAM_PER_MOL = 1e-3 / N_AVOGADRO    # kg
KCAL_PER_MOL = 1e3 * CALORIE / N_AVOGADRO   # J
STATCOULOMB = 1.0 / (10.0 * C_LIGHT)        # C   (1 C = 10*c statC, c in m/s)
DEBYE = 1e-21 / C_LIGHT                     # C*m (1e-18 statC*cm)
# "velocity = Bohr/atomic time units [1.03275e-15 seconds]" (manual, style electron); the
# bracketed number is what the manual prints (6 figures) = sqrt(amu*Bohr^2/Hartree)
ELECTRON_VELOCITY_TIME = 1.03275e-15        # s

STYLES = ('lj', 'real', 'metal', 'si', 'cgs', 'electron', 'micro', 'nano')

# dimension exponents (length, mass, time, charge)
DIMENSION = {
    'mass': (0, 1, 0, 0), 'length': (1, 0, 0, 0), 'time': (0, 0, 1, 0), 'energy': (2, 1, -2, 0),
    'velocity': (1, 0, -1, 0), 'force': (1, 1, -2, 0), 'torque': (2, 1, -2, 0), 'charge': (0, 0, 0, 1),
    'dipole': (1, 0, 0, 1), 'density': (-3, 1, 0, 0), 'volume': (3, 0, 0, 0),
    'ang-mom': (2, 1, -1, 0), 'ang-vel': (0, 0, -1, 0), 'pressure': (-1, 1, -2, 0),
}

# ---- the manual's tables: SI value of one unit ---------------------------------------
# (value, relative uncertainty of the hand-entered number beyond SLACK)
_T = {
    'real': {
        'mass': GRAM_PER_MOL, 'length': ANGSTROM, 'time': 1e-15, 'energy': KCAL_PER_MOL,
        'velocity': ANGSTROM / 1e-15, 'force': KCAL_PER_MOL / ANGSTROM, 'torque': KCAL_PER_MOL,
        'charge': E_CHARGE, 'dipole': E_CHARGE * ANGSTROM, 'density': 1e-3 / 1e-6,      # gram/cm^3
        'pressure': 101325.0,
    },
    'metal': {
        'mass': GRAM_PER_MOL, 'length': ANGSTROM, 'time': 1e-12, 'energy': EV,
        'velocity': ANGSTROM / 1e-12, 'force': EV / ANGSTROM, 'torque': EV,
        'charge': E_CHARGE, 'dipole': E_CHARGE * ANGSTROM, 'density': 1e-3 / 1e-6,
        'pressure': 1e5,
    },
    'si': {
        'mass': 1.0, 'length': 1.0, 'time': 1.0, 'energy': 1.0, 'velocity': 1.0, 'force': 1.0, 'torque': 1.0,
        'charge': 1.0, 'dipole': 1.0, 'density': 1.0, 'pressure': 1.0,
    },
    'cgs': {
        'mass': 1e-3, 'length': 1e-2, 'time': 1.0, 'energy': 1e-7, 'velocity': 1e-2, 'force': 1e-5, 'torque': 1e-7,
        'charge': STATCOULOMB, 'dipole': STATCOULOMB * 1e-2, 'density': 1e-3 / 1e-6, 'pressure': 0.1,
    },
    'electron': {
        'mass': AMU, 'length': BOHR, 'time': 1e-15, 'energy': HARTREE,
        'velocity': (BOHR / ELECTRON_VELOCITY_TIME, 1e-5), 'force': HARTREE / BOHR,
        'charge': E_CHARGE, 'dipole': DEBYE, 'pressure': 1.0,
        # the manual lists neither torque nor density for this style
    },
    'micro': {
        'mass': 1e-15, 'length': 1e-6, 'time': 1e-6, 'energy': 1e-15 * 1e-12 / 1e-12,
        'velocity': 1.0, 'force': 1e-15 * 1e-6 / 1e-12, 'torque': 1e-15,
        'charge': 1e-12, 'dipole': 1e-12 * 1e-6, 'density': 1e-15 / 1e-18, 'pressure': 1e-15 / (1e-6 * 1e-12),
    },
    'nano': {
        'mass': 1e-21, 'length': 1e-9, 'time': 1e-9, 'energy': 1e-21 * 1e-18 / 1e-18,
        'velocity': 1.0, 'force': 1e-21 * 1e-9 / 1e-18, 'torque': 1e-21,
        'charge': E_CHARGE, 'dipole': E_CHARGE * 1e-9, 'density': 1e-21 / 1e-27, 'pressure': 1e-21 / (1e-9 * 1e-18),
    },
}


class UndefinedUnit(KeyError):
    """The manual does not define this quantity for this unit style."""


def _entry(style, quantity):
    t = _T[style]
    if quantity in t:
        v = t[quantity]
        return v if isinstance(v, tuple) else (v, 0.0)
    # quantities the manual does not tabulate but that follow from the tabulated ones
    if quantity == 'volume':
        v, u = _entry(style, 'length')
        return v ** 3, 3 * u
    if quantity == 'ang-vel':            # radians / time
        v, u = _entry(style, 'time')
        return 1.0 / v, u
    if quantity == 'ang-mom':            # mass * distance * velocity
        m, um = _entry(style, 'mass')
        ln, ul = _entry(style, 'length')
        ve, uv = _entry(style, 'velocity')
        return m * ln * ve, um + ul + uv
    raise UndefinedUnit(f'{quantity} is not defined for units {style}')


def lammps_si(style, quantity):
    """SI value of one LAMMPS unit of ``quantity`` in ``style`` (None for lj)."""
    if style not in STYLES:
        raise ValueError(style)
    if style == 'lj':
        return None
    return _entry(style, quantity)[0]


WORKING_BASE = {'length': ANGSTROM, 'mass': AMU, 'energy': EV, 'charge': E_CHARGE}
WORKING_TIME = ANGSTROM * math.sqrt(AMU / EV)       # 1.0180505...e-14 s


def working_si(quantity):
    """SI value of one atomman default working unit of ``quantity``."""
    L, M, T, Q = DIMENSION[quantity]
    return ANGSTROM ** L * AMU ** M * WORKING_TIME ** T * E_CHARGE ** Q


def factor(style, quantity):
    """number_in_LAMMPS_units = number_in_working_units * factor."""
    if quantity is None:
        return 1.0
    if style == 'lj':
        if style not in STYLES:
            raise ValueError(style)
        return 1.0
    return working_si(quantity) / lammps_si(style, quantity)


def slack(style, quantity):
    """Relative slack to allow when comparing a converted number."""
    if quantity is None or style == 'lj':
        return 1e-14
    return SLACK + _entry(style, quantity)[1]


def defined(style, quantity):
    try:
        factor(style, quantity)
        return True
    except UndefinedUnit:
        return False
