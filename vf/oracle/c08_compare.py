"""C08 - what a load must return, and with which bound (numpy only, never atomman).

The *truth* is the dict of plain arrays made by ``vf.gen.c08_systems``; the
*observation* is a dict of plain arrays copied out of the loaded System by the
property module.  Everything here is derived from the documented behaviour of
the formats:

* printed precision: ``%.{d}f`` rounds to 0.5*10^-d (absolute, in file
  units), ``%.{d}e`` to 0.5*10^-d relative;
* LAMMPS data file: atoms are wrapped into the cell along periodic directions
  and the image flags written, the reader re-applies the flags, so the loaded
  positions are the original ones with the rounding of the printed coordinate
  plus |flag| times the rounding of the printed cell; along a non-periodic
  direction the cell is enlarged (never shrunk, never re-oriented) just enough
  to hold every atom; nothing else about the cell changes;
* LAMMPS dump file and table: nothing is normalised;
* POSCAR: no origin (the loaded cell sits at 0: direct coordinates keep the
  atoms' place in the cell, Cartesian ones their absolute place), atoms are
  grouped species by species in input order.
"""
from __future__ import annotations

import re

import numpy as np

PAD = 0.01          # largest enlargement margin (fraction of the cell) accepted along a non-periodic direction
EPS = 1e-12         # relative floating-point slack on top of the printed precision


def digits(fmt):
    m = re.fullmatch(r'%\.(\d+)([fe])', fmt)
    return int(m.group(1)), m.group(2)


def quantum(fmt, mag):
    """Largest rounding error of a number of magnitude <= mag printed with fmt (same units as mag)."""
    d, c = digits(fmt)
    if c == 'f':
        return 0.5 * 10.0 ** -d
    return 0.5 * 10.0 ** -d * float(mag)


def qwork(fmt, maxabs, F):
    """The same for a working-unit value of magnitude maxabs written in a file unit worth F working units."""
    return 1.02 * quantum(fmt, maxabs / F) * F + EPS * maxabs


def kind_class(dtype):
    k = np.dtype(dtype).kind
    return {'i': 'int', 'u': 'int', 'f': 'float', 'b': 'bool', 'U': 'str', 'O': 'str', 'S': 'str'}.get(k, k)


def rel_coords(points, vects, origin):
    p = np.asarray(points, float) - np.asarray(origin, float)
    return np.linalg.solve(np.asarray(vects, float).T, p.reshape(-1, 3).T).T.reshape(np.shape(p))


def image_flags(truth):
    """Number of cell vectors an atom must be moved along each periodic axis to land in [0,1)."""
    fl = np.floor(truth['rel'] + 0.0).astype(int)
    fl[:, [not p for p in truth['pbc']]] = 0
    return fl


# ------------------------------------------------------------------------------------------ expectations
class Expect:
    """cellmode: 'exact' | 'enlarged' (non-periodic axes may be enlarged) | 'origin0' (vectors equal, origin 0)."""

    def __init__(self, truth):
        self.truth = truth
        self.natoms = len(truth['atype'])
        self.order = np.arange(self.natoms)         # loaded atom k is truth atom order[k]
        self.cellmode = 'exact'
        self.tol_vects = 0.0
        self.tol_origin = 0.0
        self.pos = truth['pos']
        self.tol_pos = 0.0
        self.pbc = None                             # tuple if the format stores it
        self.symbols = None                         # tuple if the format stores them ('absent' entries are None)
        self.check_symbols = False
        self.props = {}                             # name -> (array, tol, kind class)
        self.exact_names = True                     # loaded property names must be exactly the expected set
        self.extra_ok = ()


def magnitude(truth):
    return float(np.abs(truth['origin']).max() + 8.0 * truth['L'] + np.abs(truth['pos']).max())


def add_props(e, fmt, items):
    """items: name -> (array in working units, kind 'i'|'f'|'b', F)"""
    for name, (arr, kind, F) in items.items():
        arr = np.asarray(arr)
        if kind == 'f':
            tol = qwork(fmt, float(np.abs(arr).max(initial=0.0)), F)
            e.props[name] = (arr, tol, 'float')
        elif kind == 'i':
            e.props[name] = (arr, 0.0, 'int')
        else:
            e.props[name] = (arr, 0.0, 'bool')


def expect_data(truth, fmt, Flen, items):
    e = Expect(truth)
    M = magnitude(truth)
    q = qwork(fmt, M, Flen)
    # an atom within rounding of a face may legitimately get either of two adjacent flags
    r = np.asarray(truth['rel'], float)
    fl = np.maximum(np.abs(np.floor(r - 1e-8)), np.abs(np.floor(r + 1e-8)))
    fl[:, [not p for p in truth['pbc']]] = 0
    S = int(fl.sum(axis=1).max(initial=0))
    e.cellmode = 'enlarged' if not all(truth['pbc']) else 'exact'
    e.tol_vects = 3 * q
    e.tol_origin = 2 * q
    e.tol_pos = (1 + 3 * S) * q + EPS * M * (1 + S)
    e.props['atype'] = (truth['atype'], 0.0, 'int')
    add_props(e, fmt, items)
    return e


def expect_dump(truth, fmt, Flen, items, scaled_pos=False, order=None):
    e = Expect(truth)
    M = magnitude(truth)
    q = qwork(fmt, M, Flen)
    e.tol_vects = 8 * q                      # lo/hi are recovered from the printed bounding box and tilts
    e.tol_origin = 6 * q
    if scaled_pos:
        r = float(np.abs(truth['rel']).max())
        e.tol_pos = 3.2 * truth['L'] * quantum(fmt, r) + 3 * r * e.tol_vects + e.tol_origin + EPS * M
    else:
        e.tol_pos = q
    e.pbc = tuple(truth['pbc'])
    e.props['atype'] = (truth['atype'], 0.0, 'int')
    add_props(e, fmt, items)
    if order is not None:
        e.order = np.asarray(order)
    return e


def expect_table(truth, fmt, items, pos_F=1.0, scaled_pos=False, order=None):
    e = Expect(truth)
    M = magnitude(truth)
    if scaled_pos:
        r = float(np.abs(truth['rel']).max())
        e.tol_pos = 3.2 * truth['L'] * quantum(fmt, r) + EPS * M * (1 + r)
    else:
        e.tol_pos = qwork(fmt, M, pos_F)
    e.tol_vects = EPS * M                    # the box is handed to the loader, it does not go through text
    e.tol_origin = EPS * M
    e.props['atype'] = (truth['atype'], 0.0, 'int')
    add_props(e, fmt, items)
    if order is not None:
        e.order = np.asarray(order)
    return e


def poscar_order(atype):
    return np.argsort(np.asarray(atype), kind='stable')


def expect_poscar(truth, fmt, scale, cartesian, symbols_written):
    e = Expect(truth)
    L = truth['L']
    e.cellmode = 'origin0'
    e.tol_vects = 1.05 * (quantum(fmt, L / scale) * scale + quantum(fmt, scale) * L / scale) + EPS * L
    e.tol_origin = 0.0
    e.order = poscar_order(truth['atype'])
    if cartesian:
        pm = float(np.abs(truth['pos']).max())
        e.pos = truth['pos']
        e.tol_pos = 1.05 * (quantum(fmt, pm / scale) * scale + quantum(fmt, scale) * pm / scale) + EPS * (pm + L)
    else:
        r = float(np.abs(truth['rel']).max())
        e.pos = truth['pos'] - truth['origin']
        e.tol_pos = 3.2 * (L * quantum(fmt, r) + r * e.tol_vects) + EPS * L * (1 + r)
    e.props['atype'] = (truth['atype'], 0.0, 'int')
    e.check_symbols = True
    e.symbols = tuple(symbols_written) if symbols_written is not None else tuple([None] * truth['natypes'])
    return e


# ------------------------------------------------------------------------------------------ comparison
def compare(rec, key, obs, e, what):
    """Record every clause of 'the loaded system is the dumped one'.  key: mechanism prefix; what: words for the
    clause text (format + access path)."""
    t = e.truth
    n_ok = rec.check(obs['natoms'] == e.natoms, f'{what}: atom count', key + ':natoms', got=obs['natoms'], expected=e.natoms)
    V, o = np.asarray(t['vects'], float), np.asarray(t['origin'], float)
    Vo, oo = obs['vects'], obs['origin']
    if e.cellmode == 'exact':
        rec.close(e.tol_vects, Vo, V, f'{what}: cell vectors', key + ':vects')
        rec.close(e.tol_origin + EPS * np.abs(o).max(), oo, o, f'{what}: cell origin', key + ':origin')
    elif e.cellmode == 'origin0':
        rec.close(e.tol_vects, Vo, V, f'{what}: cell vectors', key + ':vects')
        rec.close(1e-300, oo, np.zeros(3), f'{what}: the cell of a format without origin sits at 0', key + ':origin')
    else:
        check_enlarged(rec, key, obs, e, what)
    if e.pbc is not None:
        rec.check(tuple(obs['pbc']) == tuple(e.pbc), f'{what}: periodic flags', key + ':pbc', got=obs['pbc'], expected=e.pbc)
    if e.check_symbols:
        rec.check(tuple(obs['symbols']) == tuple(e.symbols), f'{what}: element symbols', key + ':symbols',
                  got=obs['symbols'], expected=e.symbols)
    if not n_ok:
        return
    order = e.order
    got = obs['props']
    names_exp = set(e.props) | {'pos'}
    names_got = set(got)
    missing = sorted(names_exp - names_got)
    extra = sorted(names_got - names_exp - set(e.extra_ok))
    rec.check(not missing, f'{what}: every carried per-atom property comes back', key + ':props-missing', missing=missing,
              got=sorted(names_got))
    if e.exact_names:
        rec.check(not extra, f'{what}: no per-atom property appears that was not written', key + ':props-extra', extra=extra)
    if 'pos' in got:
        rec.close(e.tol_pos, got['pos'], np.asarray(e.pos)[order], f'{what}: positions', key + ':pos')
    for name, (arr, tol, kc) in e.props.items():
        if name not in got:
            continue
        g = got[name]
        exp = np.asarray(arr)[order]
        ok_shape = rec.check(g.shape == exp.shape, f'{what}: property shape', key + ':shape', prop=name, got=g.shape, expected=exp.shape)
        rec.check(kind_class(g.dtype) == kc, f'{what}: property dtype kind', key + ':dtype', prop=name, got=str(g.dtype), expected=kc)
        if not ok_shape:
            continue
        kname = name if name in ('atype', 'velocity') else 'prop'
        if kc == 'float':
            rec.close(tol, g, exp, f'{what}: property values', key + ':' + kname, prop=name)
        else:
            try:
                same = bool(np.array_equal(g.astype(np.int64), exp.astype(np.int64)))
            except Exception:
                same = False
            rec.check(same, f'{what}: property values', key + ':' + kname, prop=name, got=g, expected=exp)


def check_enlarged(rec, key, obs, e, what):
    """Data file of a system with non-periodic directions."""
    t = e.truth
    V, o = np.asarray(t['vects'], float), np.asarray(t['origin'], float)
    Vo, oo = obs['vects'], obs['origin']
    pbc = t['pbc']
    r = np.asarray(t['rel'], float)
    ok_dir, ok_lo, ok_hi, ok_per = True, True, True, True
    detail = {}
    m = np.linalg.solve(V.T, (oo - o))            # origin shift in units of the true cell vectors
    # a rounding error e of the printed origin shows up in these skew coordinates amplified by up to cond(V)
    amp = 1.8 * float(np.linalg.cond(V))
    for i in range(3):
        li = np.linalg.norm(V[i])
        if pbc[i]:
            if not (np.abs(Vo[i] - V[i]).max() <= e.tol_vects and abs(m[i]) * li <= amp * (e.tol_origin + EPS * np.abs(o).max())):
                ok_per = False
                detail[f'axis{i}'] = dict(got=Vo[i], expected=V[i], origin_shift=m[i])
            continue
        s = float(Vo[i] @ V[i]) / float(V[i] @ V[i])
        if np.abs(Vo[i] - s * V[i]).max() > e.tol_vects * (1 + abs(s)):
            ok_dir = False
            detail[f'axis{i}'] = dict(got=Vo[i], expected_parallel_to=V[i])
            continue
        tolr = amp * (e.tol_pos + e.tol_vects + e.tol_origin) / li + 1e-9
        lo, hi = float(m[i]), float(m[i] + s)
        rmin, rmax = float(r[:, i].min()), float(r[:, i].max())
        if rmin > 1e-6:
            good = abs(lo) <= tolr
        else:
            good = (min(0.0, rmin) - PAD - tolr) <= lo <= (min(0.0, rmin) + tolr)
        if not good:
            ok_lo = False
            detail[f'lo{i}'] = dict(lo=lo, rmin=rmin)
        if rmax < 1 - 1e-6:
            good = abs(hi - 1) <= tolr
        else:
            good = (max(1.0, rmax) - tolr) <= hi <= (max(1.0, rmax) + PAD + tolr)
        if not good:
            ok_hi = False
            detail[f'hi{i}'] = dict(hi=hi, rmax=rmax)
    rec.check(ok_per, f'{what}: cell unchanged along periodic directions', key + ':vects', **detail)
    rec.check(ok_dir, f'{what}: cell vectors of non-periodic directions keep their direction', key + ':vects-nonperiodic', **detail)
    rec.check(ok_lo and ok_hi, f'{what}: a non-periodic direction is enlarged just enough to hold every atom (unchanged when all are inside)',
              key + ':enlarge', **detail)


# ------------------------------------------------------------------------------------------ call histories
def loosen(e, k):
    """The expectation of a file that went through k write/read generations (every bound k times as wide)."""
    e.tol_vects *= k
    e.tol_origin *= k
    e.tol_pos *= k
    e.props = {n: (a, t * k, c) for n, (a, t, c) in e.props.items()}
    return e


def _same(a, b):
    a, b = np.asarray(a), np.asarray(b)
    if a.shape != b.shape or a.dtype != b.dtype:
        return False
    if a.dtype.kind == 'f':
        return bool(np.array_equal(a.view(np.uint64 if a.dtype.itemsize == 8 else np.uint32),
                                   b.view(np.uint64 if b.dtype.itemsize == 8 else np.uint32)))
    return bool(np.array_equal(a, b))


def differences(obs1, obs2):
    """Names of the parts in which two observations (dicts made by the property module) differ in any bit."""
    out = []
    if obs1['natoms'] != obs2['natoms']:
        out.append('natoms')
    for k in ('vects', 'origin'):
        if not _same(obs1[k], obs2[k]):
            out.append(k)
    if tuple(obs1['pbc']) != tuple(obs2['pbc']):
        out.append('pbc')
    if tuple(obs1['symbols']) != tuple(obs2['symbols']):
        out.append('symbols')
    if set(obs1['props']) != set(obs2['props']):
        out.append('property-names')
    for k in obs1['props']:
        if k in obs2['props'] and not _same(obs1['props'][k], obs2['props'][k]):
            out.append('prop:' + k)
    return out


def plain_equal(a, b):
    """Deep equality of nested lists / tuples / dicts / scalars / arrays *including the container types* (used to tell
    whether a call changed an argument it was handed)."""
    if type(a) is not type(b):
        return False
    if isinstance(a, dict):
        return list(a.keys()) == list(b.keys()) and all(plain_equal(a[k], b[k]) for k in a)
    if isinstance(a, (list, tuple)):
        return len(a) == len(b) and all(plain_equal(x, y) for x, y in zip(a, b))
    if isinstance(a, np.ndarray):
        return _same(a, b)
    return a == b
