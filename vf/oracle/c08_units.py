"""C08 - magnitudes of the LAMMPS unit styles (numpy only, never atomman).

Hand-entered from the LAMMPS ``units`` manual page: for every unit style the
SI value of the unit of each quantity that can appear as a column of a data
file, dump file or table written by atomman, together with the quantity's
dimension exponents (length, mass, time, charge).  ``factor(style, quantity)``
returns the value of one such unit expressed in atomman's default working
units (angstrom, amu, eV, e; the time unit follows as
angstrom*sqrt(amu/eV) ~ 1.018e-14 s).

The factors are used for two things only: to generate values that are O(1)
*in the file* (so that fixed-point float formats keep their precision in
every unit style) and to turn "half a unit in the last printed place" into a
bound in working units.  Expected values of a round trip never involve them.
"""
from __future__ import annotations

import numpy as np

# SI values of the default working units
_LW = 1e-10                       # angstrom
_MW = 1.66053906660e-27           # amu
_EW = 1.602176634e-19             # eV
_QW = 1.602176634e-19             # e
_TW = float(np.sqrt(_MW * _LW * _LW / _EW))

# dimension exponents (L, M, T, Q)
DIMS = {
    'length': (1, 0, 0, 0), 'mass': (0, 1, 0, 0), 'time': (0, 0, 1, 0), 'velocity': (1, 0, -1, 0),
    'charge': (0, 0, 0, 1), 'dipole': (1, 0, 0, 1), 'density': (-3, 1, 0, 0), 'force': (1, 1, -2, 0),
    'torque': (2, 1, -2, 0), 'volume': (3, 0, 0, 0), 'ang-mom': (2, 1, -1, 0), 'ang-vel': (0, 0, -1, 0), 'energy': (2, 1, -2, 0),
}

_NA = 6.02214076e23
_KCALMOL = 4184.0 / _NA
_BOHR = 5.29177210903e-11
_HARTREE = 4.3597447222071e-18
_STATC = 3.3356409519815204e-10            # statcoulomb in C (10 / c)

# SI value of the unit of (mass, length, time, charge, velocity, force, torque, dipole, density) per style.
# None = style has no such unit (electron: no density) ; 'lj' is dimensionless (no conversion at all).
_SI = {
    'real': dict(mass=1e-3 / _NA, length=1e-10, time=1e-15, charge=_QW, velocity=1e5, force=_KCALMOL / 1e-10,
                 torque=_KCALMOL, dipole=_QW * 1e-10, density=1e3),
    'metal': dict(mass=1e-3 / _NA, length=1e-10, time=1e-12, charge=_QW, velocity=1e2, force=_EW / 1e-10,
                  torque=_EW, dipole=_QW * 1e-10, density=1e3),
    'si': dict(mass=1.0, length=1.0, time=1.0, charge=1.0, velocity=1.0, force=1.0, torque=1.0, dipole=1.0, density=1.0),
    'cgs': dict(mass=1e-3, length=1e-2, time=1.0, charge=_STATC, velocity=1e-2, force=1e-5, torque=1e-7,
                dipole=_STATC * 1e-2, density=1e3),
    'electron': dict(mass=_MW, length=_BOHR, time=1e-15, charge=_QW, velocity=_BOHR / 1.03275e-15, force=_HARTREE / _BOHR,
                     torque=1e-7, dipole=3.3356409519815204e-30, density=None),
    'micro': dict(mass=1e-15, length=1e-6, time=1e-6, charge=1e-12, velocity=1.0, force=1e-15 * 1e-6 / 1e-12,
                  torque=1e-15 * 1e-12 / 1e-12, dipole=1e-18, density=1e-15 / 1e-18),
    'nano': dict(mass=1e-21, length=1e-9, time=1e-9, charge=_QW, velocity=1.0, force=1e-21 * 1e-9 / 1e-18,
                 torque=1e-21 * 1e-18 / 1e-18, dipole=_QW * 1e-9, density=1e-21 / 1e-27),
}
STYLES = ['metal', 'real', 'si', 'cgs', 'electron', 'micro', 'nano', 'lj']
NON_ANGSTROM = ['si', 'cgs', 'electron', 'micro', 'nano']


def _working(si_value, dims):
    l, m, t, q = dims
    return si_value / (_LW ** l * _MW ** m * _TW ** t * _QW ** q)


def has(style, quantity):
    if style == 'lj':
        return True
    if quantity in ('ang-mom', 'ang-vel', 'volume'):
        return True
    return _SI[style].get(quantity) is not None


def factor(style, quantity):
    """Value of one unit of ``quantity`` in LAMMPS unit ``style`` in atomman's default working units.
    quantity None (plain number / integer column) and every 'lj' quantity give 1."""
    if quantity is None or style == 'lj':
        return 1.0
    tab = _SI[style]
    if quantity == 'ang-mom':            # length * velocity * mass
        si = tab['length'] * tab['velocity'] * tab['mass']
    elif quantity == 'ang-vel':          # 1 / time
        si = 1.0 / tab['time']
    elif quantity == 'volume':
        si = tab['length'] ** 3
    else:
        si = tab[quantity]
        if si is None:
            raise KeyError(f'{style} has no unit for {quantity}')
    return float(_working(si, DIMS[quantity]))
