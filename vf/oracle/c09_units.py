"""C09 oracle: units, dimensions and the unit-expression grammar (numpy/stdlib only).

Written from definitions (SI brochure, CODATA 2022 adjusted values, the
international yard/pound agreement, the LAMMPS ``units`` manual page), not from
atomman or numericalunits sources.

* ``TABLE``: name -> (SI value, dimension vector (L, M, T, Q, Theta), exact?).
  The base set is metre, kilogram, second, **coulomb**, kelvin (charge is taken
  as the electrical base quantity so that it matches the five independent scale
  factors of a working-unit configuration).  The amount of substance is a pure
  count here: ``mol`` is the Avogadro number (``g/mol`` is a mass per particle,
  ``kcal/mol`` an energy per particle - the convention LAMMPS 'real' units need).
  ``exact`` is False for CODATA *measured* constants, whose recommended values
  move by ~1e-9 between adjustments; comparisons involving them use a wider bound.
* ``Q``: a number with a dimension vector; ``evaluate(expr, lookup)`` is a
  recursive-descent evaluator of the unit grammar with ordinary precedence
  (parentheses, then ``^``, then ``*`` and ``/`` left to right) that works over
  plain floats (lookup = a name->float mapping) or over ``Q`` (lookup = ``si``).
* ``admissible_choices()``: every subset of {length, mass, time, energy, charge}
  of size 1-4 that does not contain {length, mass, time, energy}.
* ``STYLE_DIMS``: (L, M, T, Q, Theta) of the quantities a LAMMPS unit-style table lists.
"""
from __future__ import annotations

import itertools
import math
import re

import numpy as np

PI = 3.14159265358979323846

# ---------------------------------------------------------------------------
# dimension vectors (L, M, T, Q, Theta)
D0 = (0, 0, 0, 0, 0)
LEN = (1, 0, 0, 0, 0)
MASS = (0, 1, 0, 0, 0)
TIME = (0, 0, 1, 0, 0)
CHARGE = (0, 0, 0, 1, 0)
TEMP = (0, 0, 0, 0, 1)
VOLUME = (3, 0, 0, 0, 0)
FREQ = (0, 0, -1, 0, 0)
ENERGY = (2, 1, -2, 0, 0)
FORCE = (1, 1, -2, 0, 0)
PRESSURE = (-1, 1, -2, 0, 0)
POWER = (2, 1, -3, 0, 0)
CURRENT = (0, 0, -1, 1, 0)
VOLT = (2, 1, -2, -1, 0)          # J/C
OHM = (2, 1, -1, -2, 0)           # V/A
SIEMENS = (-2, -1, 1, 2, 0)
TESLA = (0, 1, -1, -1, 0)         # V s / m^2
WEBER = (2, 1, -1, -1, 0)         # V s
FARAD = (-2, -1, 2, 2, 0)         # C/V
HENRY = (2, 1, 0, -2, 0)          # V s / A
ACTION = (2, 1, -1, 0, 0)
VELOCITY = (1, 0, -1, 0, 0)
ACCEL = (1, 0, -2, 0, 0)

TABLE = {}


def _add(dim, exact=True, **names):
    for n, v in names.items():
        assert n not in TABLE, n
        TABLE[n] = (float(v), tuple(dim), bool(exact))


def _prefixed(stem, base, dim, prefixes, exact=True):
    P = {'a': 1e-18, 'f': 1e-15, 'p': 1e-12, 'n': 1e-9, 'u': 1e-6, 'm': 1e-3, 'c': 1e-2, 'h': 1e2,
         'k': 1e3, 'M': 1e6, 'G': 1e9, 'T': 1e12, '': 1.0}
    for p in prefixes:
        _add(dim, exact, **{p + stem: P[p] * base})


# --- length ------------------------------------------------------------------
_prefixed('m', 1.0, LEN, ['', 'c', 'm', 'u', 'n', 'p', 'f', 'k'])
_add(LEN, angstrom=1e-10)
TABLE['Å'] = TABLE['angstrom']                                   # A-ring alias
INCH = 0.0254                                                          # exact (1959 agreement)
_add(LEN, inch=INCH, foot=12 * INCH, mile=5280 * 12 * INCH, thou=1e-3 * INCH)
AU = 149597870700.0                                                    # IAU 2012, exact
_add(LEN, astro_unit=AU, lightyear=9460730472580800.0, pc=AU * 648000.0 / PI)
# --- volume ------------------------------------------------------------------
_add(VOLUME, L=1e-3, mL=1e-6, uL=1e-9)
# --- time, frequency -----------------------------------------------------------
_prefixed('s', 1.0, TIME, ['', 'm', 'u', 'n', 'p', 'f'])
_add(TIME, minute=60.0, hour=3600.0, day=86400.0, week=604800.0)
_prefixed('Hz', 1.0, FREQ, ['', 'm', 'k', 'M', 'G', 'T'])
_add(FREQ, rpm=1.0 / 60.0)
_add((0, 0, -0.5, 0, 0), rtHz=1.0)
TABLE['Hz·2π'] = (2 * PI, FREQ, True)                        # 'Hz·2π'
# --- mass ------------------------------------------------------------------------
_add(MASS, kg=1.0, tonne=1e3, lbm=0.45359237)
_prefixed('g', 1e-3, MASS, ['', 'm', 'u', 'n', 'p', 'f'])
AMU = 1.66053906892e-27                                                # CODATA 2022
_add(MASS, exact=False, amu=AMU, Da=AMU, kDa=1e3 * AMU,
     me=9.1093837139e-31, mp=1.67262192595e-27, mn=1.67492750056e-27)
# --- energy ----------------------------------------------------------------------
_prefixed('J', 1.0, ENERGY, ['', 'm', 'u', 'n', 'p', 'f', 'k', 'M', 'G'])
EV = 1.602176634e-19                                                   # exact since 2019
_add(ENERGY, erg=1e-7, smallcal=4.184, kcal=4184.0, Wh=3600.0, kWh=3.6e6)
_prefixed('eV', EV, ENERGY, ['', 'm', 'k', 'M', 'G'])
RY = 2.1798723611030e-18                                               # CODATA 2022
_add(ENERGY, exact=False, Ry=RY, Hartree=2 * RY)
# --- amount (pure count) -----------------------------------------------------------
NA = 6.02214076e23
_add(D0, NA=NA, mol=NA, mmol=1e-3 * NA, umol=1e-6 * NA, pi=PI)
_add(D0, exact=False, alphaFS=7.2973525643e-3)
# --- force, pressure, power ----------------------------------------------------------
_prefixed('N', 1.0, FORCE, ['', 'm', 'u', 'n', 'p', 'k'])
G0 = 9.80665
LBF = 0.45359237 * G0
_add(FORCE, dyn=1e-5, lbf=LBF)
_prefixed('Pa', 1.0, PRESSURE, ['', 'h', 'k', 'M', 'G'])
_add(PRESSURE, bar=1e5, mbar=1e2, kbar=1e8, Mbar=1e11, atm=101325.0, torr=101325.0 / 760.0,
     psi=LBF / INCH ** 2)
_prefixed('W', 1.0, POWER, ['', 'm', 'u', 'k', 'M'])
_add(ACCEL, g0=G0, Gal=1e-2)
# --- temperature -----------------------------------------------------------------------
_prefixed('K', 1.0, TEMP, ['', 'm', 'u'])
_add(TEMP, degCinterval=1.0, degFinterval=5.0 / 9.0)
# --- electrical ---------------------------------------------------------------------------
_add(CHARGE, C=1.0, mC=1e-3, uC=1e-6, nC=1e-9, Ah=3600.0, mAh=3.6, e=EV)
_prefixed('A', 1.0, CURRENT, ['', 'm', 'u', 'n'])
_prefixed('V', 1.0, VOLT, ['', 'm', 'u', 'k', 'M'])
_add(OHM, ohm=1.0, kohm=1e3, Mohm=1e6)
TABLE['Ω'] = TABLE['ohm']                                         # Omega alias
_add(SIEMENS, S=1.0, mS=1e-3)
_add(TESLA, T=1.0, mT=1e-3, G=1e-4)
_add(WEBER, Wb=1.0)
_add(FARAD, F=1.0, uF=1e-6, pF=1e-12)
_add(HENRY, H=1.0, mH=1e-3)
# --- constants ------------------------------------------------------------------------------
C0 = 299792458.0
HPLANCK = 6.62607015e-34
KB = 1.380649e-23
_add(VELOCITY, c0=C0)
_add(ACTION, hPlanck=HPLANCK, hbar=HPLANCK / (2 * PI))
TABLE['ħ'] = TABLE['hbar']                                        # h-bar alias
_add((2, 1, -2, 0, -1), kB=KB, Rgas=KB)                                # per particle (mol is a count)
_add((1, 0, 0, 1, 0), debye=1e-21 / C0)
MU0 = 1.25663706127e-6                                                 # CODATA 2022, N/A^2
_add((1, 1, 0, -2, 0), exact=False, mu0=MU0)
_add((-3, -1, 2, 2, 0), exact=False, eps0=1.0 / (MU0 * C0 ** 2))
_add((3, -1, -2, 0, 0), exact=False, GNewton=6.67430e-11)
_add(LEN, exact=False, aBohr=5.29177210544e-11)
_add((-1, 0, 0, 0, 0), exact=False, Rinf=10973731.568157)
_add((2, 0, -1, 1, 0), exact=False, uBohr=9.2740100657e-24)            # J/T

ASCII_NAMES = sorted(n for n in TABLE if n.isascii())
UNICODE_NAMES = sorted(n for n in TABLE if not n.isascii())

# pure-dimension name pools (used for working-unit choices and compensating factors)
POOLS = {
    'length': [n for n, (v, d, x) in TABLE.items() if d == LEN and n.isascii()],
    'mass': [n for n, (v, d, x) in TABLE.items() if d == MASS],
    'time': [n for n, (v, d, x) in TABLE.items() if d == TIME],
    'energy': [n for n, (v, d, x) in TABLE.items() if d == ENERGY],
    'charge': [n for n, (v, d, x) in TABLE.items() if d == CHARGE],
    'temperature': [n for n, (v, d, x) in TABLE.items() if d == TEMP],
}

BASE_NAMES = ('m', 'kg', 's', 'C', 'K')


# ---------------------------------------------------------------------------
class Q:
    """A positive (or at least real) number carrying a dimension vector and the
    bookkeeping the bounds need: ``w`` = sum of |effective exponent| over the
    unit names it was built from, ``inexact`` = built from a measured constant."""
    __slots__ = ('v', 'd', 'w', 'inexact')

    def __init__(self, v, d=D0, w=0.0, inexact=False):
        self.v, self.d, self.w, self.inexact = float(v), tuple(d), float(w), bool(inexact)

    def __mul__(self, o):
        return Q(self.v * o.v, tuple(a + b for a, b in zip(self.d, o.d)), self.w + o.w, self.inexact or o.inexact)

    def __truediv__(self, o):
        return Q(self.v / o.v, tuple(a - b for a, b in zip(self.d, o.d)), self.w + o.w, self.inexact or o.inexact)

    def __pow__(self, o):
        if any(o.d):
            raise ValueError('exponent is not dimensionless')
        return Q(self.v ** o.v, tuple(a * o.v for a in self.d), self.w * abs(o.v) + o.w, self.inexact or o.inexact)

    def __repr__(self):
        return f'Q({self.v!r}, {self.d})'


def si(name):
    v, d, exact = TABLE[name]
    return Q(v, d, 1.0, not exact)


def scale_of(base, dim):
    """prod(base_i ^ dim_i), accumulated in extended precision so that a large
    intermediate (kg = 1e47 to the 5th power, later cancelled by metres and
    seconds) neither overflows nor costs accuracy."""
    b = np.asarray(base, dtype=np.longdouble)
    d = np.asarray(dim, dtype=np.longdouble)
    return np.prod(np.power(b, d), axis=-1)


def value_in(base, name):
    """Numerical value a unit must have in a configuration whose five base units
    have the values ``base`` = (m, kg, s, C, K): SI value x prod(base_i ^ dim_i)."""
    v, d, _ = TABLE[name]
    return float(np.longdouble(v) * scale_of(base, d))


def predicted(q, base):
    """Value of the quantity ``q`` (a ``Q`` over the SI table) in the configuration ``base``."""
    return float(np.longdouble(q.v) * scale_of(base, q.d))


# ---------------------------------------------------------------------------
# grammar:  expr := power (('*'|'/') power)* ;  power := atom ('^' atom)? ;
#           atom := NUMBER | NAME | '(' expr ')'     (whitespace anywhere between tokens)
_NUM = re.compile(r'-?(?:\d+\.?\d*|\.\d+)(?:[eE][+-]?\d+)?')
_WS = ' \t\n\r'
_STOP = set(' \t\n\r*/^()')


class GrammarError(ValueError):
    pass


def tokens(s):
    out, i, n = [], 0, len(s)
    while i < n:
        ch = s[i]
        if ch in _WS:
            i += 1
        elif ch in '*/^()':
            out.append((ch, ch))
            i += 1
        elif ch.isdigit() or ch in '-.':
            m = _NUM.match(s, i)
            if not m:
                raise GrammarError(f'bad number at {i} in {s!r}')
            out.append(('num', m.group()))
            i = m.end()
        elif ch.isalpha():
            j = i
            while j < n and s[j] not in _STOP:
                j += 1
            out.append(('name', s[i:j]))
            i = j
        else:
            raise GrammarError(f'unexpected character {ch!r} in {s!r}')
    return out


def evaluate(expr, lookup, number=float):
    """Value of a unit expression.  ``lookup(name)`` gives the value of a name,
    ``number(float)`` lifts a literal into the same number type."""
    toks = tokens(expr)
    pos = 0

    def peek():
        return toks[pos][0] if pos < len(toks) else None

    def atom():
        nonlocal pos
        if pos >= len(toks):
            raise GrammarError(f'unexpected end of {expr!r}')
        kind, text = toks[pos]
        pos += 1
        if kind == 'num':
            return number(float(text))
        if kind == 'name':
            return lookup(text)
        if kind == '(':
            v = product()
            if peek() != ')':
                raise GrammarError(f'missing ) in {expr!r}')
            pos += 1
            return v
        raise GrammarError(f'unexpected {text!r} in {expr!r}')

    def power():
        nonlocal pos
        v = atom()
        if peek() == '^':
            pos += 1
            v = v ** atom()
            if peek() == '^':
                raise GrammarError(f'chained ^ without parentheses in {expr!r}')
        return v

    def product():
        nonlocal pos
        v = power()
        while peek() in ('*', '/'):
            op = toks[pos][0]
            pos += 1
            r = power()
            v = v * r if op == '*' else v / r
        return v

    v = product()
    if pos != len(toks):
        raise GrammarError(f'trailing input in {expr!r}')
    return v


def evaluate_float(expr, table):
    """expr evaluated over a plain name->float mapping (e.g. the code's own unit table)."""
    return evaluate(expr, table.__getitem__, float)


def evaluate_si(expr):
    """expr evaluated over the hand-entered table: a ``Q`` (SI value, dimension, weight)."""
    return evaluate(expr, si, lambda x: Q(x))


# ---------------------------------------------------------------------------
QUANTITIES = ('length', 'mass', 'time', 'energy', 'charge')
Q_DIM = {'length': LEN, 'mass': MASS, 'time': TIME, 'energy': ENERGY, 'charge': CHARGE}


def admissible_choices():
    """All subsets (as sorted tuples) of size 1-4 of the five quantities that do
    not fix length, mass, time and energy together."""
    out = []
    for k in (1, 2, 3, 4):
        for sub in itertools.combinations(QUANTITIES, k):
            if {'length', 'mass', 'time', 'energy'} <= set(sub):
                continue
            out.append(sub)
    return out


# ---------------------------------------------------------------------------
# LAMMPS unit styles: (L, M, T, Q, Theta) of each tabulated quantity
STYLES = ('lj', 'real', 'metal', 'si', 'cgs', 'electron', 'micro', 'nano')
STYLE_DIMS = {
    # mechanical quantities (the ones the property statement is about)
    'mass': (0, 1, 0, 0, 0),
    'length': (1, 0, 0, 0, 0),
    'time': (0, 0, 1, 0, 0),
    'energy': (2, 1, -2, 0, 0),
    'velocity': (1, 0, -1, 0, 0),
    'force': (1, 1, -2, 0, 0),
    'torque': (2, 1, -2, 0, 0),
    'pressure': (-1, 1, -2, 0, 0),
    'dynamic viscosity': (-1, 1, -1, 0, 0),
    'density': (-3, 1, 0, 0, 0),
    'ang-mom': (2, 1, -1, 0, 0),
    'ang-vel': (0, 0, -1, 0, 0),
    'volume': (3, 0, 0, 0, 0),
    # thermal / electrical quantities (checked in addition)
    'temperature': (0, 0, 0, 0, 1),
    'charge': (0, 0, 0, 1, 0),
    'dipole': (1, 0, 0, 1, 0),
    'electric field': (1, 1, -2, -1, 0),          # V/m = J/(C m)
}
STYLE_MECHANICAL = ('mass', 'length', 'time', 'energy', 'velocity', 'force', 'torque', 'pressure',
                    'dynamic viscosity', 'density', 'ang-mom', 'ang-vel', 'volume')
# quantities every non-lj style must list (the manual lists no viscosity/density for 'electron'; 'volume' was added
# to the tables later and is judged only where present)
STYLE_REQUIRED = ('mass', 'length', 'time', 'energy', 'velocity', 'force', 'torque', 'pressure', 'ang-mom', 'ang-vel')


def log_ratio_exponents(v_ref, v_scaled, factors):
    """Exponent p_i such that v_scaled_i / v_ref = factor_i ^ p_i, one rescaled
    configuration per base unit (metre, kilogram, second, coulomb)."""
    return tuple(math.log(vs / v_ref) / math.log(f) for vs, f in zip(v_scaled, factors))


def selfcheck():
    """Hand-computed cases (run by the property module once per worker)."""
    assert abs(evaluate_si('kg*m/s^2').v - 1.0) < 1e-15 and evaluate_si('kg*m/s^2').d == FORCE
    assert evaluate_float('2*3^2', {}) == 18.0
    assert evaluate_float('2/4/2', {}) == 0.25
    assert evaluate_float('2/4*2', {}) == 1.0
    assert evaluate_float('2^3*2', {}) == 16.0
    assert evaluate_float('(2^3)^2', {}) == 64.0
    assert evaluate_float('2^(1/2)', {}) == 2 ** 0.5
    assert evaluate_float(' 4 ^ -2\t', {}) == 0.0625
    assert evaluate_float('1e-12*.5', {}) == 0.5e-12
    assert evaluate_float('8/(2*(2))', {}) == 2.0
    q = evaluate_si('eV/angstrom^3')
    assert q.d == PRESSURE and abs(q.v / 1.602176634e11 - 1) < 1e-14
    q = evaluate_si('(kcal/mol)/angstrom')
    assert q.d == FORCE and abs(q.v / 6.947695457055374e-11 - 1) < 1e-12
    assert abs(TABLE['psi'][0] / 6894.757293168 - 1) < 1e-12
    assert abs(TABLE['pc'][0] / 3.0856775814913673e16 - 1) < 1e-14
    assert evaluate_si('rtHz^2*s').d == D0
    assert len(admissible_choices()) == 29
    try:
        evaluate_float('2^3^2', {})
    except GrammarError:
        pass
    else:
        raise AssertionError('chained ^ accepted')
    return True
