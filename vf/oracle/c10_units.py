"""Hand-entered SI values of the explicit units the C10 workload stores values in
(numpy only, never atomman).  Used two ways: (i) to predict the *numbers* that
must appear in the JSON/XML text when a physical quantity is written in a
stated unit, (ii) to convert what was read back into a fixed comparison unit
without going through the code under test."""
from __future__ import annotations

E_CHARGE = 1.602176634e-19          # C (exact, SI 2019)
AMU = 1.66053906892e-27             # kg (CODATA 2022); 2018 value differs by 1.4e-10 relative

# dimension -> {unit expression: SI value}
UNITS = {
    'length': {'angstrom': 1e-10, 'nm': 1e-9, 'pm': 1e-12, 'm': 1.0, 'cm': 1e-2, 'um': 1e-6},
    'pressure': {'GPa': 1e9, 'MPa': 1e6, 'Pa': 1.0, 'bar': 1e5, 'eV/angstrom^3': E_CHARGE / 1e-30},
    'energy': {'eV': E_CHARGE, 'J': 1.0, 'meV': 1e-3 * E_CHARGE, 'keV': 1e3 * E_CHARGE},
    'charge': {'e': E_CHARGE, 'C': 1.0},
    'force': {'eV/angstrom': E_CHARGE / 1e-10, 'N': 1.0, 'nN': 1e-9},
    'mass': {'amu': AMU, 'kg': 1.0, 'g': 1e-3},
    'velocity': {'angstrom/ps': 1e2, 'm/s': 1.0, 'nm/ps': 1e3},
    # compound expressions whose value depends on evaluating * and / left to right ('a/b*c' is (a/b)*c)
    'impulse': {'eV/angstrom*ps': E_CHARGE / 1e-10 * 1e-12, 'N*s': 1.0, 'kg*m/s': 1.0, 'g*cm/s': 1e-5, 'eV*ps/angstrom': E_CHARGE * 1e-12 / 1e-10},
    'stiffness': {'eV/angstrom/angstrom': E_CHARGE / 1e-20, 'N/m': 1.0, 'J/m^2': 1.0, 'kg/s/s': 1.0, 'eV/(angstrom*angstrom)': E_CHARGE / 1e-20,
                  'GPa*nm': 1.0, 'J/m/m': 1.0},
}
# SI value of the working unit of each dimension under atomman's default configuration (angstrom, amu, eV, e);
# the working time unit follows from energy = mass * length^2 / time^2
T_DEFAULT = 1e-10 * (AMU / E_CHARGE) ** 0.5
DEFAULT_WORK_SI = {'length': 1e-10, 'pressure': E_CHARGE / 1e-30, 'energy': E_CHARGE, 'charge': E_CHARGE, 'force': E_CHARGE / 1e-10,
                   'mass': AMU, 'velocity': 1e-10 / T_DEFAULT, 'impulse': E_CHARGE / 1e-10 * T_DEFAULT, 'stiffness': E_CHARGE / 1e-20}
RTOL = 5e-9     # slack for CODATA-version differences of amu / derived constants


def names(dim):
    return list(UNITS[dim])


def si(dim, unit):
    return UNITS[dim][unit]


def from_default_working(value, dim, unit_to):
    """value in the working units of the default configuration -> the same quantity expressed in unit_to."""
    return value * (DEFAULT_WORK_SI[dim] / UNITS[dim][unit_to])


def convert(value, dim, unit_from, unit_to):
    """value expressed in unit_from -> the same physical quantity expressed in unit_to."""
    return value * (UNITS[dim][unit_from] / UNITS[dim][unit_to])
