"""Independent reference for linear elasticity tensors (numpy only, never atomman).

Everything here is written from the textbook definitions (Nye, *Physical
Properties of Crystals*, ch. VIII; Landau & Lifshitz vol. 7 §5, §10):

* Voigt contraction 1=11, 2=22, 3=33, 4=23, 5=13, 6=12 (0-based below), the
  nine-component ordering appends 32, 31, 21;
* stiffness    c_ab   = C_ijkl                    (a=(ij), b=(kl));
* compliance   s_ab   = w_a w_b S_ijkl, w=1 for a normal, 2 for a shear
  component (because the Voigt strain vector carries *engineering* shears
  gamma = 2 eps), hence factors 1 / 2 / 4;
* change of axes with direction-cosine matrix R (rows = new axes in old
  components):  T'_ijkl = R_ia R_jb R_kc R_ld T_abcd,  eps' = R eps R^T;
* isotropic solid  C_ijkl = lam d_ij d_kl + mu (d_ik d_jl + d_il d_jk), with
  E = mu(3lam+2mu)/(lam+mu), nu = lam/(2(lam+mu)), K = lam+2mu/3, M = lam+2mu;
* Voigt / Reuss averages as isotropic projections of C and S:
  K_V = C_iijj/9, G_V = (3C_ijij - C_iijj)/30, 1/K_R = S_iijj,
  15/G_R = 6 S_ijij - 2 S_iijj; Hill = arithmetic mean.

The form of the stiffness matrix of a crystal system is NOT tabulated here:
``system_tensor`` computes the unique tensor that is invariant under the
system's symmetry rotations and carries the given named constants at the
positions their names denote (null space of the rotation action on the
21-dimensional space of symmetric 6x6 matrices).

Public API (stable; also meant for the C12 check):
    VOIGT_PAIRS, NINE_PAIRS, voigt_index, c4_from_voigt, voigt_from_c4,
    c9_from_voigt, voigt_from_c9, s4_from_voigt, voigt_from_s4, compliance6,
    rotate4, rotate4_by_index, rotate_voigt, rotate_strain, unit_rows, is_proper_rotation,
    strain_voigt, stress_voigt_to_tensor, stress, energy, sym_identity,
    symmetry_defect, rot_axis, random_rotation, GENERATORS, group_closure,
    invariant_basis, system_tensor, named_position, iso_c6, iso_moduli,
    ISO_NAMES, ISO_PAIRS, iso_pair_condition, vrh, random_spd6, cond6, selfcheck
"""
from __future__ import annotations

import itertools

import numpy as np

# --------------------------------------------------------------------------
# index maps
VOIGT_PAIRS = ((0, 0), (1, 1), (2, 2), (1, 2), (0, 2), (0, 1))
NINE_PAIRS = VOIGT_PAIRS + ((2, 1), (2, 0), (1, 0))


def voigt_index(i, j):
    """0-based Voigt index of the (unordered) pair ij."""
    return i if i == j else 6 - i - j


_V = np.array([[voigt_index(i, j) for j in range(3)] for i in range(3)])          # (3,3) -> 0..5
_W = np.array([1.0 if i == j else 2.0 for (i, j) in VOIGT_PAIRS])                # compliance weights
_P6 = np.array(VOIGT_PAIRS)
_P9 = np.array(NINE_PAIRS)
_V9 = np.array([voigt_index(i, j) for (i, j) in NINE_PAIRS])                     # 9 -> 0..5


def c4_from_voigt(c6):
    """C_ijkl = c_(ij)(kl)."""
    c6 = np.asarray(c6, float)
    return c6[_V[:, :, None, None], _V[None, None, :, :]]


def voigt_from_c4(c4):
    c4 = np.asarray(c4, float)
    return c4[_P6[:, 0, None], _P6[:, 1, None], _P6[None, :, 0], _P6[None, :, 1]]


def c9_from_voigt(c6):
    """9x9 matrix over the ordered pairs 11,22,33,23,13,12,32,31,21."""
    c6 = np.asarray(c6, float)
    return c6[_V9[:, None], _V9[None, :]]


def c9_from_c4(c4):
    c4 = np.asarray(c4, float)
    return c4[_P9[:, 0, None], _P9[:, 1, None], _P9[None, :, 0], _P9[None, :, 1]]


def voigt_from_c9(c9):
    return np.asarray(c9, float)[:6, :6].copy()


def s4_from_voigt(s6):
    """S_ijkl = s_(ij)(kl) / (w_(ij) w_(kl))."""
    s6 = np.asarray(s6, float) / np.outer(_W, _W)
    return s6[_V[:, :, None, None], _V[None, None, :, :]]


def voigt_from_s4(s4):
    return voigt_from_c4(s4) * np.outer(_W, _W)


def compliance6(c6):
    return np.linalg.inv(np.asarray(c6, float))


# --------------------------------------------------------------------------
# vectors of strain / stress
def strain_voigt(eps):
    """Engineering-strain 6-vector of a symmetric strain tensor."""
    eps = np.asarray(eps, float)
    return np.array([eps[i, j] * (1.0 if i == j else 2.0) for (i, j) in VOIGT_PAIRS])


def strain_from_voigt(e6):
    eps = np.zeros((3, 3))
    for a, (i, j) in enumerate(VOIGT_PAIRS):
        eps[i, j] = eps[j, i] = e6[a] / (1.0 if i == j else 2.0)
    return eps


def stress_voigt(sig):
    sig = np.asarray(sig, float)
    return np.array([sig[i, j] for (i, j) in VOIGT_PAIRS])


def stress_voigt_to_tensor(s6):
    sig = np.zeros((3, 3))
    for a, (i, j) in enumerate(VOIGT_PAIRS):
        sig[i, j] = sig[j, i] = s6[a]
    return sig


def nine_vector(t):
    t = np.asarray(t, float)
    return np.array([t[i, j] for (i, j) in NINE_PAIRS])


def stress(c4, eps):
    """sigma_ij = C_ijkl eps_kl."""
    return np.tensordot(np.asarray(c4, float), np.asarray(eps, float), axes=([2, 3], [0, 1]))


def energy(c4, eps):
    """Strain-energy density 1/2 eps:C:eps."""
    eps = np.asarray(eps, float)
    return 0.5 * float(np.tensordot(eps, stress(c4, eps), axes=([0, 1], [0, 1])))


def sym_identity():
    d = np.eye(3)
    return 0.5 * (np.einsum('ik,jl->ijkl', d, d) + np.einsum('il,jk->ijkl', d, d))


def contract(a4, b4):
    """(A:B)_ijmn = A_ijkl B_klmn."""
    return np.tensordot(np.asarray(a4, float), np.asarray(b4, float), axes=([2, 3], [0, 1]))


def symmetry_defect(t4):
    """(minor_left, minor_right, major) largest violations of T_ijkl=T_jikl, =T_ijlk, =T_klij."""
    t4 = np.asarray(t4, float)
    return (float(np.abs(t4 - t4.transpose(1, 0, 2, 3)).max()),
            float(np.abs(t4 - t4.transpose(0, 1, 3, 2)).max()),
            float(np.abs(t4 - t4.transpose(2, 3, 0, 1)).max()))


# --------------------------------------------------------------------------
# rotations
def unit_rows(axes):
    axes = np.asarray(axes, float)
    return axes / np.linalg.norm(axes, axis=1)[:, None]


def is_proper_rotation(r, tol=1e-10):
    r = np.asarray(r, float)
    return bool(np.abs(r @ r.T - np.eye(3)).max() < tol and abs(np.linalg.det(r) - 1) < tol)


def rot_axis(axis, angle):
    """Rodrigues rotation matrix (active rotation of vectors by ``angle`` about ``axis``)."""
    u = np.asarray(axis, float)
    u = u / np.linalg.norm(u)
    k = np.array([[0, -u[2], u[1]], [u[2], 0, -u[0]], [-u[1], u[0], 0]])
    return np.eye(3) + np.sin(angle) * k + (1 - np.cos(angle)) * (k @ k)


def random_rotation(rng):
    """Haar-distributed proper rotation (normalised Gaussian quaternion)."""
    q = rng.normal(size=4)
    q /= np.linalg.norm(q)
    w, x, y, z = q
    return np.array([[1 - 2 * (y * y + z * z), 2 * (x * y - z * w), 2 * (x * z + y * w)],
                     [2 * (x * y + z * w), 1 - 2 * (x * x + z * z), 2 * (y * z - x * w)],
                     [2 * (x * z - y * w), 2 * (y * z + x * w), 1 - 2 * (x * x + y * y)]])


def rotate4_by_index(t4, r):
    """T'_ijkl = R_ia R_jb R_kc R_ld T_abcd, literally one index at a time (slow reference)."""
    r = np.asarray(r, float)
    t = np.asarray(t4, float)
    for ax in range(4):
        t = np.moveaxis(np.tensordot(r, t, axes=([1], [ax])), 0, ax)
    return t


def rotate4(t4, r):
    """Same action written on the 9x9 unfolding: with Q_(ij)(ab) = R_ia R_jb = (R kron R),
    T'_(ij)(kl) = Q_(ij)(ab) T_(ab)(cd) Q_(kl)(cd)."""
    q = np.kron(np.asarray(r, float), np.asarray(r, float))
    return (q @ np.asarray(t4, float).reshape(9, 9) @ q.T).reshape(3, 3, 3, 3)


def rotate_voigt(c6, r):
    """Stiffness 6x6 expressed in the axes whose rows are ``r``."""
    return voigt_from_c4(rotate4(c4_from_voigt(c6), r))


def rotate_strain(eps, r):
    r = np.asarray(r, float)
    return r @ np.asarray(eps, float) @ r.T


# --------------------------------------------------------------------------
# crystal systems: symmetry generators (proper rotations) of the standard settings
_X, _Y, _Z = (1, 0, 0), (0, 1, 0), (0, 0, 1)
GENERATORS = {
    'isotropic': [rot_axis(_Z, 1.0), rot_axis(_X, 0.7)],                 # two generic rotations generate a dense subgroup
    'cubic': [rot_axis(_Z, np.pi / 2), rot_axis(_X, np.pi / 2), rot_axis((1, 1, 1), 2 * np.pi / 3)],
    'hexagonal': [rot_axis(_Z, 1.0)],                                    # rank-4 tensors cannot tell 6-fold from any angle
    'tetragonal-4': [rot_axis(_Z, np.pi / 2)],                           # classes 4, -4, 4/m (C16 allowed)
    'tetragonal-4mm': [rot_axis(_Z, np.pi / 2), rot_axis(_X, np.pi)],    # classes 422, 4mm, -42m, 4/mmm
    'rhombohedral-3': [rot_axis(_Z, 2 * np.pi / 3)],                     # classes 3, -3 (C15 allowed)
    'rhombohedral-32': [rot_axis(_Z, 2 * np.pi / 3), rot_axis(_X, np.pi)],   # classes 32, 3m, -3m
    'orthorhombic': [rot_axis(_X, np.pi), rot_axis(_Y, np.pi)],
    'monoclinic': [rot_axis(_Y, np.pi)],                                 # unique axis b
    'triclinic': [],
}
N_INDEPENDENT = {'isotropic': 2, 'cubic': 3, 'hexagonal': 5, 'tetragonal-4': 7, 'tetragonal-4mm': 6,
                 'rhombohedral-3': 7, 'rhombohedral-32': 6, 'orthorhombic': 9, 'monoclinic': 13, 'triclinic': 21}


def symmetry_rotations(system, rng=None):
    """Rotations that must leave a tensor of ``system`` unchanged: the fixed
    generators plus, for the continuous groups, freshly drawn members."""
    gens = list(GENERATORS[system])
    if rng is not None:
        if system == 'isotropic':
            gens.append(random_rotation(rng))
        elif system == 'hexagonal':
            gens.append(rot_axis(_Z, rng.uniform(0, 2 * np.pi)))
    return gens


def group_closure(gens, limit=200):
    """Finite group generated by ``gens`` (list of 3x3 matrices)."""
    elems = [np.eye(3)]
    frontier = [np.eye(3)]
    while frontier:
        new = []
        for a in frontier:
            for g in gens:
                p = g @ a
                if not any(np.abs(p - e).max() < 1e-9 for e in elems):
                    elems.append(p)
                    new.append(p)
                    if len(elems) > limit:
                        raise ValueError('group not finite')
        frontier = new
    return elems


_IU = np.triu_indices(6)


def _params_to_c6(p):
    c = np.zeros((6, 6))
    c[_IU] = p
    return c + np.triu(c, 1).T


def _c6_to_params(c6):
    return np.asarray(c6, float)[_IU]


_basis_cache = {}


def invariant_basis(system):
    """Orthonormal basis (21 x d) of the symmetric 6x6 matrices whose 4-index
    tensor is unchanged by every generator of ``system``."""
    if system in _basis_cache:
        return _basis_cache[system]
    gens = GENERATORS[system]
    if not gens:
        b = np.eye(21)
    else:
        rows = []
        for g in gens:
            m = np.zeros((21, 21))
            for k in range(21):
                e = np.zeros(21)
                e[k] = 1.0
                m[:, k] = _c6_to_params(rotate_voigt(_params_to_c6(e), g))
            rows.append(m - np.eye(21))
        a = np.vstack(rows)
        u, s, vt = np.linalg.svd(a)
        rank = int((s > 1e-9).sum())
        b = vt[rank:].T
    _basis_cache[system] = b
    return b


def named_position(name):
    """'C14' -> (0, 3)."""
    assert len(name) == 3 and name[0] == 'C', name
    return int(name[1]) - 1, int(name[2]) - 1


def _param_index(i, j):
    i, j = min(i, j), max(i, j)
    for k, (a, b) in enumerate(zip(*_IU)):
        if a == i and b == j:
            return k
    raise KeyError((i, j))


def system_tensor(system, named):
    """The unique 6x6 stiffness invariant under ``system``'s rotations whose
    entries at the named positions equal the given values."""
    b = invariant_basis(system)
    names = sorted(named)
    idx = [_param_index(*named_position(n)) for n in names]
    vals = np.array([float(named[n]) for n in names])
    a = b[idx, :]
    x, res, rank, sv = np.linalg.lstsq(a, vals, rcond=None)
    if rank < b.shape[1]:
        raise ValueError(f'{system}: named constants {names} do not determine the tensor (rank {rank} < {b.shape[1]})')
    if np.abs(a @ x - vals).max() > 1e-9 * max(1.0, np.abs(vals).max()):
        raise ValueError(f'{system}: inconsistent redundant constants')
    return _params_to_c6(b @ x)


# --------------------------------------------------------------------------
# isotropic moduli
ISO_NAMES = ('M', 'lambda', 'mu', 'E', 'nu', 'K')
ISO_PAIRS = tuple(itertools.combinations(ISO_NAMES, 2))        # all 15
ISO_ALIAS = {'M': 'C11', 'lambda': 'C12', 'mu': 'C44'}


def iso_c4(lam, mu):
    d = np.eye(3)
    return (lam * np.einsum('ij,kl->ijkl', d, d)
            + mu * (np.einsum('ik,jl->ijkl', d, d) + np.einsum('il,jk->ijkl', d, d)))


def iso_c6(lam, mu):
    return voigt_from_c4(iso_c4(lam, mu))


def iso_moduli(lam, mu):
    """All six moduli of the isotropic solid (lam, mu) from the forward textbook relations."""
    return {'lambda': lam, 'mu': mu, 'M': lam + 2 * mu, 'K': lam + 2 * mu / 3,
            'E': mu * (3 * lam + 2 * mu) / (lam + mu), 'nu': lam / (2 * (lam + mu))}


def iso_pair_condition(lam, mu, p, q, rel=4 * 2.2e-16):
    """First-order bound on the error of (lam, mu) recovered from the pair
    (p, q) when each given modulus carries a relative rounding error ``rel``:
    |J^-1| (rel |p|, rel |q|) with J = d(p,q)/d(lam,mu) (central differences of
    the forward relations).  Returns (dlam, dmu); inf where J is singular
    (the pair does not determine the material there)."""
    def f(lm):
        m = iso_moduli(lm[0], lm[1])
        return np.array([m[p], m[q]])
    x0 = np.array([lam, mu], float)
    scale = abs(lam) + abs(mu)
    h = 1e-6 * scale
    j = np.zeros((2, 2))
    for k in range(2):
        dx = np.zeros(2)
        dx[k] = h
        j[:, k] = (f(x0 + dx) - f(x0 - dx)) / (2 * h)
    v0 = f(x0)
    try:
        with np.errstate(all='ignore'):
            ji = np.abs(np.linalg.inv(j))
    except np.linalg.LinAlgError:
        return np.inf, np.inf
    if not np.isfinite(ji).all():
        return np.inf, np.inf
    d = ji @ (rel * np.abs(v0) + 1e-300)
    return float(d[0]), float(d[1])


# --------------------------------------------------------------------------
# polycrystal averages
def vrh(c6):
    """dict of Voigt / Reuss / Hill bulk and shear moduli from the full tensors."""
    c4 = c4_from_voigt(c6)
    s4 = s4_from_voigt(compliance6(c6))
    c_iijj = float(np.einsum('iijj->', c4))
    c_ijij = float(np.einsum('ijij->', c4))
    s_iijj = float(np.einsum('iijj->', s4))
    s_ijij = float(np.einsum('ijij->', s4))
    kv = c_iijj / 9
    gv = (3 * c_ijij - c_iijj) / 30
    kr = 1 / s_iijj
    gr = 15 / (6 * s_ijij - 2 * s_iijj)
    return {('bulk', 'Voigt'): kv, ('bulk', 'Reuss'): kr, ('bulk', 'Hill'): (kv + kr) / 2,
            ('shear', 'Voigt'): gv, ('shear', 'Reuss'): gr, ('shear', 'Hill'): (gv + gr) / 2}


# --------------------------------------------------------------------------
# random tensors
def cond6(c6):
    w = np.linalg.eigvalsh(np.asarray(c6, float))
    return float(w[-1] / w[0]) if w[0] > 0 else np.inf


def is_spd(c6):
    c6 = np.asarray(c6, float)
    return bool(np.allclose(c6, c6.T, rtol=0, atol=1e-12 * np.abs(c6).max()) and np.linalg.eigvalsh(c6)[0] > 0)


def random_orthogonal(rng, n):
    q, r = np.linalg.qr(rng.normal(size=(n, n)))
    return q * np.sign(np.diag(r))


def random_spd6(rng, cond):
    """Random SPD 6x6 with condition number exactly ``cond``: Q diag(w) Q^T, Q Haar-orthogonal,
    eigenvalues log-uniform between 1/cond and 1 (both ends attained); scaled to max |entry| 1."""
    u = np.sort(rng.uniform(0, 1, 6))
    u[0], u[-1] = 0.0, 1.0
    w = float(cond) ** (-u)
    q = random_orthogonal(rng, 6)
    c = (q * w) @ q.T
    c = (c + c.T) / 2
    return c / np.abs(c).max()


def selfcheck():
    """Hand-checkable facts about this module; raises AssertionError when one fails."""
    # index maps invert each other
    c6 = np.arange(36, dtype=float).reshape(6, 6)
    c6 = c6 + c6.T
    assert np.array_equal(voigt_from_c4(c4_from_voigt(c6)), c6)
    assert np.allclose(voigt_from_s4(s4_from_voigt(c6)), c6)
    c4 = c4_from_voigt(c6)
    assert c4[1, 2, 0, 1] == c6[3, 5] and c4[2, 0, 2, 2] == c6[4, 2] and c4[0, 0, 1, 1] == c6[0, 1]
    assert c9_from_voigt(c6)[7, 0] == c6[4, 0] and c9_from_voigt(c6)[8, 6] == c6[5, 3]
    assert np.array_equal(c9_from_voigt(c6), c9_from_c4(c4))
    assert s4_from_voigt(c6)[1, 2, 1, 2] == c6[3, 3] / 4 and s4_from_voigt(c6)[0, 0, 0, 1] == c6[0, 5] / 2
    # isotropic: C:S = I_sym, energy of a pure shear = 2 mu g^2 (eps_12 = eps_21 = g)
    lam, mu = 1.3, 0.8
    ci = iso_c6(lam, mu)
    assert np.allclose(ci[0, 0], lam + 2 * mu) and np.allclose(ci[0, 1], lam) and np.allclose(ci[3, 3], mu)
    assert np.allclose(contract(c4_from_voigt(ci), s4_from_voigt(compliance6(ci))), sym_identity(), atol=1e-14)
    eps = np.zeros((3, 3))
    eps[0, 1] = eps[1, 0] = 0.01
    assert np.isclose(energy(c4_from_voigt(ci), eps), 2 * mu * 1e-4)
    assert np.isclose(strain_voigt(eps) @ ci @ strain_voigt(eps) / 2, 2 * mu * 1e-4)
    v = vrh(ci)
    assert np.isclose(v['bulk', 'Voigt'], lam + 2 * mu / 3) and np.isclose(v['bulk', 'Reuss'], lam + 2 * mu / 3)
    assert np.isclose(v['shear', 'Voigt'], mu) and np.isclose(v['shear', 'Reuss'], mu)
    m = iso_moduli(lam, mu)
    assert np.isclose(m['E'], 9 * m['K'] * mu / (3 * m['K'] + mu)) and np.isclose(m['nu'], m['E'] / (2 * mu) - 1)
    # rotations: proper, composition rule of the tensor action, quarter turn about z maps x->y
    r = rot_axis(_Z, np.pi / 2)
    assert np.allclose(r @ np.array([1., 0, 0]), [0, 1, 0]) and is_proper_rotation(r)
    rng = np.random.default_rng(5)
    a, b = random_rotation(rng), random_rotation(rng)
    assert is_proper_rotation(a) and is_proper_rotation(b)
    t = c4_from_voigt(random_spd6(rng, 100.0))
    assert np.allclose(rotate4(rotate4(t, a), b), rotate4(t, b @ a), atol=1e-13)
    assert np.allclose(rotate4(t, a), rotate4_by_index(t, a), atol=1e-14)
    assert np.allclose(rotate4_by_index(t, a), np.einsum('ia,jb,kc,ld,abcd->ijkl', a, a, a, a, t), atol=1e-14)
    e = rng.normal(size=(3, 3))
    e = e + e.T
    assert np.isclose(energy(rotate4(t, a), rotate_strain(e, a)), energy(t, e))
    # dimension of every invariant subspace equals the number of independent constants
    for s, n in N_INDEPENDENT.items():
        assert invariant_basis(s).shape == (21, n), (s, invariant_basis(s).shape)
    # cubic with the three usual names: Cauchy-free entries and zeros where expected
    cc = system_tensor('cubic', {'C11': 3.0, 'C12': 1.0, 'C44': 0.7})
    assert np.allclose(cc[1, 1], 3) and np.allclose(cc[1, 2], 1) and np.allclose(cc[5, 5], .7) and abs(cc[0, 3]) < 1e-12
    ch = system_tensor('hexagonal', {'C11': 3.0, 'C12': 1.0, 'C13': .5, 'C33': 4., 'C44': .6})
    assert np.isclose(ch[5, 5], 1.0)
    assert len(group_closure(GENERATORS['cubic'])) == 24 and len(group_closure(GENERATORS['rhombohedral-32'])) == 6
    return True


if __name__ == '__main__':
    print('selfcheck', selfcheck())
