"""Independent reference for straight (Volterra) dislocations in linear
elasticity -- numpy only, never atomman.

Nothing here uses the Stroh sextic *eigenvector* formalism that the code under
test implements.  The references are:

* tensor algebra from the definitions: Voigt map 1=11 2=22 3=33 4=23 5=13 6=12,
  change of axes  C'_ijkl = R_ia R_jb R_kc R_ld C_abcd  (rows of R = new axes in
  old components),  sigma_ij = C_ijkl eps_kl;
* the field equations themselves, evaluated on the fields returned by the code
  under test with Richardson-extrapolated central differences:
  eps = sym grad u,  d sigma_ij / d x_j = 0,  homogeneity of degree -1,
  jump of u across the cut, net force on a circuit, strain energy of an annulus
  W = preln * ln(R/r0)  with  preln = int_0^2pi 1/2 sigma:eps (r=1) dtheta;
* the energy-coefficient tensor from the *integral* formalism
  (Barnett & Lothe 1973; Bacon, Barnett & Scattergood 1980, eq. 4.1-4.3):
      B = 1/(8 pi^2) int_0^2pi [ (mm) - (mn)(nn)^-1(nm) ] d omega ,   K = 4 pi B,
  where (ab)_jk = a_i C_ijkl b_l and m(omega), n(omega) rotate about the line;
* the sextic polynomial det[(mm) + p((mn)+(nm)) + p^2 (nn)] = 0 (Eshelby, Read
  & Shockley 1953) interpolated on the unit circle, used ONLY to keep inputs
  away from root degeneracy;
* the isotropic closed forms in the *polar* form of Hirth & Lothe, Theory of
  Dislocations, eqs. (3-2)/(3-3) (screw), (3-44)/(3-45) (edge):
      sigma_rr = sigma_tt = -D sin(t)/r,  sigma_rt = D cos(t)/r,  D = mu b/(2 pi (1-nu)),
      sigma_zz = nu (sigma_rr + sigma_tt),   sigma_tz = mu b_s/(2 pi r),
      u_x = b/2pi [ t + x y / (2(1-nu) r^2) ],
      u_y = -b/2pi [ (1-2nu)/(4(1-nu)) ln r^2 + (x^2-y^2)/(4(1-nu) r^2) ],  u_z = b_s t / 2pi,
  strain from Hooke's law eps = (sigma - nu/(1+nu) tr(sigma) I) / (2 mu);
* crystallography: the normal of (hkl) is the reciprocal-lattice vector
  h a* + k b* + l c*; a direction [uvw] is u a + v b + w c; Miller-Bravais
  [UVTW] = U a1 + V a2 + T a3 + W c with a3 = -(a1+a2); (hkil) -> (hkl).
"""
from __future__ import annotations

import numpy as np

VOIGT_PAIRS = ((0, 0), (1, 1), (2, 2), (1, 2), (0, 2), (0, 1))
_V = np.array([[0, 5, 4], [5, 1, 3], [4, 3, 2]])
_P = np.array(VOIGT_PAIRS)


# ----------------------------------------------------------------------------
# tensors
def c4_from_voigt(c6):
    c6 = np.asarray(c6, float)
    return c6[_V[:, :, None, None], _V[None, None, :, :]]


def voigt_from_c4(c4):
    c4 = np.asarray(c4, float)
    return c4[_P[:, 0, None], _P[:, 1, None], _P[None, :, 0], _P[None, :, 1]]


def rotate4(c4, R):
    """Components of the same tensor on the axes given by the rows of R."""
    R = np.asarray(R, float)
    return np.einsum('ia,jb,kc,ld,abcd->ijkl', R, R, R, R, np.asarray(c4, float), optimize=True)


def contract(c4, eps):
    """sigma_ij = C_ijkl eps_kl for eps of shape (...,3,3)."""
    return np.einsum('ijkl,...kl->...ij', np.asarray(c4, float), np.asarray(eps, float))


def iso_c4(lam, mu):
    d = np.eye(3)
    return (lam * np.einsum('ij,kl->ijkl', d, d)
            + mu * (np.einsum('ik,jl->ijkl', d, d) + np.einsum('il,jk->ijkl', d, d)))


def cubic_anisotropy4():
    """D_ijkl = 1 when i=j=k=l (in the crystal axes), else 0."""
    D = np.zeros((3, 3, 3, 3))
    for a in range(3):
        D[a, a, a, a] = 1.0
    return D


def is_spd6(c6, min_ratio=1e-3):
    w = np.linalg.eigvalsh(0.5 * (np.asarray(c6, float) + np.asarray(c6, float).T))
    return bool(w[0] > min_ratio * w[-1])


def unit(v):
    v = np.asarray(v, float)
    return v / np.linalg.norm(v)


def is_rotation(T, tol=1e-9):
    T = np.asarray(T, float)
    return bool(T.shape == (3, 3) and np.allclose(T @ T.T, np.eye(3), atol=tol) and abs(np.linalg.det(T) - 1) < tol)


def angle_deg(a, b):
    a, b = np.asarray(a, float), np.asarray(b, float)
    c = np.dot(a, b) / (np.linalg.norm(a) * np.linalg.norm(b))
    return float(np.degrees(np.arccos(np.clip(c, -1.0, 1.0))))


# ----------------------------------------------------------------------------
# sextic roots (conditioning guard only) and integral-formalism K
def _ab(c4, a, b):
    return np.einsum('i,ijkl,l->jk', a, c4, b)


def sextic_roots(c4, m, n):
    """The six roots p of det[(mm) + p((mn)+(nm)) + p^2 (nn)] = 0."""
    m, n = np.asarray(m, float), np.asarray(n, float)
    mm, mn, nm, nn = _ab(c4, m, m), _ab(c4, m, n), _ab(c4, n, m), _ab(c4, n, n)
    s = float(np.abs(nn).max())
    N = 8
    z = np.exp(2j * np.pi * np.arange(N) / N)
    vals = np.array([np.linalg.det((mm + p * (mn + nm) + p * p * nn) / s) for p in z])
    coef = np.fft.fft(vals) / N            # vals_k = sum_j c_j z_k^j  ->  c_j = (1/N) sum_k vals_k z_k^-j
    coef = coef[:7]
    return np.roots(coef[::-1])


def root_gap(c4, m, n):
    """(smallest distance between two distinct roots of the upper half plane,
    smallest imaginary part).  Degenerate (e.g. isotropic) media give gap ~ 0."""
    p = sextic_roots(c4, m, n)
    up = p[p.imag > 0]
    if len(up) != 3:
        return 0.0, 0.0
    gap = min(abs(up[0] - up[1]), abs(up[0] - up[2]), abs(up[1] - up[2]))
    return float(gap), float(up.imag.min())


def K_integral(c4, m, n, nquad=128):
    """K = 4 pi B (Barnett-Lothe) by the trapezoid rule, which converges
    geometrically for this periodic analytic integrand.  Returns (K, err) where
    err is the difference to the rule with half as many nodes."""
    m, n = np.asarray(m, float), np.asarray(n, float)

    def rule(N):
        w = 2 * np.pi * np.arange(N) / N
        M = np.cos(w)[:, None] * m + np.sin(w)[:, None] * n
        Nn = -np.sin(w)[:, None] * m + np.cos(w)[:, None] * n
        mm = np.einsum('wi,ijkl,wl->wjk', M, c4, M)
        mn = np.einsum('wi,ijkl,wl->wjk', M, c4, Nn)
        nn = np.einsum('wi,ijkl,wl->wjk', Nn, c4, Nn)
        nm = np.transpose(mn, (0, 2, 1))
        integrand = mm - np.einsum('wij,wjk->wik', mn, np.linalg.solve(nn, nm))
        # B = (1/8pi^2) * 2pi * mean = mean/(4pi);  K = 4pi B = mean
        return integrand.mean(axis=0)
    Kf = rule(nquad)
    Kh = rule(nquad // 2)
    return Kf, float(np.abs(Kf - Kh).max())


# ----------------------------------------------------------------------------
# isotropic closed forms (polar form), in the frame (m, n, xi)
def iso_K(mu, nu, m, n):
    m, n = unit(m), unit(n)
    xi = np.cross(m, n)
    return mu / (1 - nu) * (np.outer(m, m) + np.outer(n, n)) + mu * np.outer(xi, xi)


def iso_K_coeff(mu, nu, b, m, n):
    """mu (cos^2 beta + sin^2 beta / (1-nu)), beta = angle(b, xi) (Hirth & Lothe 3-87)."""
    xi = np.cross(unit(m), unit(n))
    b = np.asarray(b, float)
    c2 = (np.dot(b, xi)) ** 2 / np.dot(b, b)
    return mu * (c2 + (1 - c2) / (1 - nu))


def iso_fields(mu, nu, b, m, n, pos):
    """(u, eps, sigma) of the isotropic dislocation with Burgers vector b
    (components along m and xi only) at pos (N,3); cut along -m, theta in (-pi, pi]."""
    m, n = unit(m), unit(n)
    xi = np.cross(m, n)
    pos = np.asarray(pos, float).reshape(-1, 3)
    b = np.asarray(b, float)
    be, bs = np.dot(b, m), np.dot(b, xi)
    x, y = pos @ m, pos @ n
    r2 = x * x + y * y
    r = np.sqrt(r2)
    t = np.arctan2(y, x)
    ct, st = x / r, y / r
    # displacement
    ux = be / (2 * np.pi) * (t + x * y / (2 * (1 - nu) * r2))
    uy = -be / (2 * np.pi) * ((1 - 2 * nu) / (4 * (1 - nu)) * np.log(r2) + (x * x - y * y) / (4 * (1 - nu) * r2))
    uz = bs / (2 * np.pi) * t
    u = ux[:, None] * m + uy[:, None] * n + uz[:, None] * xi
    # stress in polar components (r, t, z)
    D = mu * be / (2 * np.pi * (1 - nu))
    sp = np.zeros((len(x), 3, 3))
    sp[:, 0, 0] = sp[:, 1, 1] = -D * st / r
    sp[:, 0, 1] = sp[:, 1, 0] = D * ct / r
    sp[:, 2, 2] = nu * (sp[:, 0, 0] + sp[:, 1, 1])
    sp[:, 1, 2] = sp[:, 2, 1] = mu * bs / (2 * np.pi * r)
    # polar -> (m, n, xi) components -> Cartesian
    er = ct[:, None] * m + st[:, None] * n
    et = -st[:, None] * m + ct[:, None] * n
    ez = np.broadcast_to(xi, er.shape)
    Q = np.stack([er, et, ez], axis=1)            # rows = polar unit vectors in Cartesian components
    sig = np.einsum('pai,pab,pbj->pij', Q, sp, Q)
    tr = np.trace(sig, axis1=1, axis2=2)
    eps = (sig - nu / (1 + nu) * tr[:, None, None] * np.eye(3)) / (2 * mu)
    return u, eps, sig


# ----------------------------------------------------------------------------
# finite differences on a field callable f(points (N,3)) -> (N,...)
def _cd(f, x, h, j):
    e = np.zeros(3)
    e[j] = 1.0
    hp = h[:, None] * e
    fp, fm = np.asarray(f(x + hp), float), np.asarray(f(x - hp), float)
    return (fp - fm) / (2 * h).reshape((-1,) + (1,) * (fp.ndim - 1))


def gradient(f, x, h):
    """Richardson-extrapolated central-difference gradient.
    Returns (G, est) with G[p, ..., j] = d f[p, ...] / d x_j and est the
    difference between the two step sizes (discretisation-error estimate of
    the coarse step; the extrapolated value is much better)."""
    x = np.asarray(x, float)
    h = np.broadcast_to(np.asarray(h, float), (len(x),)).copy()
    out, est = [], 0.0
    for j in range(3):
        d1 = _cd(f, x, h, j)
        d2 = _cd(f, x, h / 2, j)
        out.append((4 * d2 - d1) / 3)
        est = max(est, float(np.abs(d2 - d1).max()))
    return np.stack(out, axis=-1), est


def sym_grad(f, x, h):
    G, est = gradient(f, x, h)                     # G[p,i,j] = du_i/dx_j
    return 0.5 * (G + np.transpose(G, (0, 2, 1))), est


def divergence(f, x, h):
    G, est = gradient(f, x, h)                     # G[p,i,j,k] = d sigma_ij / dx_k
    return np.einsum('pijj->pi', G), est


# ----------------------------------------------------------------------------
# ring integrals
def ring(m, n, nquad=256, r=1.0, z=0.0):
    m, n = unit(m), unit(n)
    t = 2 * np.pi * (np.arange(nquad) + 0.25) / nquad       # never exactly on the cut
    rhat = np.cos(t)[:, None] * m + np.sin(t)[:, None] * n
    return r * rhat + z * np.cross(m, n), rhat, t


def energy_prefactor(eps_ring, sig_ring):
    """int_0^2pi 1/2 sigma:eps dtheta at r = 1 (= W / ln(R/r0))."""
    w = 0.5 * np.einsum('pij,pij->p', eps_ring, sig_ring)
    return float(w.mean() * 2 * np.pi)


def circuit_force(sig_ring, rhat, r=1.0):
    """Net force per unit length transmitted through the circle: int sigma.rhat r dtheta."""
    return np.einsum('pij,pj->pi', sig_ring, rhat).mean(axis=0) * 2 * np.pi * r


# ----------------------------------------------------------------------------
# crystallography
def reciprocal(vects):
    """Rows a*, b*, c* with a_i . a*_j = delta_ij."""
    return np.linalg.inv(np.asarray(vects, float)).T


def hkl3(hkl):
    hkl = np.asarray(hkl, float)
    if hkl.shape[-1] == 4:
        assert abs(hkl[0] + hkl[1] + hkl[2]) < 1e-12
        return np.array([hkl[0], hkl[1], hkl[3]])
    return hkl


def uvw_cart(uvw, vects):
    """Cartesian vector of [uvw] or Miller-Bravais [UVTW]."""
    uvw = np.asarray(uvw, float)
    v = np.asarray(vects, float)
    if uvw.shape[-1] == 4:
        a3 = -(v[0] + v[1])
        return uvw[0] * v[0] + uvw[1] * v[1] + uvw[2] * a3 + uvw[3] * v[2]
    return uvw @ v


def uvtw_from_uvw(uvw):
    """Integer Miller-Bravais indices of the direction [uvw] (same direction, length x3)."""
    u, v, w = (int(k) for k in uvw)
    return np.array([2 * u - v, 2 * v - u, -(u + v), 3 * w])


def hkil_from_hkl(hkl):
    h, k, l = (int(q) for q in hkl)
    return np.array([h, k, -(h + k), l])


def plane_normal(hkl, vects):
    g = hkl3(hkl) @ reciprocal(vects)
    return g / np.linalg.norm(g)


def miller_frame(vects, xi_uvw, slip_hkl):
    """Rows (m_c, n_c, xi_c): n_c along the reciprocal vector of (hkl), xi_c
    along [uvw], m_c = n_c x xi_c.  Requires the zone law h u + k v + l w = 0."""
    xi = unit(uvw_cart(xi_uvw, vects))
    nn = plane_normal(slip_hkl, vects)
    assert abs(np.dot(xi, nn)) < 1e-9, 'line not in plane'
    return np.array([np.cross(nn, xi), nn, xi])


def frame_to_mn(T0, m, n):
    """Transformation crystal Cartesian -> components in the frame whose
    m-, n-, xi-axes are the Cartesian unit vectors m, n, m x n."""
    m, n = np.asarray(m, float), np.asarray(n, float)
    P = np.array([m, n, np.cross(m, n)]).T
    return P @ np.asarray(T0, float)


# ----------------------------------------------------------------------------
def selfcheck():
    """Internal consistency of this module (used when developing it)."""
    rng = np.random.default_rng(5)
    lam, mu = 1.3, 0.8
    nu = lam / (2 * (lam + mu))
    c4 = iso_c4(lam, mu)
    assert np.allclose(voigt_from_c4(c4_from_voigt(voigt_from_c4(c4))), voigt_from_c4(c4))
    m, n = np.array([1.0, 0, 0]), np.array([0, 1.0, 0])
    K, err = K_integral(c4, m, n)
    assert np.allclose(K, iso_K(mu, nu, m, n), atol=1e-12), K
    p = sextic_roots(c4, m, n)
    assert np.allclose(np.abs(p.imag), 1, atol=1e-3) and np.allclose(p.real, 0, atol=1e-3), p
    # the closed forms satisfy the field equations
    x = rng.normal(size=(20, 3))
    b = np.array([0.7, 0.0, -0.4])
    f_u = lambda q: iso_fields(mu, nu, b, m, n, q)[0]
    f_s = lambda q: iso_fields(mu, nu, b, m, n, q)[2]
    keep = ~((x[:, 0] < 0) & (np.abs(x[:, 1]) < 0.05))
    x = x[keep]
    r = np.hypot(x[:, 0], x[:, 1])
    e_fd, _ = sym_grad(f_u, x, 1e-3 * r)
    u, e, s = iso_fields(mu, nu, b, m, n, x)
    assert np.abs(e_fd - e).max() < 1e-8 * np.abs(e).max(), np.abs(e_fd - e).max()
    assert np.allclose(contract(c4, e), s, atol=1e-12)
    d, _ = divergence(f_s, x, 1e-3 * r)
    assert np.abs(d).max() < 1e-7 * np.abs(s).max()
    pts, rhat, t = ring(m, n)
    u, e, s = iso_fields(mu, nu, b, m, n, pts)
    assert abs(energy_prefactor(e, s) - b @ iso_K(mu, nu, m, n) @ b / (4 * np.pi)) < 1e-12
    assert np.abs(circuit_force(s, rhat)).max() < 1e-12
    assert abs(iso_K_coeff(mu, nu, b, m, n) - b @ iso_K(mu, nu, m, n) @ b / (b @ b)) < 1e-12
    return True
