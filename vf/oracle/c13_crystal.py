"""C13 oracle, part 1: crystallography written from definitions (numpy only).

* Miller / Miller-Bravais index arithmetic (vector [uvw] = u a + v b + w c; plane
  normal (hkl) = h a* + k b* + l c* with a_i . a*_j = delta_ij; Miller-Bravais
  [UVTW] = U a1 + V a2 + T a3 + W c with a3 = -(a1 + a2)).
* the rotation that takes the crystal's slip-plane normal, line direction and
  their cross product onto the Cartesian axes requested for n, m x n and m.
* the "same infinite crystal" test: every atom of a system, mapped back through
  the inverse rotation and minus the rigid shift, must sit on a site of the unit
  cell's lattice (same type); all sites equally often; no site twice; the atoms
  fill the system's cell (count = volume ratio).
"""
from __future__ import annotations

import numpy as np


def vec4to3(ind):
    """[UVTW] -> [uvw] of the same vector (a3 = -a1 - a2)."""
    ind = np.asarray(ind, float)
    return np.stack([ind[..., 0] - ind[..., 2], ind[..., 1] - ind[..., 2], ind[..., 3]], axis=-1)


def plane4to3(ind):
    ind = np.asarray(ind, float)
    return np.stack([ind[..., 0], ind[..., 1], ind[..., 3]], axis=-1)


def as3(ind, plane=False):
    ind = np.asarray(ind, float)
    if ind.shape[-1] == 4:
        return plane4to3(ind) if plane else vec4to3(ind)
    return ind


def reciprocal(vects):
    """Rows a*_j with a_i . a*_j = delta_ij."""
    return np.linalg.inv(np.asarray(vects, float)).T


def cart(uvw, vects):
    return np.asarray(uvw, float) @ np.asarray(vects, float)


def plane_normal(hkl, vects):
    n = np.asarray(hkl, float) @ reciprocal(vects)
    return n / np.linalg.norm(n)


def unit(v):
    v = np.asarray(v, float)
    return v / np.linalg.norm(v)


AXES = {'x': np.array([1.0, 0, 0]), 'y': np.array([0, 1.0, 0]), 'z': np.array([0, 0, 1.0])}


def axis(v):
    return AXES[v].copy() if isinstance(v, str) else np.asarray(v, float)


def dislocation_rotation(vects, xi_uvw, hkl, m, n):
    """The proper rotation T (x_config = T x_crystal) with
         T n_hat = n,  T xi_hat = m x n,  T (n_hat x xi_hat) = m,
    n_hat = unit normal of (hkl), xi_hat = unit vector along [xi_uvw]."""
    m, n = axis(m), axis(n)
    xi_hat = unit(cart(as3(xi_uvw), vects))
    n_hat = plane_normal(as3(hkl, plane=True), vects)
    m_hat = np.cross(n_hat, xi_hat)
    A = np.array([m_hat, n_hat, xi_hat])          # crystal -> (m, n, xi) components
    B = np.array([m, n, np.cross(m, n)]).T        # (m, n, xi) components -> Cartesian
    return B @ A


def nn_distance(vects, rel):
    """Shortest interatomic distance of the infinite crystal (lattice + basis)."""
    vects = np.asarray(vects, float)
    rel = np.asarray(rel, float)
    rng = np.arange(-2, 3)
    ns = np.array(np.meshgrid(rng, rng, rng, indexing='ij')).reshape(3, -1).T
    best = np.inf
    for i in range(len(rel)):
        for j in range(len(rel)):
            d = (rel[j] - rel[i] + ns) @ vects
            ln = np.linalg.norm(d, axis=1)
            ln = ln[ln > 1e-9]
            best = min(best, ln.min())
    return float(best)


def plane_spacing_coords(vects, rel, normal):
    """Sorted distinct coordinates of the atomic planes along `normal` within one period."""
    c = np.sort((np.asarray(rel, float) @ np.asarray(vects, float)) @ normal)
    return c


class CrystalMatch:
    """Result of the same-crystal test."""

    def __init__(self):
        self.n = 0
        self.on_site = None        # bool per atom: sits on a lattice site of the right type
        self.site = None           # matched site index (or -1)
        self.cellidx = None        # integer lattice translation of the matched site
        self.mult = None           # hits per unit-cell site
        self.distinct = True
        self.max_err = 0.0

    @property
    def frac_on_site(self):
        return float(self.on_site.mean()) if self.n else 0.0

    @property
    def equal_mult(self):
        return bool(self.n and self.mult.min() == self.mult.max())


def same_crystal(pos, atype, T, shift, uvects, urel, utype, tol=1e-6):
    """Map pos back: x_crystal = T^-1 (x - shift); reduce modulo the unit-cell lattice;
    match a unit-cell site of equal type within tol (in units of the cell vectors)."""
    pos = np.asarray(pos, float)
    T = np.asarray(T, float)
    uvects = np.asarray(uvects, float)
    urel = np.asarray(urel, float)
    back = np.linalg.solve(T, (pos - np.asarray(shift, float)).T).T
    rel = np.linalg.solve(uvects.T, back.T).T
    r = CrystalMatch()
    r.n = len(pos)
    d = rel[:, None, :] - urel[None, :, :]
    k = np.round(d)
    err = np.abs(d - k).max(axis=2)                       # (N, nsites)
    typeok = np.asarray(atype)[:, None] == np.asarray(utype)[None, :]
    err = np.where(typeok, err, np.inf)
    j = np.argmin(err, axis=1)
    e = err[np.arange(len(pos)), j]
    r.on_site = e < tol
    r.max_err = float(np.max(e[np.isfinite(e)])) if np.isfinite(e).any() else float('inf')
    r.site = np.where(r.on_site, j, -1)
    r.cellidx = k[np.arange(len(pos)), j].astype(np.int64)
    r.mult = np.bincount(r.site[r.on_site], minlength=len(urel))
    keys = np.column_stack([r.cellidx, r.site])[r.on_site]
    r.distinct = len(np.unique(keys, axis=0)) == len(keys)
    return r


def expected_natoms(box_vects, uvects, nsites):
    return abs(np.linalg.det(np.asarray(box_vects, float))) / abs(np.linalg.det(np.asarray(uvects, float))) * nsites


def inside_cell(pos, vects, origin, tol=1e-7):
    """All box-relative coordinates in [0, 1) up to tol."""
    rel = np.linalg.solve(np.asarray(vects, float).T, (np.asarray(pos, float) - np.asarray(origin, float)).T).T
    return bool(np.all(rel > -tol) and np.all(rel < 1 + tol)), rel


def selfcheck():
    a = 4.0
    v = a * np.eye(3)
    fcc = np.array([[0, 0, 0], [.5, .5, 0], [.5, 0, .5], [0, .5, .5]])
    assert abs(nn_distance(v, fcc) - a / np.sqrt(2)) < 1e-12
    T = dislocation_rotation(v, [1, -1, 0], [1, 1, 1], 'y', 'z')
    assert np.allclose(T @ T.T, np.eye(3)) and abs(np.linalg.det(T) - 1) < 1e-12
    assert np.allclose(T @ unit([1, 1, 1]), [0, 0, 1]) and np.allclose(T @ unit([1, -1, 0]), [1, 0, 0])
    hexv = np.array([[3, 0, 0], [-1.5, 1.5 * np.sqrt(3), 0], [0, 0, 5]])
    assert np.allclose(cart(vec4to3([2, -1, -1, 0]), hexv), 3 * hexv[0])
    assert np.allclose(plane_normal(plane4to3([1, 0, -1, 0]), hexv), unit([np.sqrt(3) / 2, .5, 0]))
    # a rotated + shifted supercell is the same crystal; a twinned one is not
    ns = np.array(np.meshgrid(*[np.arange(3)] * 3, indexing='ij')).reshape(3, -1).T
    pts = np.vstack([(ns + b) @ v for b in fcc])
    sh = np.array([.3, -.2, .7])
    r = same_crystal(pts @ T.T + sh, np.ones(len(pts), int), T, sh, v, fcc, np.ones(4, int))
    assert r.frac_on_site == 1 and r.equal_mult and r.distinct
    R180 = np.diag([-1.0, -1.0, 1.0])
    r = same_crystal(pts @ (R180 @ T).T + sh, np.ones(len(pts), int), T, sh, v, fcc, np.ones(4, int))
    assert r.frac_on_site < 0.5
    return True


if __name__ == '__main__':
    print(selfcheck())
