"""C13 oracle, part 2: geometry of dislocation configurations (numpy/scipy only).

Written from the statements in the property and in the public documentation of
Dislocation.monopole / periodicarray, not from their implementation:

* boundary regions.  Cylinder: infinite cylinder (no end caps) whose axis passes
  through the Cartesian origin (the middle of the symmetric system) along the
  line-direction cell vector, radius = least distance from that axis to the four
  side faces of the reference system's cell, minus the boundary width.  Box: the
  four side faces moved inwards by the width.
* periodic array: number of atoms in the extra half plane(s) = N |b.m| / (2 L_m);
  the in-plane periodic cell vector changes by -sign(b.m) b/2 (the cell shrinks by
  the removed material); the uniform ("linear") field that spreads one Burgers
  vector of disregistry evenly over the period L_m:  u = sign(y) (1/4 - x / 2L) b.
* tail of the Volterra disregistry beyond a finite width.
"""
from __future__ import annotations

import numpy as np
from scipy.spatial import cKDTree


def side_face_distances(vects, origin, lineindex, point=(0.0, 0.0, 0.0)):
    """Distances from the straight line through `point` along vects[lineindex] to
    the four faces of the cell that contain the line direction."""
    vects = np.asarray(vects, float)
    origin = np.asarray(origin, float)
    point = np.asarray(point, float)
    others = [i for i in range(3) if i != lineindex]
    out = []
    for j in others:
        k = [i for i in others if i != j][0]
        nrm = np.cross(vects[lineindex], vects[k])       # normal of the faces spanned by line and k
        nrm = nrm / np.linalg.norm(nrm)
        out.append(abs((origin - point) @ nrm))              # face through the cell origin
        out.append(abs((origin + vects[j] - point) @ nrm))   # the opposite face
    return np.array(out)


def cylinder_radius(vects, origin, lineindex, width):
    return float(side_face_distances(vects, origin, lineindex).min() - width)


def dist_from_axis(pos, direction, point=(0.0, 0.0, 0.0)):
    d = np.asarray(direction, float)
    d = d / np.linalg.norm(d)
    p = np.asarray(pos, float) - np.asarray(point, float)
    perp = p - np.outer(p @ d, d)
    return np.linalg.norm(perp, axis=1)


def box_margin(pos, vects, origin, faces_of, width):
    """Smallest signed distance of each position to the faces `faces_of` (list of cell
    vector indices whose pair of faces counts) after moving them inwards by width:
    > 0 inside the reduced region, < 0 outside."""
    vects = np.asarray(vects, float)
    origin = np.asarray(origin, float)
    pos = np.asarray(pos, float)
    marg = np.full(len(pos), np.inf)
    for j in faces_of:
        k, l = [i for i in range(3) if i != j]
        nrm = np.cross(vects[k], vects[l])
        nrm = nrm / np.linalg.norm(nrm)
        if nrm @ vects[j] < 0:
            nrm = -nrm                                   # pointing from the lower to the upper face
        lo = (pos - origin) @ nrm - width
        hi = (origin + vects[j] - pos) @ nrm - width
        marg = np.minimum(marg, np.minimum(lo, hi))
    return marg


def expected_deleted(natoms, b, m, vect_motion):
    """N |b.m| / (2 L_m), L_m = |v_motion . m|."""
    return natoms * abs(np.dot(b, m)) / (2.0 * abs(np.dot(vect_motion, m)))


def array_motion_vector(vect_motion, b, m):
    """In-plane periodic vector of the array: reduced by half a Burgers vector so that
    the cell loses exactly the volume of the removed atoms."""
    s = 1.0 if np.dot(b, m) > 0 else -1.0
    return np.asarray(vect_motion, float) - s * np.asarray(b, float) / 2.0


def linear_field(rpos, b, L, m, n):
    """Uniformly spread disregistry: zero at x = +L/2, +-b/2 at x = -L/2, antisymmetric in y."""
    x = rpos @ m
    y = rpos @ n
    return np.outer(np.sign(y) * (0.25 - x / (2.0 * L)), b)


def tail(h, W):
    """Fraction of |b| missing from the disregistry of a Volterra dislocation sampled on
    the two planes at +-h/2 at distance W from the core: (1/pi) arctan(h / 2W) per side
    (isotropic screw; edge and anisotropic terms are of the same order)."""
    return np.arctan(h / (2.0 * W)) / np.pi


def min_image_residual(delta, vects, periodic):
    """Reduce delta (N,3) modulo the periodic cell vectors; returns (residual, integer coefficients)."""
    vects = np.asarray(vects, float)
    rel = np.linalg.solve(vects.T, np.asarray(delta, float).T).T
    k = np.zeros_like(rel)
    for i in periodic:
        k[:, i] = np.round(rel[:, i])
    return delta - k @ vects, k


def close_pairs(pos, vects, periodic, cutoff):
    """Pairs (i, j, distance, crosses) closer than cutoff counting images across the
    periodic cell vectors; crosses = the closest image is not the atom itself."""
    pos = np.asarray(pos, float)
    vects = np.asarray(vects, float)
    rngs = [(-1, 0, 1) if i in periodic else (0,) for i in range(3)]
    out = []
    tree = cKDTree(pos)
    for a in rngs[0]:
        for b in rngs[1]:
            for c in rngs[2]:
                sh = a * vects[0] + b * vects[1] + c * vects[2]
                cross = bool(a or b or c)
                other = cKDTree(pos + sh)
                sp = tree.sparse_distance_matrix(other, cutoff, output_type='coo_matrix')
                for i, j, dd in zip(sp.row, sp.col, sp.data):
                    if cross or i < j:
                        out.append((int(i), int(j), float(dd), cross))
    return out


def selfcheck():
    v = np.array([[10.0, 0, 0], [2.0, 8.0, 0], [0, 0, 6.0]])
    o = -0.5 * (v[1] + v[2])
    d = side_face_distances(v, o, 0)
    assert np.allclose(sorted(d), [3, 3, 4, 4]), d
    assert abs(cylinder_radius(v, o, 0, 1.0) - 2.0) < 1e-12
    assert np.allclose(dist_from_axis([[5, 3, 4]], v[0]), [5])
    mg = box_margin(np.array([[0.0, 0, 0], [0, 3.5, 0]]), v, o, [1, 2], 1.0)
    assert np.allclose(mg, [2.0, -0.5]), mg
    assert abs(expected_deleted(96, [2.0, 1.0, 0], [0, 1.0, 0], [0.3, 8.0, 0]) - 6) < 1e-12
    u = linear_field(np.array([[0, -4.0, 1], [0, 4.0, -1]]), np.array([0, 1.0, 0]), 8.0, np.array([0, 1.0, 0]), np.array([0, 0, 1.0]))
    assert np.allclose(u, [[0, .5, 0], [0, 0, 0]])
    p = np.array([[0.1, 0, 0], [9.95, 0, 0], [5, 5, 5]])
    cp = close_pairs(p, np.diag([10.0, 10, 10]), [0, 1], 0.5)
    assert len(cp) == 2 and all(c[3] for c in cp)
    return True


if __name__ == '__main__':
    print(selfcheck())
