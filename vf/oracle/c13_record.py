"""C13 oracle, part 3: dislocation reference records (standard library + numpy only).

A dislocation record is a document (JSON or XML, layout of atomman/library/xsd/dislocation.xsd)
whose ``calculation-parameter`` block states, as TEXT, everything Dislocation.fromrecord /
fromdatabase hand to the constructor.  This module

* writes such documents from plain Python values (``document`` -> ``to_json`` / ``to_xml``), in
  the spellings the schema and the documentation allow (Miller strings bare, bracketed, with a
  leading fraction; Booleans as 'True' / 'true' / 't' / 'False' / 'false' / 'f' in any case or as
  JSON booleans; optional elements present or absent);
* reads a document back with the standard-library parsers (never DataModelDict / atomman) and
  states what it MEANS (``stated``): plane, line, Burgers vector, axes, cell setting and the shift
  request (absolute / relative to the rotated cell / index / none), following the documented
  meaning of each element:
    - Miller strings: "[1 0 0]", "1/2 [1 1 0]", "[0 0 0 1]", "1/3 [1 1 -2 0]", or bare numbers;
    - Booleans (atomman.tools.boolean): 'true'/'t' -> True, 'false'/'f' -> False, a Boolean is itself;
    - m, n default to '0 1 0' and '0 0 1', conventional_setting to 'p', shiftscale to False;
    - shift and shiftindex are alternatives; neither = first offered shift.
"""
from __future__ import annotations

import json
import xml.etree.ElementTree as ET
from fractions import Fraction
from xml.sax.saxutils import escape

import numpy as np

ROOT = 'dislocation'
PARAM = 'calculation-parameter'
XI = 'ξ_uvw'

TRUE_WORDS = ('true', 't')
FALSE_WORDS = ('false', 'f')

# multiplicity of the centred conventional cells (lattice points per cell)
CENTRING = {'p': 1, 'i': 2, 'f': 4, 'a': 2, 'b': 2, 'c': 2, 't1': 3, 't2': 3}


# --------------------------------------------------------------------------- #
# writing

def number_text(x):
    """Shortest text that reads back as exactly the same float64."""
    return repr(float(x))


def miller_text(vec, style):
    """Text of an index vector.  'bare': plain numbers; 'bracket': "[h k l]" (integers only);
    'fraction': "p/q [u v w]" with the smallest q in 1..12 that makes q*vec integral."""
    v = np.asarray(vec, float)
    if style == 'bare':
        return ' '.join(number_text(x) for x in v)
    for q in range(1, 13):
        w = v * q
        if np.abs(w - np.round(w)).max() < 1e-9:
            ints = ' '.join(str(int(round(x))) for x in w)
            if style == 'bracket' and q == 1:
                return f'[{ints}]'
            return f'1/{q} [{ints}]'
    return ' '.join(number_text(x) for x in v)


def document(params, key='00000000-0000-4000-8000-000000000000', id_='vf--test--dislocation', character='mixed',
             burgers_text='b', plane=(0, 0, 1), line=(1, 0, 0), family='vf--family'):
    """Ordered content of a record; params = ordered mapping of the calculation parameters (values: str, bool, int)."""
    return [('key', key), ('id', id_), ('character', character), ('Burgers-vector', burgers_text),
            ('slip-plane', [int(x) for x in plane]), ('line-direction', [int(x) for x in line]),
            ('system-family', family), (PARAM, list(params.items()))]


def to_json(doc):
    def obj(pairs):
        return {k: (obj(v) if isinstance(v, list) and v and isinstance(v[0], tuple) else v) for k, v in pairs}
    return json.dumps({ROOT: obj(doc)}, indent=1)


def to_xml(doc):
    def elem(k, v):
        if isinstance(v, list) and v and isinstance(v[0], tuple):
            return f'<{k}>' + ''.join(elem(a, b) for a, b in v) + f'</{k}>'
        if isinstance(v, list):
            return ''.join(elem(k, x) for x in v)
        if isinstance(v, bool):
            v = 'true' if v else 'false'
        return f'<{k}>{escape(str(v))}</{k}>'
    return '<?xml version="1.0" encoding="utf-8"?>\n' + elem(ROOT, doc)


# --------------------------------------------------------------------------- #
# reading

def read_parameters(text):
    """The calculation parameters of a JSON or XML record as a dict of str / bool / int (as written)."""
    if isinstance(text, bytes):
        text = text.decode('utf-8')
    t = text.lstrip()
    if t.startswith('{'):
        return dict(json.loads(t)[ROOT][PARAM])
    root = ET.fromstring(t.encode('utf-8'))
    assert root.tag == ROOT
    return {e.tag: (e.text or '') for e in root.find(PARAM)}


def parse_miller(text):
    """Index vector of a Miller string (see module docstring)."""
    s = str(text).strip()
    frac = Fraction(1)
    for o, c in ('[]', '()', '<>', '{}'):
        if o in s:
            head, rest = s.split(o, 1)
            body = rest.split(c, 1)[0]
            if head.strip():
                frac = Fraction(head.strip().replace(' ', ''))
            vals = [float(x) for x in body.split()]
            break
    else:
        vals = [float(x) for x in s.split()]
    assert len(vals) in (3, 4), text
    return np.array(vals, float) * float(frac) if frac != 1 else np.array(vals, float)


def stated_bool(v):
    if isinstance(v, bool):
        return v
    w = str(v).strip().lower()
    if w in TRUE_WORDS:
        return True
    if w in FALSE_WORDS:
        return False
    raise ValueError(f'not a Boolean word: {v!r}')


def stated(params):
    """What a parameter block means.  shift_kind: 'absolute' | 'relative' | 'index' | 'default'."""
    out = dict(hkl=parse_miller(params['slip_hkl']), xi=parse_miller(params[XI]), burgers=parse_miller(params['burgers']),
               m=np.array([float(x) for x in str(params.get('m', '0 1 0')).split()]),
               n=np.array([float(x) for x in str(params.get('n', '0 0 1')).split()]),
               setting=str(params.get('conventional_setting', 'p')),
               scale=stated_bool(params.get('shiftscale', False)))
    if params.get('shift') is not None:
        out['shift'] = np.array([float(x) for x in str(params['shift']).split()])
        out['shift_kind'] = 'relative' if out['scale'] else 'absolute'
        out['both'] = params.get('shiftindex') is not None
    elif params.get('shiftindex') is not None:
        out['index'] = int(str(params['shiftindex']).strip())
        out['shift_kind'] = 'index'
    else:
        out['shift_kind'] = 'default'
    return out


def stated_shift(st, rcell_vects, offered):
    """Cartesian shift a record asks for, given the rotated cell's vectors (rows) and the offered shifts."""
    k = st['shift_kind']
    if k == 'absolute':
        return st['shift'].copy()
    if k == 'relative':
        return st['shift'] @ np.asarray(rcell_vects, float)
    if k == 'index':
        return np.array(np.asarray(offered, float)[st['index']])
    return np.array(np.asarray(offered, float)[0])


def selfcheck():
    p = {'slip_hkl': '[1 1 1]', XI: '1/2 [1 1 -2]', 'burgers': '0.5 -0.5 0.0', 'm': '0 1 0', 'shift': '0.1 0.2 ' + number_text(1 / 3),
         'shiftscale': 'False', 'conventional_setting': 'f'}
    for text in (to_json(document(p)), to_xml(document(p))):
        q = read_parameters(text)
        assert q == p, (q, p)
        s = stated(q)
        assert s['shift_kind'] == 'absolute' and s['shift'][2] == 1 / 3 and s['setting'] == 'f'
        assert np.allclose(s['xi'], [.5, .5, -1]) and np.allclose(s['n'], [0, 0, 1])
    assert miller_text([.5, -.5, 0], 'fraction') == '1/2 [1 -1 0]' and miller_text([1, 0, -1], 'bracket') == '[1 0 -1]'
    assert np.allclose(parse_miller('1/3 [2 -1 -1 0]'), [2 / 3, -1 / 3, -1 / 3, 0])
    assert stated_bool('T') is True and stated_bool('false') is False and stated_bool(True) is True
    assert stated({**p, 'shiftscale': 't'})['shift_kind'] == 'relative'
    assert stated({k: v for k, v in p.items() if k not in ('shift', 'shiftscale')} | {'shiftindex': '1'})['index'] == 1
    return True


if __name__ == '__main__':
    print(selfcheck())
