"""C14 oracle: lattice planes, centred settings and the "same crystal" test.

Written from crystallographic definitions; numpy only, never atomman.

Conventions (row vectors throughout):
* ``vects`` (3,3): rows are the cell vectors in Cartesian coordinates.
* reciprocal rows r_j satisfy vects[i].r_j = delta_ij (no 2*pi).
* plane (hkl) of a cell has normal g = h a* + k b* + l c*; a lattice vector
  [uvw] of the same cell lies in the plane iff hu+kv+lw = 0 (zone law).
* a centred ("conventional") cell with centring symbol S is related to its
  primitive cell by  prim_vects = CENTRING[S] @ conv_vects : row i of
  CENTRING[S] gives the i-th primitive vector in fractional conventional
  coordinates (International Tables style centring vectors; the particular
  choice of primitive vectors is the one atomman documents in
  ``miller.vector_primitive_to_conventional``; it is an interface convention,
  the inverse map is computed numerically here).
* the code's ``transform`` T maps ucell Cartesian components to rotated-cell
  components as column vectors, x_r = T x_u, i.e. rows: X_r = X_u @ T.T.
"""
from __future__ import annotations

import itertools
from fractions import Fraction
from math import gcd

import numpy as np

CENTRING = {
    'p': np.eye(3),
    'a': np.array([[1, 0, 0], [0, .5, .5], [0, -.5, .5]]),
    'b': np.array([[.5, 0, .5], [0, 1, 0], [-.5, 0, .5]]),
    'c': np.array([[.5, .5, 0], [-.5, .5, 0], [0, 0, 1]]),
    'i': np.array([[.5, .5, .5], [-.5, .5, -.5], [-.5, -.5, .5]]),
    'f': np.array([[.5, .5, 0], [0, .5, .5], [.5, 0, .5]]),
    't1': np.array([[2, 1, 1], [-1, 1, 1], [-1, -2, 1]]) / 3.0,
    't2': np.array([[-2, -1, 1], [1, -1, 1], [1, 2, 1]]) / 3.0,
}
# denominators that make CENTRING[S] integral
DENOM = {'p': 1, 'a': 2, 'b': 2, 'c': 2, 'i': 2, 'f': 2, 't1': 3, 't2': 3}


def conv_vects(prim_vects, setting):
    """Conventional cell vectors (Cartesian, same frame as prim_vects)."""
    return np.linalg.solve(CENTRING[setting], np.asarray(prim_vects, float))


def prim_to_conv_indices(uvw_prim, setting):
    return np.asarray(uvw_prim, float) @ CENTRING[setting]


def conv_to_prim_indices(uvw_conv, setting):
    return np.linalg.solve(CENTRING[setting].T, np.asarray(uvw_conv, float).T).T


def reciprocal(vects):
    """Rows are a*, b*, c* (vects @ reciprocal.T = identity)."""
    return np.linalg.inv(np.asarray(vects, float)).T


def hkil_to_hkl(hkil):
    h, k, i, l = (int(x) for x in hkil)
    if h + k + i != 0:
        raise ValueError('h+k+i != 0')
    return np.array([h, k, l], int)


def uvtw_to_uvw(uvtw):
    """[uvtw] = u a1 + v a2 + t a3 + w c with a3 = -(a1+a2)  ->  [u-t, v-t, w]."""
    x = np.asarray(uvtw, float)
    return np.stack([x[..., 0] - x[..., 2], x[..., 1] - x[..., 2], x[..., 3]], axis=-1)


def plane_normal(hkl, cell_vects):
    """g = h a* + k b* + l c* of the cell the indices refer to."""
    return np.asarray(hkl, float) @ reciprocal(cell_vects)


def is_integer(x, tol=1e-9):
    x = np.asarray(x, float)
    return bool(np.all(np.abs(x - np.rint(x)) <= tol))


def zone_products(hkl, uvws_prim, setting):
    """Exact (rational) h.u for primitive-cell vectors against conventional-cell
    plane indices: u_conv = u_prim @ CENTRING.  Returns list of Fractions."""
    C = CENTRING[setting]
    d = DENOM[setting]
    Ci = np.rint(C * d).astype(int)
    out = []
    for row in np.rint(np.asarray(uvws_prim, float)).astype(int):
        uc = row @ Ci                      # conventional indices times d
        out.append(Fraction(int(np.dot(np.asarray(hkl, int), uc)), d))
    return out


def default_maxindex(hkl, setting):
    """The documented default search bound: the largest absolute index among the
    plane indices and the two initial in-plane vectors of Sun & Ceder's
    construction (Surf. Sci. 617 (2013) 53): for all-nonzero (hkl) with
    m = lcm(h,k,l): [-m/h, m/k, 0] and [-m/h, 0, m/l]; with one zero index the
    pair reduces to the axis of the zero index and the vector built from the
    other two; with two zero indices to the two axes.  The vectors are
    conventional-cell vectors and are expressed in the primitive cell first."""
    h = [int(x) for x in hkl]
    nz = [i for i in range(3) if h[i] != 0]
    vs = []
    if len(nz) == 3:
        m = abs(h[0] * h[1] // gcd(h[0], h[1]))
        m = abs(m * h[2] // gcd(m, h[2]))
        vs = [[-m // h[0], m // h[1], 0], [-m // h[0], 0, m // h[2]]]
    elif len(nz) == 2:
        i, j = nz
        z = [k for k in range(3) if h[k] == 0][0]
        m = abs(h[i] * h[j] // gcd(h[i], h[j]))
        v = [0, 0, 0]
        v[i], v[j] = -m // h[i], m // h[j]
        e = [0, 0, 0]
        e[z] = 1
        vs = [v, e]
    else:
        for k in range(3):
            if h[k] == 0:
                e = [0, 0, 0]
                e[k] = 1
                vs.append(e)
    vp = conv_to_prim_indices(np.array(vs, float), setting)
    return int(round(max(np.abs(vp).max(), max(abs(x) for x in h))))


def search_space(hkl, setting, M):
    """What exists inside the index cube [-M,M]^3 of the primitive cell:
    (#in-plane vectors, rank of the in-plane set, #out-of-plane vectors)."""
    C = np.rint(CENTRING[setting] * DENOM[setting]).astype(int)
    rng = np.arange(-M, M + 1)
    u = np.array(list(itertools.product(rng, rng, rng)), int)
    u = u[np.abs(u).sum(axis=1) > 0]
    z = (u @ C) @ np.asarray(hkl, int)
    inpl = u[z == 0]
    rank = int(np.linalg.matrix_rank(inpl.astype(float))) if len(inpl) else 0
    return len(inpl), rank, int((z != 0).sum()), inpl


def normal_parallel_vector_exists(g, prim_vects, M, tol=1e-9):
    """Is some primitive-cell lattice vector with indices in [-M,M] parallel to g?"""
    rng = np.arange(-M, M + 1)
    u = np.array(list(itertools.product(rng, rng, rng)), float)
    u = u[np.abs(u).sum(axis=1) > 0]
    c = u @ np.asarray(prim_vects, float)
    gh = np.asarray(g, float) / np.linalg.norm(g)
    cr = np.linalg.norm(np.cross(c, gh), axis=1) / np.linalg.norm(c, axis=1)
    return bool(np.any(cr < tol))


def lammps_frame(vects):
    """Orthonormal frame (rows x,y,z) of the LAMMPS orientation of a right-handed cell:
    x along a, y in the (a,b) plane, z = x cross y."""
    v = np.asarray(vects, float)
    x = v[0] / np.linalg.norm(v[0])
    y = v[1] - np.dot(v[1], x) * x
    y /= np.linalg.norm(y)
    z = np.cross(x, y)
    return np.array([x, y, z])


def cut_compatible(cell_cart, cut, tol=1e-9):
    """Can a cell with these vectors (rows a,b,c) be a slab cell whose two
    in-plane vectors have no component along Cartesian axis ``cut`` once the
    cell is put in LAMMPS orientation?  Returns (bool, largest offending component / L)."""
    v = np.asarray(cell_cart, float)
    F = lammps_frame(v)
    comp = v @ F.T                        # components in the LAMMPS frame
    L = np.linalg.norm(v, axis=1).max()
    inpl = [i for i in range(3) if i != cut]
    worst = float(np.abs(comp[inpl, cut]).max() / L)
    return worst < tol, worst


# --------------------------------------------------------------------------- same crystal

def frac(points, vects, origin):
    p = np.asarray(points, float) - np.asarray(origin, float)
    return np.linalg.solve(np.asarray(vects, float).T, p.T).T


class Crystal:
    """The infinite crystal generated by a unit cell (vects, origin, fractional sites, types)."""

    def __init__(self, vects, origin, sites_frac, types):
        self.vects = np.asarray(vects, float)
        self.origin = np.asarray(origin, float)
        self.sites = np.asarray(sites_frac, float) % 1.0
        self.types = np.asarray(types, int)
        self.L = float(np.linalg.norm(self.vects, axis=1).max())

    def match(self, pos_u, types, tol):
        """For Cartesian positions in the ucell frame: index of the crystal site each
        one sits on (-1 if none / wrong type) and the integer lattice translation."""
        f = frac(pos_u, self.vects, self.origin)
        d = f[:, None, :] - self.sites[None, :, :]
        n = np.rint(d)
        dc = (d - n) @ self.vects
        dist = np.linalg.norm(dc, axis=2)
        j = np.argmin(dist, axis=1)
        ok = dist[np.arange(len(f)), j] <= tol
        ok &= self.types[j] == np.asarray(types, int)
        site = np.where(ok, j, -1)
        trans = n[np.arange(len(f)), j].astype(int)
        return site, trans, dist[np.arange(len(f)), j]

    def find_translation(self, pos_u, types, tol, prefer=None):
        """A rigid translation t (ucell frame) such that pos_u - t lies on the crystal:
        try to put atom 0 on every site of its type (``prefer``: the site to try first, so that
        a crystal with extra translational symmetry is not mapped onto itself with permuted sites)."""
        pos_u = np.asarray(pos_u, float)
        best = None
        cand = [int(x) for x in np.nonzero(self.types == int(types[0]))[0]]
        if prefer is not None and prefer in cand:
            cand.remove(prefer)
            cand.insert(0, prefer)
        for s in cand:
            site_cart = self.sites[s] @ self.vects + self.origin
            t = pos_u[0] - site_cart
            site, _, dist = self.match(pos_u - t, types, tol)
            bad = int((site < 0).sum())
            if best is None or bad < best[1]:
                best = (t, bad, float(dist.max()))
            if bad == 0:
                break
        return best


def coincident_pairs(pos, vects, origin, periodic, tol):
    """Number of pairs of atoms that coincide modulo the periodic cell vectors."""
    f = frac(pos, vects, origin)
    n = len(f)
    if n < 2:
        return 0
    d = f[:, None, :] - f[None, :, :]
    for k in range(3):
        if periodic[k]:
            d[..., k] -= np.rint(d[..., k])
    dc = np.linalg.norm(d @ np.asarray(vects, float), axis=2)
    iu = np.triu_indices(n, 1)
    return int((dc[iu] <= tol).sum())


def layer_heights(coords, period, merge):
    """Distinct atomic layer heights modulo ``period`` (values closer than ``merge`` are one layer).
    Returns sorted heights in [0, period) and the smallest gap between neighbouring layers (cyclic)."""
    c = np.sort(np.asarray(coords, float) % period)
    layers = [c[0]]
    for x in c[1:]:
        if x - layers[-1] > merge:
            layers.append(x)
    if len(layers) > 1 and (layers[0] + period) - layers[-1] <= merge:
        layers.pop()
    layers = np.array(layers)
    gaps = np.diff(np.append(layers, layers[0] + period))
    return layers, float(gaps.min())


def match_sets(pos_a, types_a, pos_b, types_b, vects, origin, periodic, tol):
    """Is {a} the same set of typed points as {b} modulo the periodic cell vectors?
    Returns number of a-atoms without a private partner in b."""
    fa = frac(pos_a, vects, origin)
    fb = frac(pos_b, vects, origin)
    d = fa[:, None, :] - fb[None, :, :]
    for k in range(3):
        if periodic[k]:
            d[..., k] -= np.rint(d[..., k])
    dc = np.linalg.norm(d @ np.asarray(vects, float), axis=2)
    same = (dc <= tol) & (np.asarray(types_a)[:, None] == np.asarray(types_b)[None, :])
    # a perfect matching exists iff every row and every column has exactly one hit (points are distinct)
    return int((same.sum(axis=1) != 1).sum() + (same.sum(axis=0) != 1).sum())
