"""C15 oracle: site lookup and the old-index composition model of point-defect
insertion.  Written from the documented behaviour (docstrings of
atomman/defect/point.py and the property statement); numpy only, never atomman.

Vocabulary
----------
snapshot  : ``Snap`` - plain copy of everything a System holds (cell vectors,
            origin, pbc, symbols, per-atom property arrays in their order).
op        : dict(type='v'|'i'|'s'|'db', site=k or None, pos=cartesian position of
            an interstitial, db=cartesian dumbbell vector, atype=new type of a
            substitutional (None = documented default 1), kw=per-atom values
            requested for the new atom).
expected  : ``expected(snap, op)`` - the system the documentation promises.
"""
from __future__ import annotations

from collections import OrderedDict

import numpy as np

from . import geometry as G

COUNT_CHANGE = {'v': -1, 'i': +1, 's': 0, 'db': +1}


class _Free:
    """Marker: the value is not prescribed (old_id of a created atom); it only
    has to differ from every other old_id so that survivors stay identified."""
    def __repr__(self):
        return 'FREE'


FREE = _Free()


class Snap:
    def __init__(self, vects, origin, pbc, symbols, props, masses=None):
        self.vects = np.array(vects, float)
        self.origin = np.array(origin, float)
        self.pbc = tuple(bool(x) for x in pbc)
        self.symbols = tuple(symbols)
        self.masses = None if masses is None else tuple(masses)
        self.props = OrderedDict((k, np.array(v, copy=True)) for k, v in props.items())

    @property
    def n(self):
        return len(self.props['atype'])

    @property
    def pos(self):
        return self.props['pos']


def snap_equal(a: Snap, b: Snap):
    """Deep equality of two snapshots; returns (ok, first difference)."""
    if not np.array_equal(a.vects, b.vects):
        return False, 'vects'
    if not np.array_equal(a.origin, b.origin):
        return False, 'origin'
    if a.pbc != b.pbc:
        return False, 'pbc'
    if a.symbols != b.symbols:
        return False, 'symbols'
    if list(a.props) != list(b.props):
        return False, 'property names'
    for k in a.props:
        x, y = a.props[k], b.props[k]
        if x.dtype != y.dtype:
            return False, f'dtype of {k}'
        if x.shape != y.shape:
            return False, f'shape of {k}'
        if not np.array_equal(x, y):
            return False, f'values of {k}'
    return True, ''


# ---------------------------------------------------------------- site lookup
def sep27(p, atoms_pos, vects, pbc):
    """Periodic distance (in the sense of C02: shortest of the <= 27 candidates
    with shifts in {-1,0,1} along periodic directions) of point p from every atom."""
    d = np.asarray(atoms_pos, float).reshape(-1, 3) - np.asarray(p, float)
    ln, _, _ = G.min27(d, vects, pbc)
    return ln


def lookup(p, atoms_pos, vects, pbc, atol):
    """Indices of the atoms within atol of p, and all distances."""
    s = sep27(p, atoms_pos, vects, pbc)
    return np.nonzero(s <= atol)[0], s


def decisive(sep, atol, lo=0.75, hi=1.5):
    """No atom sits near the decision boundary |d| = atol."""
    sep = np.asarray(sep)
    return not bool(np.any((sep > lo * atol) & (sep < hi * atol)))


def min_pair_sep(pos, vects, pbc):
    pos = np.asarray(pos, float)
    n = len(pos)
    if n < 2:
        return np.inf
    d = pos[None, :, :] - pos[:, None, :]
    ln, _, _ = G.min27(d, vects, pbc)
    ln = ln + np.where(np.eye(n, dtype=bool), np.inf, 0.0)
    return float(ln.min())


def normalise_index(k, n):
    """Python-style atom index -> 0..n-1, or None if out of range."""
    k = int(k)
    if k < 0:
        k += n
    if k < 0 or k >= n:
        return None
    return k


# ---------------------------------------------------------------- expectation
class Expected:
    def __init__(self):
        self.n = 0
        self.nsurv = 0            # number of leading atoms that are untouched survivors
        self.order = []           # source index (in the input) of each survivor
        self.props = OrderedDict()    # name -> expected array (all atoms)
        self.old_id = []          # expected old_id per atom (int or FREE)
        self.names = []           # expected property names in order
        self.symbols_prefix = ()


def _zeros_like_row(arr):
    return np.zeros(arr.shape[1:], dtype=arr.dtype)


def expected(snap: Snap, op: dict) -> Expected:
    """What the documentation promises for ``op`` applied to ``snap``:

    vacancy        : the atom is removed;
    interstitial   : a new atom is appended: requested pos, atype = kw['atype'] or 1,
                     every other property = kw value or zeros;
    substitutional : the atom is moved to the end with its atype changed (default 1),
                     other properties = kw value or unchanged, position unchanged;
    dumbbell       : the atom and a copy of it are moved to the end, displaced by
                     -db / +db; the copy's properties = kw value or unchanged;
    old_id         : created from the input's atom indices if the input has none,
                     otherwise carried along (so it composes over insertions).
    """
    t = op['type']
    n = snap.n
    kw = dict(op.get('kw') or {})
    k = op.get('site')
    e = Expected()
    if t == 'i':
        order = list(range(n))
    else:
        assert k is not None and 0 <= k < n
        order = [j for j in range(n) if j != k]
    e.order = order
    e.nsurv = len(order)
    base_old = np.array(snap.props['old_id']) if 'old_id' in snap.props else np.arange(n)
    names = [p for p in snap.props if p != 'old_id']

    tails = {p: [] for p in names}
    told = []
    if t == 'v':
        pass
    elif t == 'i':
        for p in names:
            if p == 'atype':
                tails[p].append(kw.get('atype', 1))
            elif p == 'pos':
                tails[p].append(np.asarray(op['pos'], float))
            else:
                tails[p].append(kw[p] if p in kw else _zeros_like_row(snap.props[p]))
        told.append(kw['old_id'] if 'old_id' in kw else FREE)
    elif t == 's':
        at = op.get('atype')
        for p in names:
            if p == 'atype':
                tails[p].append(1 if at is None else at)
            elif p == 'pos':
                tails[p].append(snap.props[p][k])
            else:
                tails[p].append(kw[p] if p in kw else snap.props[p][k])
        told.append(kw['old_id'] if 'old_id' in kw else base_old[k])
    elif t == 'db':
        db = np.asarray(op['db'], float)
        for p in names:
            if p == 'pos':
                tails[p].append(snap.props[p][k] - db)
                tails[p].append(snap.props[p][k] + db)
            else:
                tails[p].append(snap.props[p][k])
                tails[p].append(kw[p] if p in kw else snap.props[p][k])
        told.append(base_old[k])
        told.append(kw['old_id'] if 'old_id' in kw else FREE)
    else:
        raise ValueError(t)

    for p in names:
        a = snap.props[p]
        surv = a[order]
        if tails[p]:
            tail = np.array([np.asarray(x) for x in tails[p]]).astype(a.dtype if p != 'pos' else float)
            tail = tail.reshape((len(tails[p]),) + a.shape[1:])
            e.props[p] = np.concatenate([surv, tail], axis=0)
        else:
            e.props[p] = surv
    e.old_id = [int(x) for x in base_old[order]] + [x if x is FREE else int(x) for x in told]
    e.n = len(e.old_id)
    # names: the input's, with old_id appended if it was absent
    e.names = list(snap.props)
    if 'old_id' not in snap.props:
        e.names.append('old_id')
    e.symbols_prefix = snap.symbols
    return e


# ---------------------------------------------------------------- composition
class Chain:
    """Tracks, over a sequence of insertions starting from a system S0, which
    original atom each current atom descends from (-1: created by a defect) and
    whether a defect operation modified it.  Independent of the per-step
    expectation: used to state 'old_id composes' directly against S0."""

    def __init__(self, n0, base_ids=None):
        self.origin = list(range(n0))
        self.touched = [False] * n0
        self.oid = list(range(n0)) if base_ids is None else [int(x) for x in base_ids]
        self.oid_free = [False] * n0

    def apply(self, op):
        t, k = op['type'], op.get('site')
        kw = op.get('kw') or {}
        n = len(self.origin)
        if t == 'i':
            keep = list(range(n))
        else:
            keep = [j for j in range(n) if j != k]
        o = [self.origin[j] for j in keep]
        tch = [self.touched[j] for j in keep]
        oid = [self.oid[j] for j in keep]
        fr = [self.oid_free[j] for j in keep]
        if t == 'i':
            o.append(-1); tch.append(True); oid.append(kw.get('old_id')); fr.append('old_id' not in kw)
        elif t == 's':
            o.append(self.origin[k]); tch.append(True)
            oid.append(kw['old_id'] if 'old_id' in kw else self.oid[k]); fr.append(self.oid_free[k] and 'old_id' not in kw)
        elif t == 'db':
            o.append(self.origin[k]); tch.append(True); oid.append(self.oid[k]); fr.append(self.oid_free[k])
            o.append(-1); tch.append(True); oid.append(kw.get('old_id')); fr.append('old_id' not in kw)
        self.origin, self.touched, self.oid, self.oid_free = o, tch, oid, fr

    def resolve_free(self, observed_old_id):
        """Created atoms get an implementation-chosen id: read it once (the
        per-step monitor has checked that it is unique), carry it afterwards."""
        for j, f in enumerate(self.oid_free):
            if f and self.oid[j] is None:
                self.oid[j] = int(observed_old_id[j])
