"""Reference crystallography for C16, written from the textbook definitions
(numpy + stdlib only, never atomman).

Conventions (International Tables / any crystallography text):

* A direction [uvw] in a cell with edge vectors a1, a2, a3 (rows of ``vects``)
  is the vector u*a1 + v*a2 + w*a3.
* The plane (hkl) nearest the origin cuts the axes at a1/h, a2/k, a3/l, i.e. it
  is the set {r : n.r = d} with n.a1 = h*d, n.a2 = k*d, n.a3 = l*d for the unit
  normal n and the spacing d > 0.  (An index 0 = axis parallel to the plane.)
* Four-index hexagonal notation uses the redundant basal axis
  a3' = -(a1 + a2):  [uvtw] = u*a1 + v*a2 + t*a3' + w*c with u+v+t = 0, and
  (hkil) cuts a3' at a3'/i with h+k+i = 0.
* A centred conventional cell has, besides the integer translations, the
  centring translations listed in CENTRING; the number of lattice points per
  cell is 1 + len(CENTRING[s]).
"""
from __future__ import annotations

import itertools
import math
from fractions import Fraction

import numpy as np


# ------------------------------------------------------------------ index sets
def all_triples(m):
    """Every integer triple in [-m, m]^3 except (0,0,0): (2m+1)^3 - 1 rows."""
    r = range(-m, m + 1)
    return np.array([t for t in itertools.product(r, r, r) if t != (0, 0, 0)], dtype=int)


ZERO_PATTERNS = ('hkl', 'hk0', 'h0l', 'h00', '0kl', '0k0', '00l')


def zero_pattern(t):
    """Name of the zero pattern of one triple ('h0l' = middle index zero...)."""
    h, k, l = (int(x) != 0 for x in t)
    return ('h' if h else '0') + ('k' if k else '0') + ('l' if l else '0')


# ------------------------------------------------------------- 3 <-> 4 indices
def plane3to4(hkl):
    """(hkl) -> (hkil): i is fixed by h+k+i = 0."""
    x = np.asarray(hkl, float)
    out = np.empty(x.shape[:-1] + (4,))
    out[..., 0], out[..., 1], out[..., 3] = x[..., 0], x[..., 1], x[..., 2]
    out[..., 2] = 0.0 - x[..., 0] - x[..., 1]
    return out


def plane4to3(hkil):
    x = np.asarray(hkil, float)
    return np.stack([x[..., 0], x[..., 1], x[..., 3]], axis=-1)


def vector4to3(uvtw):
    """[uvtw] -> [UVW]: u*a1 + v*a2 + t*(-a1-a2) + w*c = (u-t)*a1 + (v-t)*a2 + w*c."""
    x = np.asarray(uvtw, float)
    return np.stack([x[..., 0] - x[..., 2], x[..., 1] - x[..., 2], x[..., 3]], axis=-1)


# the unique (u, v, t) with u - t = U, v - t = V, u + v + t = 0, by a linear solve
_M34 = np.array([[1.0, 0.0, -1.0], [0.0, 1.0, -1.0], [1.0, 1.0, 1.0]])


def vector3to4(UVW):
    x = np.asarray(UVW, float)
    rhs = np.stack([x[..., 0], x[..., 1], np.zeros(x.shape[:-1])], axis=-1)
    uvt = np.linalg.solve(_M34, rhs.reshape(-1, 3).T).T.reshape(rhs.shape)
    return np.concatenate([uvt, x[..., 2:3]], axis=-1)


# ------------------------------------------------------------------ Cartesian
def cart_uvw(uvw, vects):
    x = np.asarray(uvw, float)
    v = np.asarray(vects, float)
    return x[..., 0:1] * v[0] + x[..., 1:2] * v[1] + x[..., 2:3] * v[2]


def cart_uvtw(uvtw, vects):
    """Four-index direction as the sum over the FOUR hexagonal axes."""
    x = np.asarray(uvtw, float)
    v = np.asarray(vects, float)
    a3 = -(v[0] + v[1])
    return x[..., 0:1] * v[0] + x[..., 1:2] * v[1] + x[..., 2:3] * a3 + x[..., 3:4] * v[2]


def plane_normal(hkl, vects):
    """Unit normal n and spacing d of (hkl):  vects @ (n/d) = hkl  (n.a_i = h_i d)."""
    x = np.asarray(hkl, float)
    v = np.asarray(vects, float)
    g = np.linalg.solve(v, x.reshape(-1, 3).T).T          # g = n/d, the reciprocal-lattice vector
    ln = np.linalg.norm(g, axis=1)
    n = (g / ln[:, None]).reshape(x.shape)
    return n, (1.0 / ln).reshape(x.shape[:-1])


def zone_table(hkl, uvw):
    """Integer table h*u + k*v + l*w for (N,3) planes x (K,3) directions."""
    return np.asarray(hkl, dtype=np.int64).reshape(-1, 3) @ np.asarray(uvw, dtype=np.int64).reshape(-1, 3).T


# -------------------------------------------------------------------- centring
T = Fraction
CENTRING = {
    'p': [],
    'a': [(T(0), T(1, 2), T(1, 2))],
    'b': [(T(1, 2), T(0), T(1, 2))],
    'c': [(T(1, 2), T(1, 2), T(0))],
    'i': [(T(1, 2), T(1, 2), T(1, 2))],
    'f': [(T(0), T(1, 2), T(1, 2)), (T(1, 2), T(0), T(1, 2)), (T(1, 2), T(1, 2), T(0))],
    # rhombohedral lattice on hexagonal axes: obverse (t1) and reverse (t2) settings
    't1': [(T(2, 3), T(1, 3), T(1, 3)), (T(1, 3), T(2, 3), T(2, 3))],
    't2': [(T(1, 3), T(2, 3), T(1, 3)), (T(2, 3), T(1, 3), T(2, 3))],
}
SETTINGS = tuple(CENTRING)


def lattice_points_per_cell(setting):
    return 1 + len(CENTRING[setting])


def in_centred_lattice(vecs, setting, tol=1e-9):
    """Row-wise: is the conventional-cell vector a translation of the centred
    lattice (integer vector + one of {0, centring translations})?"""
    x = np.asarray(vecs, float).reshape(-1, 3)
    ok = np.zeros(len(x), bool)
    for t in [(0, 0, 0)] + CENTRING[setting]:
        d = x - np.array([float(c) for c in t])
        ok |= np.all(np.abs(d - np.round(d)) <= tol, axis=1)
    return ok


def is_primitive_basis(P, setting, tol=1e-9):
    """Do the rows of P (conventional-cell coordinates) form a right-handed primitive basis of the centred lattice?
    They do iff each row is a lattice translation and the cell they span holds exactly one lattice point,
    i.e. det P = 1 / (lattice points per conventional cell)."""
    P = np.asarray(P, float)
    if P.shape != (3, 3) or not np.isfinite(P).all():
        return False
    return bool(in_centred_lattice(P, setting, tol).all()
                and abs(np.linalg.det(P) - 1.0 / lattice_points_per_cell(setting)) <= tol)


def sorted_rows(a):
    """Rows of an (N,k) array in lexicographic order (to compare two row SETS)."""
    a = np.asarray(a)
    a = a.reshape(-1, a.shape[-1])
    return a[np.lexsort(a.T[::-1])]


def centring_translations(setting):
    return np.array([[float(c) for c in t] for t in CENTRING[setting]], float).reshape(-1, 3)


# ---------------------------------------------------------------------- reduce
def reduce_rows(idx):
    """Coprime integer indices of the same direction, row by row, in pure
    Python integers (math.gcd)."""
    x = np.asarray(idx)
    flat = x.reshape(-1, x.shape[-1])
    out = []
    for row in flat:
        ints = [int(c) for c in row]
        g = 0
        for c in ints:
            g = math.gcd(g, c)
        out.append([c // g for c in ints] if g else ints)     # exact: g divides every c
    return np.array(out, dtype=int).reshape(x.shape)


def row_gcds(idx):
    x = np.asarray(idx)
    flat = x.reshape(-1, x.shape[-1])
    out = []
    for row in flat:
        g = 0
        for c in row:
            g = math.gcd(g, int(c))
        out.append(g)
    return np.array(out, dtype=int).reshape(x.shape[:-1])
