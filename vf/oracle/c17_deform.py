"""C17 oracle: what the analysis tools must return for a known imposed
deformation.  Written from the definitions (Hartley & Mishin 2005 for the
lattice-correspondence / Nye tensors; Zimmerman et al. 2001 un-normalised slip
vector as documented); numpy only, never atomman.
"""
from __future__ import annotations

import numpy as np

from . import geometry as G

EPS = np.zeros((3, 3, 3))
EPS[0, 1, 2] = EPS[1, 2, 0] = EPS[2, 0, 1] = 1.0
EPS[0, 2, 1] = EPS[2, 1, 0] = EPS[1, 0, 2] = -1.0


# ---------------------------------------------------------------- neighbours (brute force)
def neighbours(pos, vects, pbc, cutoff):
    """All pairs closer than the cutoff through the periodic boundaries.
    Returns (list of index arrays, list of separation-vector arrays x_j - x_i (nearest image),
    smallest |distance - cutoff| seen).  Valid when cutoff < half of every periodic width."""
    pos = np.asarray(pos, float)
    n = len(pos)
    _, sh = G.shifts27(vects, pbc)
    idx = [[] for _ in range(n)]
    vec = [[] for _ in range(n)]
    margin = np.inf
    chunk = max(1, 200000 // max(n, 1))
    for lo in range(0, n, chunk):
        hi = min(n, lo + chunk)
        d = pos[None, :, :] - pos[lo:hi, None, :]            # (c, n, 3)
        for s in sh:
            dd = d + s
            r = np.linalg.norm(dd, axis=2)
            nz = r > 1e-9
            if nz.any():
                margin = min(margin, float(np.abs(r[nz] - cutoff).min()))
            ii, jj = np.nonzero((r < cutoff) & nz)
            for a, b in zip(ii, jj):
                idx[lo + a].append(b)
                vec[lo + a].append(dd[a, b])
    out_i, out_v = [], []
    for i in range(n):
        o = np.argsort(idx[i], kind='stable')
        out_i.append(np.array(idx[i], int)[o])
        out_v.append(np.array(vec[i], float).reshape(-1, 3)[o])
    return out_i, out_v, margin


def no_double_images(nidx):
    """No atom lists the same neighbour twice (cell wide enough for the cutoff)."""
    return all(len(np.unique(x)) == len(x) for x in nidx)


# ---------------------------------------------------------------- displacement
def through_boundaries(d, vects, pbc):
    """Nearest periodic image of each row of d (exhaustive search)."""
    return np.array([G.nearest_image(x, vects, pbc)[1] for x in np.asarray(d, float).reshape(-1, 3)])


def unique_image_radius(vects, pbc):
    """A separation shorter than this is the unique shortest among its periodic images
    (half the smallest perpendicular width of the periodic directions)."""
    w = G.perp_widths(vects)
    ws = [w[k] for k in range(3) if pbc[k]]
    return 0.5 * min(ws) if ws else np.inf


# ---------------------------------------------------------------- strain measures from G
def G_from_F(F):
    """Lattice correspondence tensor of a homogeneous deformation x -> F x:
    current neighbour vectors q = F p (rows: Q = P F^T) and Q G = P  =>  G = F^-T."""
    return np.linalg.inv(np.asarray(F, float)).T


def strain_from_G(Gt):
    Gt = np.asarray(Gt, float)
    D = np.eye(3) - Gt
    return 0.5 * (D + np.swapaxes(D, -1, -2))


def rotation_from_G(Gt):
    Gt = np.asarray(Gt, float)
    D = np.eye(3) - Gt
    return 0.5 * (D - np.swapaxes(D, -1, -2))


def invariants(e):
    """Principal invariants of a symmetric 3x3 tensor: trace, (tr^2 - tr(e.e))/2, det."""
    e = np.asarray(e, float)
    i1 = np.trace(e, axis1=-2, axis2=-1)
    i2 = 0.5 * (i1 ** 2 - np.trace(e @ e, axis1=-2, axis2=-1))
    i3 = np.linalg.det(e)
    return i1, i2, i3


def angular_velocity(rot):
    """Magnitude of the axial vector of the antisymmetric rotation tensor."""
    rot = np.asarray(rot, float)
    return np.sqrt(rot[..., 0, 1] ** 2 + rot[..., 0, 2] ** 2 + rot[..., 1, 2] ** 2)


def nye_from_gradient(A):
    """Nye tensor alpha = -curl G for a field G_ik(x) = G0_ik + A[i,k,m] x_m:
    alpha_jk = -eps_jmi d_m G_ik."""
    return -np.einsum('jmi,ikm->jk', EPS, np.asarray(A, float))


# ---------------------------------------------------------------- slip
def slip_expected(nidx, upper, s):
    """Rigid slip s of the atoms flagged ``upper``: slip vector of atom i is
    (displacement of its own half - displacement of the other half) times the number
    of its neighbours belonging to the other half."""
    upper = np.asarray(upper, bool)
    out = np.zeros((len(upper), 3))
    nacross = np.zeros(len(upper), int)
    for i, nb in enumerate(nidx):
        k = int((upper[nb] != upper[i]).sum())
        nacross[i] = k
        own = s if upper[i] else np.zeros(3)
        other = np.zeros(3) if upper[i] else s
        out[i] = (own - other) * k
    return out, nacross


# ---------------------------------------------------------------- hand-computed cases
def selfcheck():
    """The oracle against cases worked out by hand (raises AssertionError)."""
    g = 0.01
    F = np.eye(3)
    F[0, 1] = g                                    # simple shear x -> x + g y
    Gs = G_from_F(F)
    assert np.allclose(Gs, np.eye(3) - g * np.outer([0, 1, 0], [1, 0, 0]), atol=1e-15)
    assert np.allclose(G_from_F(np.diag([2.0, 1, 1])), np.diag([0.5, 1, 1]))
    assert np.allclose(strain_from_G(np.diag([0.5, 1, 1])), np.diag([0.5, 0, 0]))
    e = strain_from_G(Gs)
    assert np.isclose(e[0, 1], g / 2) and np.isclose(e[1, 0], g / 2) and np.isclose(np.trace(e), 0)
    r = rotation_from_G(Gs)
    assert np.isclose(r[1, 0], g / 2) and np.isclose(r[0, 1], -g / 2) and np.isclose(angular_velocity(r), g / 2)
    i1, i2, i3 = invariants(np.diag([1.0, 2, 3]))
    assert np.isclose(i1, 6) and np.isclose(i2, 11) and np.isclose(i3, 6)
    A = np.zeros((3, 3, 3))
    A[0, 2, 1] = 0.3                               # d G_02 / d x_1 = 0.3  ->  (curl G)_22 = eps_210 * 0.3 = -0.3
    al = nye_from_gradient(A)
    exp = np.zeros((3, 3))
    exp[2, 2] = 0.3
    assert np.allclose(al, exp)
    A = np.zeros((3, 3, 3))
    A[1, 0, 2] = 1.0                               # d G_10 / d x_2  ->  (curl G)_00 = eps_021 = -1
    exp = np.zeros((3, 3))
    exp[0, 0] = 1.0
    assert np.allclose(nye_from_gradient(A), exp)
    pos = np.array([[0.5, 5, 5], [9.5, 5, 5], [5.0, 5, 5]])
    idx, vec, _ = neighbours(pos, 10 * np.eye(3), (True, False, False), 2.0)
    assert list(idx[0]) == [1] and list(idx[1]) == [0] and len(idx[2]) == 0
    assert np.allclose(vec[0][0], [-1, 0, 0]) and np.allclose(vec[1][0], [1, 0, 0])
    idx, vec, _ = neighbours(pos, 10 * np.eye(3), (False, True, True), 2.0)
    assert all(len(x) == 0 for x in idx)
    # chain 0-1-2, atom 2 slipped by s: atom 1 has one neighbour across, atom 0 none
    s = np.array([0.1, 0.2, 0.0])
    out, k = slip_expected([np.array([1]), np.array([0, 2]), np.array([1])], [False, False, True], s)
    assert list(k) == [0, 1, 1] and np.allclose(out[0], 0) and np.allclose(out[1], -s) and np.allclose(out[2], s)
    d = through_boundaries(np.array([[9.0, 0.2, 0.0]]), 10 * np.eye(3), (True, True, True))
    assert np.allclose(d, [[-1.0, 0.2, 0.0]])
    assert np.isclose(unique_image_radius(np.diag([10.0, 4, 6]), (True, False, True)), 3.0)
    return True
