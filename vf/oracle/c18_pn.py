"""C18 oracles: gamma-surface coordinate systems and Peierls-Nabarro energy terms.

numpy/scipy only, never atomman.  Everything is written from the definitions
in the docstrings / the semidiscrete variational PN papers, one position or one
(i, j) pair at a time (plain loops), not from the vectorised code under test.

Conventions (all stated in the documentation of the classes under test):

* shift vectors are crystal vectors [uvw] of the cell (rows of ``boxvects``):
  A = u*a + v*b + w*c;  a four-index [uvtw] hexagonal vector is [u-t, v-t, w];
* a fractional position (a1, a2) is the Cartesian point a1*A1 + a2*A2;
* the plotting frame has x along A1 (or along ``xvect``), the plane normal
  n = A1 x A2 / |A1 x A2| and y = n x x (right handed: A2 has positive y);
* the dislocation frame has rows m, n, xi with xi the unit line direction,
  n the unit normal of the slip plane (hkl) (the reciprocal direction
  h a* + k b* + l c*), m = n x xi; it is then re-labelled onto the Cartesian
  axes chosen for m and n.
"""
from __future__ import annotations

import math

import numpy as np
from scipy import integrate, optimize


# ----------------------------------------------------------------------------
# gamma-surface geometry
# ----------------------------------------------------------------------------
def three_index(v):
    v = [float(t) for t in v]
    if len(v) == 4:
        u, w_, t, w = v
        return [u - t, w_ - t, w]
    return v


def crystal_to_cart(uvw, boxvects):
    uvw = three_index(uvw)
    out = np.zeros(3)
    for k in range(3):
        for c in range(3):
            out[c] += uvw[k] * boxvects[k][c]
    return out


def unit(v):
    v = np.asarray(v, float)
    return v / math.sqrt(float(v @ v))


class Plane:
    """The two Cartesian shift vectors and the frames derived from them."""

    def __init__(self, a1uvw, a2uvw, boxvects, xvect=None):
        self.A1 = crystal_to_cart(a1uvw, boxvects)
        self.A2 = crystal_to_cart(a2uvw, boxvects)
        self.n = unit(np.cross(self.A1, self.A2))
        self.xhat = unit(self.A1 if xvect is None else xvect)
        self.yhat = np.cross(self.n, self.xhat)

    def a12_to_pos(self, a1, a2):
        """One position per (a1, a2) pair, shape (N, 3)."""
        a1 = np.atleast_1d(np.asarray(a1, float)).ravel()
        a2 = np.atleast_1d(np.asarray(a2, float)).ravel()
        out = np.zeros((len(a1), 3))
        for i in range(len(a1)):
            out[i] = a1[i] * self.A1 + a2[i] * self.A2
        return out

    def pos_to_a12(self, pos):
        """In-plane least-squares coordinates, one position at a time (2x2 normal equations)."""
        pos = np.asarray(pos, float).reshape(-1, 3)
        g11, g12, g22 = self.A1 @ self.A1, self.A1 @ self.A2, self.A2 @ self.A2
        det = g11 * g22 - g12 * g12
        a1 = np.zeros(len(pos))
        a2 = np.zeros(len(pos))
        for i, p in enumerate(pos):
            r1, r2 = self.A1 @ p, self.A2 @ p
            a1[i] = (g22 * r1 - g12 * r2) / det
            a2[i] = (g11 * r2 - g12 * r1) / det
        return a1, a2

    def pos_to_xy(self, pos):
        pos = np.asarray(pos, float).reshape(-1, 3)
        return np.array([p @ self.xhat for p in pos]), np.array([p @ self.yhat for p in pos])

    def xy_to_pos(self, x, y):
        x = np.atleast_1d(np.asarray(x, float)).ravel()
        y = np.atleast_1d(np.asarray(y, float)).ravel()
        return np.array([x[i] * self.xhat + y[i] * self.yhat for i in range(len(x))])


def node_energy(a1, a2, n1, n2, table):
    """Energy of the periodic image of an exact grid node: table[k, l] holds
    the value at (k/n1, l/n2)."""
    k = int(round(a1 * n1))
    l = int(round(a2 * n2))
    assert abs(a1 * n1 - k) < 1e-6 and abs(a2 * n2 - l) < 1e-6, 'not a node'
    return table[k % n1, l % n2]


# ----------------------------------------------------------------------------
# dislocation frame
# ----------------------------------------------------------------------------
AXES = {'x': np.array([1.0, 0, 0]), 'y': np.array([0, 1.0, 0]), 'z': np.array([0, 0, 1.0])}


def plane_normal_hkl(hkl, boxvects):
    """Unit normal of the lattice plane (hkl): direction of h a* + k b* + l c*."""
    hkl = [float(t) for t in hkl]
    if len(hkl) == 4:
        hkl = [hkl[0], hkl[1], hkl[3]]
    a, b, c = (np.asarray(boxvects[k], float) for k in range(3))
    vol = a @ np.cross(b, c)
    rec = [np.cross(b, c) / vol, np.cross(c, a) / vol, np.cross(a, b) / vol]
    return unit(hkl[0] * rec[0] + hkl[1] * rec[1] + hkl[2] * rec[2])


def dislocation_frame(boxvects, xi_uvw, slip_hkl):
    """T (rows m, n, xi in crystal-Cartesian components) maps crystal-Cartesian
    vectors into the [m, n, xi] component order used by the Peierls-Nabarro model
    (component 0 = in-plane direction normal to the line, 1 = plane normal,
    2 = line direction).  Whatever Cartesian axes the Volterra solution was asked
    to put m and n on, the PN model undoes that relabelling, so its frame is T."""
    xi_c = unit(crystal_to_cart(xi_uvw, boxvects))
    n_c = plane_normal_hkl(slip_hkl, boxvects)
    m_c = np.cross(n_c, xi_c)
    return np.array([m_c, n_c, xi_c])


def relabel(m, n):
    """Rows (m, n, m x n): the rotation from the Volterra solution's Cartesian
    axes to the [m, n, xi] component order."""
    m = AXES[m] if isinstance(m, str) else np.asarray(m, float)
    n = AXES[n] if isinstance(n, str) else np.asarray(n, float)
    return np.array([m, n, np.cross(m, n)])


# ----------------------------------------------------------------------------
# Peierls-Nabarro terms (docstring formulas, evaluated literally)
# ----------------------------------------------------------------------------
def density(x, d, cdiff):
    """rho[i] = (d[i]-d[i-1])/(x[i]-x[i-1])  (i = 1..N-1)   or, central,
    rho[i] = (d[i+1]-d[i-1])/(x[i+1]-x[i-1])  (i = 1..N-2).  Returns (x_of_rho, rho)."""
    N = len(x)
    xs, rho = [], []
    if not cdiff:
        for i in range(1, N):
            xs.append(x[i])
            rho.append([(d[i][c] - d[i - 1][c]) / (x[i] - x[i - 1]) for c in range(3)])
    else:
        for i in range(1, N - 1):
            xs.append(x[i])
            rho.append([(d[i + 1][c] - d[i - 1][c]) / (x[i + 1] - x[i - 1]) for c in range(3)])
    return np.array(xs), np.array(rho).reshape(-1, 3)


def _psi(i, j, dx):
    """psi(i,j,dx) = 1/2 (i-j)^2 dx^2 ln(|i-j| dx), 0 for i = j (the limit)."""
    if i == j:
        return 0.0
    r = abs(i - j) * dx
    return 0.5 * r * r * math.log(r)


def chi(i, j, dx):
    """chi(i,j,dx) = 3/2 dx^2 + psi(i-1,j-1) + psi(i,j) - psi(i,j-1) - psi(j,i-1)."""
    return 1.5 * dx * dx + _psi(i - 1, j - 1, dx) + _psi(i, j, dx) - _psi(i, j - 1, dx) - _psi(j, i - 1, dx)


def elastic_bilinear(rho_a, rho_b, dx, K):
    """B(rho_a, rho_b) = 1/(4 pi) sum_i sum_j chi(i,j,dx) K_lm rho_a_l[i] rho_b_m[j];
    returns (value, sum of |terms|)."""
    n = len(rho_a)
    Ka = rho_a @ K                      # (n,3): K_lm rho_a_l
    tot = 0.0
    mag = 0.0
    for i in range(n):
        for j in range(n):
            t = chi(i, j, dx) * float(Ka[i] @ rho_b[j])
            tot += t
            mag += abs(t)
    return tot / (4 * math.pi), mag / (4 * math.pi)


def elastic(x, d, K, cdiff):
    dx = x[1] - x[0]
    rho = density(x, d, cdiff)[1]
    return elastic_bilinear(rho, rho, dx, K)


def longrange(K, b, L):
    """1/(2 pi) K_lm b_l b_m ln(L)"""
    s = 0.0
    for l in range(3):
        for m in range(3):
            s += K[l][m] * b[l] * b[m]
    return s * math.log(L) / (2 * math.pi)


def stress_full(x, d, tau, cdiff=False, centred_weight=False):
    """-1/2 sum_i (x[i]^2 - x[i-1]^2) rho_l[i] tau_2l   (tau_2l = second row of tau).
    With the central-difference density the docstring leaves the weight of
    rho[i] open; ``centred_weight`` uses (x[i+1]^2 - x[i-1]^2)/2 instead of
    (x[i]^2 - x[i-1]^2)."""
    N = len(x)
    tot = 0.0
    mag = 0.0
    if not cdiff:
        for i in range(1, N):
            for l in range(3):
                rho = (d[i][l] - d[i - 1][l]) / (x[i] - x[i - 1])
                t = -0.5 * (x[i] ** 2 - x[i - 1] ** 2) * rho * tau[1][l]
                tot += t
                mag += abs(t)
    else:
        for i in range(1, N - 1):
            w = 0.5 * (x[i + 1] ** 2 - x[i - 1] ** 2) if centred_weight else (x[i] ** 2 - x[i - 1] ** 2)
            for l in range(3):
                rho = (d[i + 1][l] - d[i - 1][l]) / (x[i + 1] - x[i - 1])
                t = -0.5 * w * rho * tau[1][l]
                tot += t
                mag += abs(t)
    return tot, mag


def stress_trapezoid(x, d, tau):
    """The Shen-Cheng work term with the sign that makes it the same functional
    as ``stress_full`` up to a term fixed by the end points:
        E = +1/2 sum_i tau_2l (d_l[i] + d_l[i+1]) dx
    (summation by parts: stress_full = stress_trapezoid - tau_2l (x[-1] d_l[-1] - x[0] d_l[0])
    on a uniform grid).  The docstring prints this expression with a leading minus sign *and*
    says that the implementation flips the sign of tau so that it matches the
    full expression; the two statements together give the sign used here."""
    dx = x[1] - x[0]
    tot = 0.0
    mag = 0.0
    for i in range(len(x) - 1):
        for l in range(3):
            t = 0.5 * tau[1][l] * (d[i][l] + d[i + 1][l]) * dx
            tot += t
            mag += abs(t)
    return tot, mag


def stress_boundary_term(x, d, tau):
    """stress_full - stress_trapezoid on a uniform grid with nearest-neighbour density."""
    s = 0.0
    for l in range(3):
        s -= tau[1][l] * (x[-1] * d[-1][l] - x[0] * d[0][l])
    return s


def surface(x, d, beta, cdiff, transposed=False):
    """sum_j beta_lj / 4 sum_i rho_l[i]^2 dx   (first index of beta pairs with the density component)."""
    dx = x[1] - x[0]
    rho = density(x, d, cdiff)[1]
    tot = 0.0
    mag = 0.0
    for i in range(len(rho)):
        for l in range(3):
            for j in range(3):
                bb = beta[j][l] if transposed else beta[l][j]
                t = bb / 4 * rho[i][l] ** 2 * dx
                tot += t
                mag += abs(t)
    return tot, mag


def nonlocal_(x, d, alphas):
    """sum_m alpha_m sum_i d[i] . (d[i] - (d[i+m] + d[i-m]) / 2) dx,  m = 1, 2, ...; i runs over
    the points that have both neighbours."""
    dx = x[1] - x[0]
    N = len(x)
    tot = 0.0
    mag = 0.0
    for k, al in enumerate(alphas):
        m = k + 1
        for i in range(m, N - m):
            for c in range(3):
                t = al * d[i][c] * (d[i][c] - 0.5 * (d[i + m][c] + d[i - m][c])) * dx
                tot += t
                mag += abs(t)
    return tot, mag


def misfit_from_values(x, gammas):
    """sum_i gamma(d[i]) dx"""
    dx = x[1] - x[0]
    return float(sum(gammas)) * dx, float(sum(abs(g) for g in gammas)) * dx


# ----------------------------------------------------------------------------
# analytic arctangent profile
# ----------------------------------------------------------------------------
def arctan_disregistry(x, burgers, center, halfwidth, normalize, shift):
    """d(x) = b/pi arctan((x-c)/w) + b/2 ; normalised: d - d[0], rescaled so that |d[-1]| = |b|;
    shift=False: b/2 subtracted again."""
    b = np.asarray(burgers, float)
    d = np.array([b / math.pi * math.atan((xi - center) / halfwidth) + b / 2 for xi in x])
    if normalize:
        d = d - d[0]
        d = d * (math.sqrt(b @ b) / math.sqrt(d[-1] @ d[-1]))
    if not shift:
        d = d - b / 2
    return d


def arctan_density(x, burgers, center, halfwidth, normalize):
    """rho(x) = b/pi * w / ((x-c)^2 + w^2); normalised: rescaled so that its exact integral over
    [x[0], x[-1]] is b."""
    b = np.asarray(burgers, float)
    rho = np.array([b / math.pi * halfwidth / ((xi - center) ** 2 + halfwidth ** 2) for xi in x])
    if normalize:
        integral = (math.atan((x[-1] - center) / halfwidth) - math.atan((x[0] - center) / halfwidth)) / math.pi
        rho = rho / integral
    return rho


# ----------------------------------------------------------------------------
# continuum Peierls-Nabarro energy of a normalised arctangent profile on a finite window
# ----------------------------------------------------------------------------
def window_energy(zeta, X, Kb2, gamma0):
    """Continuum energy per unit length (up to zeta-independent constants) of
        d(x) = s b/pi (arctan(x/zeta) + arctan(X/zeta)),  s = pi / (2 arctan(X/zeta)),  |x| <= X
    for the misfit law gamma = gamma0 sin^2(pi d / b):

        E = gamma0 int gamma dx - Kb2/(4 pi) int int rho rho' ln|x-x'| dx dx' / b^2

    With x = zeta tan(theta): rho dx = s b/pi dtheta on |theta| <= tm = arctan(X/zeta) and
    ln|x-x'| = ln zeta + ln|sin(theta-theta')| - ln cos(theta) - ln cos(theta'), which reduces both
    integrals to one dimension.  For X -> infinity this is pi gamma0 zeta - Kb2/(4 pi) ln(2 zeta),
    minimal at the classical half width zeta* = Kb2 / (4 pi^2 gamma0)."""
    tm = math.atan(X / zeta)
    s = math.pi / (2 * tm)
    mis = integrate.quad(lambda t: math.cos(s * t) ** 2 / math.cos(t) ** 2, -tm, tm, limit=200)[0]
    j1 = integrate.quad(lambda u: (2 * tm - u) * math.log(math.sin(u)), 0, 2 * tm, limit=200)[0]
    j2 = integrate.quad(lambda t: math.log(math.cos(t)), -tm, tm, limit=200)[0]
    J = 2 * j1 - 4 * tm * j2
    return gamma0 * zeta * mis - Kb2 / (4 * math.pi) * (math.log(zeta) + J / (4 * tm * tm))


def classical_halfwidth(Kb2, gamma0):
    return Kb2 / (4 * math.pi ** 2 * gamma0)


def window_halfwidth(X, Kb2, gamma0):
    zs = classical_halfwidth(Kb2, gamma0)
    r = optimize.minimize_scalar(lambda z: window_energy(z, X, Kb2, gamma0), bounds=(0.3 * zs, 3 * zs),
                                 method='bounded', options=dict(xatol=1e-6 * zs))
    return float(r.x)


def parabola_minimum(z, e):
    """Abscissa of the minimum of the parabola through the lowest sample and its two neighbours
    (None when the lowest sample is at an end of the scan)."""
    k = int(np.argmin(e))
    if k == 0 or k == len(z) - 1:
        return None
    z0, z1, z2 = z[k - 1], z[k], z[k + 1]
    e0, e1, e2 = e[k - 1], e[k], e[k + 1]
    den = (z0 - z1) * (z0 - z2) * (z1 - z2)
    a = (z2 * (e1 - e0) + z1 * (e0 - e2) + z0 * (e2 - e1)) / den
    b = (z2 * z2 * (e0 - e1) + z1 * z1 * (e2 - e0) + z0 * z0 * (e1 - e2)) / den
    return -b / (2 * a)


# ----------------------------------------------------------------------------
# self-check of the oracle against closed forms (run once per worker)
# ----------------------------------------------------------------------------
def selfcheck():
    """Returns a list of failed hand checks (empty when the oracle is sound)."""
    bad = []
    dx = 0.7
    # chi(i,i) = -int int_cell ln|x-x'| = dx^2 (3/2 - ln dx);  chi(i,j) is minus the same double integral over two cells
    if abs(chi(4, 4, dx) - dx * dx * (1.5 - math.log(dx))) > 1e-14:
        bad.append('chi(i,i)')
    num = integrate.dblquad(lambda xp, x: math.log(abs(x - xp)), 2 * dx, 3 * dx, 0.0, dx, epsabs=1e-12)[0]   # cells i=3, j=1
    if abs(chi(3, 1, dx) + num) > 1e-9 or abs(chi(1, 3, dx) + num) > 1e-9:
        bad.append('chi(i,j)')
    # classical limit of the window functional and its minimiser
    Kb2, g0, z = 3.1, 0.02, 5.0
    e_inf = math.pi * g0 * z - Kb2 / (4 * math.pi) * math.log(2 * z)
    if abs(window_energy(z, 1e7 * z, Kb2, g0) - e_inf) > 1e-5:
        bad.append('window_energy(X->inf)')
    if abs(window_halfwidth(1e6, Kb2, g0) / classical_halfwidth(Kb2, g0) - 1) > 1e-3:
        bad.append('window_halfwidth(X->inf)')
    # hexagonal basal plane: a and b at 120 degrees, x along a, b has positive y
    hexv = np.array([[3.0, 0, 0], [-1.5, 1.5 * math.sqrt(3), 0], [0, 0, 5.0]])
    pl = Plane([2 / 3, -1 / 3, -1 / 3, 0], [0, 1, 0], hexv)
    x, y = pl.pos_to_xy(pl.a12_to_pos([0.0, 1.0], [1.0, 0.0]))
    if np.abs(np.array([x[0], y[0], x[1], y[1]]) - [-1.5, 1.5 * math.sqrt(3), 3.0, 0.0]).max() > 1e-12:
        bad.append('plane frame')
    a1, a2 = pl.pos_to_a12(pl.a12_to_pos([0.3, -1.2], [2.5, 0.1]))
    if np.abs(np.array([a1, a2]) - [[0.3, -1.2], [2.5, 0.1]]).max() > 1e-12:
        bad.append('pos_to_a12')
    if np.abs(plane_normal_hkl([0, 0, 0, 1], hexv) - [0, 0, 1]).max() > 1e-14 or np.abs(plane_normal_hkl([1, 0, 0], hexv) - unit([1, 1 / math.sqrt(3), 0])).max() > 1e-12:
        bad.append('plane normal')
    # summation by parts: full stress term = trapezoid term + end-point term
    rng = np.random.default_rng(5)
    xg = 0.4 * np.arange(9) - 1.3
    d = rng.normal(size=(9, 3))
    tau = rng.normal(size=(3, 3))
    if abs(stress_full(xg, d, tau)[0] - stress_trapezoid(xg, d, tau)[0] - stress_boundary_term(xg, d, tau)) > 1e-12:
        bad.append('stress identity')
    # a linear disregistry has constant density b/L: nonlocal term vanishes, surface term = beta_ll/4 rho_l^2 L
    lin = np.outer(np.arange(9) / 8, [2.0, 0, 1.0])
    if abs(nonlocal_(xg, lin, [0.3, 0.2])[0]) > 1e-13:
        bad.append('nonlocal linear')
    beta = np.diag([0.5, 0.0, 0.25])
    L = xg[-1] - xg[0]
    if abs(surface(xg, lin, beta, False)[0] - (0.5 / 4 * (2 / L) ** 2 + 0.25 / 4 * (1 / L) ** 2) * L) > 1e-13:
        bad.append('surface linear')
    return bad
