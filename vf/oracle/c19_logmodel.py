"""C19 - reference model of "what a LAMMPS log says" (numpy only, never imports atomman).

The ground truth of a synthesised log is the list of run blocks it was printed
from (vf/gen/c19_logs.py).  This module holds everything that is decided from
definitions rather than by the reader under test:

* what a printed token means (``token_value``), whether a printed column is an
  integer column (``column_kind``: every token is an integer literal) and how
  accurately a decimal token can be expected back (``value_rtol``);
* the banner: version string = text between the outer parentheses, date = its
  leading 'D Mon YYYY' (``parse_banner``, used to cross-check the generator);
* the read-history model (``LogState``): append=True appends the new runs,
  append=False forgets everything first;
* flattening (``flatten_expected``): union of the printed steps, each taken
  from the earliest / latest run that printed it, or all rows;
* the class of a list of step ranges with respect to flattening
  (``flatten_class``) - a property of the INPUT, used as mechanism key.
"""
from __future__ import annotations

import math
import re

_INT = re.compile(r'[+-]?\d+\Z')
MONTHS = {'Jan': 1, 'Feb': 2, 'Mar': 3, 'Apr': 4, 'May': 5, 'Jun': 6, 'Jul': 7, 'Aug': 8, 'Sep': 9, 'Oct': 10,
          'Nov': 11, 'Dec': 12}


def token_is_int(tok: str) -> bool:
    return _INT.match(tok) is not None


def token_value(tok: str):
    """Value of a printed thermo token: integer literal -> int, anything else -> float (C printf spells
    not-a-number 'nan' / '-nan' and infinity 'inf' / '-inf')."""
    if token_is_int(tok):
        return int(tok)
    return float(tok)


def column_kind(tokens):
    """'int' if the column was printed with integer literals only, 'float' otherwise, 'empty' without rows."""
    if len(tokens) == 0:
        return 'empty'
    return 'int' if all(token_is_int(t) for t in tokens) else 'float'


def significant_digits(tok: str) -> int:
    m = tok.lower().lstrip('+-').split('e')[0].replace('.', '').lstrip('0')
    return len(m)


def decimals(tok: str) -> int:
    """Number of digits printed after the decimal point of the mantissa."""
    m = tok.lower().split('e')[0]
    return len(m.split('.')[1]) if '.' in m else 0


def value_rtol(tok: str) -> float:
    """Relative bound for a float token read back.

    LAMMPS prints thermo floats with 8 significant digits by default; such tokens (up to 15 printed
    mantissa characters) must come back as the correctly rounded double, give or take the 1-2 ulp a
    non-round-trip strtod may lose: 1e-15.  Tokens with more printed characters (thermo_modify format
    float %20.15g and the like) exceed what the 'ordinary' pandas converter promises (pandas documents
    float_precision=None as not round-trip; measured: digits beyond the 16th decimal place are dropped,
    <= 1e-12 relative for the formats generated here): 2e-12."""
    m = tok.lower().lstrip('+-').split('e')[0].replace('.', '')
    return 1e-15 if len(m) <= 15 else 2e-12


def same_value(got, exp, rtol):
    """NaN-aware comparison of one read value with the printed one."""
    if isinstance(exp, float) and math.isnan(exp):
        try:
            return math.isnan(float(got))
        except (TypeError, ValueError):
            return False
    try:
        g = float(got)
    except (TypeError, ValueError):
        return False
    if math.isinf(exp) or math.isinf(g):
        return g == exp
    return abs(g - exp) <= rtol * abs(exp)


def parse_banner(line: str):
    """'LAMMPS (7 Aug 2019 - Update 1)' -> ('7 Aug 2019 - Update 1', (2019, 8, 7))."""
    s = line.strip()
    assert s.startswith('LAMMPS (') and s.endswith(')')
    v = s[len('LAMMPS ('):-1]
    m = re.match(r'\s*(\d{1,2})\s+([A-Z][a-z]{2})\s+(\d{4})', v)
    return v, (int(m.group(3)), MONTHS[m.group(2)], int(m.group(1)))


class LogState:
    """Reference model of a Log object under a sequence of read() calls."""

    def __init__(self):
        self.runs = []
        self.versions = []          # version strings of the logs read since the last reset (None = no banner)
        self.dates = []

    def read(self, model, append=True):
        if not append:
            self.runs = []
            self.versions = []
            self.dates = []
        self.runs = self.runs + list(model['runs'])
        self.versions.append(model['version'])
        self.dates.append(model['date'])

    def admissible_versions(self):
        """The property fixes the version of a log; when logs of several versions are merged it does not say
        which one is reported, only that it is one that was read since the last reset (or None when none of
        them had a banner)."""
        seen = [(v, d) for v, d in zip(self.versions, self.dates) if v is not None]
        return seen if seen else [(None, None)]


# ---------------------------------------------------------------------------------------------
# flattening
def step_lists(runs):
    out = []
    for r in runs:
        if 'Step' not in r['columns']:
            return None
        c = r['columns'].index('Step')
        out.append([row[c] for row in r['rows']])
    return out


def union_columns(runs):
    cols = []
    for r in runs:
        for c in r['columns']:
            if c not in cols:
                cols.append(c)
    return cols


def flatten_expected(runs, style):
    """Rows of the merged table as a list of (run index, row index) in run order.

    'all'  : every row of every run.
    'first': every distinct Step once, from the earliest run that printed it.
    'last' : every distinct Step once, from the latest run that printed it."""
    st = step_lists(runs)
    if style == 'all':
        return [(k, r) for k in range(len(runs)) for r in range(len(st[k]))]
    owner = {}
    for k in range(len(runs)):
        for r, s in enumerate(st[k]):
            if style == 'first':
                owner.setdefault(s, (k, r))
            else:
                owner[s] = (k, r)
    return sorted(owner.values())


def row_dict(runs, k, r):
    run = runs[k]
    return dict(zip(run['columns'], run['rows'][r])), dict(zip(run['columns'], run['tokens'][r]))


BENIGN = ('single', 'disjoint', 'junction', 'overlap', 'restart0')


def relation(M, S):
    """Relation of the step set S of a later run to the set M of steps covered so far."""
    if not S:
        return 'empty-block', True, True
    if not M:
        return 'after-empty-block', True, True
    lo, hi, a, b = min(M), max(M), min(S), max(S)
    grid_last = {s for s in M if s >= a} <= S          # nothing of M at/after the restart point is missing in S
    grid_first = {s for s in S if s <= hi} <= M        # nothing of S inside the covered range is missing in M
    if a > hi:
        rel = 'disjoint'
    elif a == hi:
        rel = 'junction'
    elif a >= lo and b >= hi:
        rel = 'restart0' if (a == lo and a == 0) else 'overlap'
    elif a >= lo:
        rel = 'nested-range'                            # lo <= a, b < hi
    elif b >= hi:
        rel = 'starts-before'                           # a < lo, covers everything so far
    else:
        rel = 'out-of-order'                            # a < lo, b < hi (entirely or partly before)
    return rel, grid_last, grid_first


def flatten_class(steps, style):
    """Class of a list of per-run step lists for flatten(style): (label, status).

    status 'must-hold'  : completeness (every printed step appears) is required;
           'd12'        : later run not extending past ('last') / starting before ('first') the covered range;
           'exempt'     : overlapping runs printed on different step grids - which of the stale rows of the
                          earlier run survive is not fixed by the property (counted, completeness not judged);
           'empty'      : a block without rows takes part in the merge.
    The label of the first non-benign junction (in run order) names the log."""
    # blocks that printed no row do not take part in the merge (/repo d962039; before that repair they formed the
    # classes 'empty-block' / 'after-empty-block', status 'empty')
    steps = [S for S in steps if len(S) > 0] or steps[:1]
    if len(steps) == 1:
        return 'single', 'must-hold'
    M = set(steps[0])
    best = 'disjoint'
    rank = {n: i for i, n in enumerate(BENIGN)}
    for S in steps[1:]:
        S = set(S)
        rel, g_last, g_first = relation(M, S)
        if rel == 'empty-block':
            if style == 'last':
                return 'empty-block', 'empty'
        elif rel == 'after-empty-block':
            if style == 'first':
                return 'empty-block', 'empty'
        elif style == 'last':
            if rel in ('nested-range', 'out-of-order'):
                return rel, 'd12'
            if not g_last:
                return 'off-grid', 'exempt'
        elif style == 'first':
            if rel in ('out-of-order', 'starts-before'):
                return rel, 'd12'
            if not g_first:
                return 'off-grid', 'exempt'
        if rel in rank and rank[rel] > rank[best]:
            best = rel
        # nested ('first') / starts-before ('last') on a common grid lose nothing: they do not change the label
        M |= S
    return best, 'must-hold'


def backstep_then_overlap(steps):
    """Input class (property of the printed step ranges): a non-final run that printed rows ends below the highest
    step printed before it, and a later run prints a step at or below that highest step (0-1000, 200-600, 600-1400:
    a restart from an earlier checkpoint that is carried on past the end of the first attempt)."""
    steps = [S for S in steps if len(S) > 0]
    top = None
    for k, S in enumerate(steps):
        if top is not None and k < len(steps) - 1 and max(S) < top:
            if any(min(T) <= top for T in steps[k + 1:]):
                return True
        top = max(S) if top is None else max(top, max(S))
    return False


def int_printed_later(runs):
    """Input class for flatten('last'), per column: the names of the columns that are printed as whole numbers
    only in a run k >= 1 while another run that takes part in the merge cannot be represented in an integer
    column: an earlier run prints a fractional / nan / inf value there or lacks the keyword, or a later run
    lacks the keyword (e.g. Temp during an MD run followed by a minimization, or a thermo_style change)."""
    out = set()
    for k in range(1, len(runs)):
        rk = runs[k]
        for c, name in enumerate(rk['columns']):
            if name in out or column_kind([row[c] for row in rk['tokens']]) != 'int':
                continue
            for j in range(len(runs)):
                rj = runs[j]
                if j == k or not rj['rows']:
                    continue
                if name not in rj['columns']:
                    out.add(name)
                    break
                if j > k:
                    continue
                cj = rj['columns'].index(name)
                if any(isinstance(row[cj], float) and (not math.isfinite(row[cj]) or row[cj] != math.floor(row[cj]))
                       for row in rj['rows']):
                    out.add(name)
                    break
    return out
