"""C20 oracle: reference values for ODE one-step maps, gradients of smooth
test functions and the analytic two-minimum energy surface.

Written from the textbook definitions (Taylor series of the matrix
exponential, stationary points of a polynomial surface); numpy/scipy only.
Nothing here evaluates a Butcher tableau or a difference quotient: the
integrator reference is the truncated exponential series, the gradient
reference is the symbolic derivative.
"""
from __future__ import annotations

import math

import numpy as np
from scipy.linalg import expm


# --------------------------------------------------------------------------
# linear rate law y' = A y
# --------------------------------------------------------------------------
def taylor_terms(A, y, h, nterms):
    """[(hA)^k y / k!  for k = 0..nterms-1]; y may be (d,) or (n, d) (rows are states)."""
    A = np.asarray(A, float)
    y = np.asarray(y, float)
    out = [y.copy()]
    t = y.copy()
    for k in range(1, nterms):
        t = (t @ A.T) * (h / k)
        out.append(t)
    return out


def taylor_step(A, y, h, degree):
    """Degree-``degree`` Taylor polynomial of exp(hA) applied to y."""
    return sum(taylor_terms(A, y, h, degree + 1))


def exact_step(A, y, h):
    """exp(hA) y (scipy Pade/scaling-squaring; accurate to ~1e-15 ||.|| for the norms generated)."""
    A = np.asarray(A, float)
    y = np.asarray(y, float)
    return y @ expm(h * A).T


def step_scale(A, y, h, degree):
    """Magnitude against which a one-step comparison is relative: the sum of the
    max-norms of the Taylor terms formed with |A| and |y| (an upper bound of every
    intermediate quantity any evaluation order produces, hence of its rounding)."""
    return float(sum(np.abs(t).max() for t in taylor_terms(np.abs(A), np.abs(y), abs(h), degree + 1)))


def remainder_terms(A, y, h, order):
    """Max-norms of the first two neglected Taylor terms of a method of the given order."""
    t = taylor_terms(A, y, h, order + 3)
    return float(np.abs(t[order + 1]).max()), float(np.abs(t[order + 2]).max())


def fit_slope(hs, errs):
    """Least-squares slope of log(err) against log(h)."""
    hs = np.asarray(hs, float)
    errs = np.asarray(errs, float)
    x = np.log(hs) - np.log(hs).mean()
    return float((x * np.log(errs)).sum() / (x * x).sum())


# --------------------------------------------------------------------------
# smooth test functions with symbolic gradient and third derivatives
# --------------------------------------------------------------------------
class SmoothFunction:
    """f(p) = sum_i a_i sin(w_i p_i + phi_i) + 1/2 p.Q.p + g exp(b.p) + q (sum_i p_i^2)^2 / 4

    defined for arrays of any leading shape with last axis of length n.
    """

    def __init__(self, rng, n, kind):
        self.n = n
        self.kind = kind
        self.a = rng.uniform(0.5, 2.0, n) * rng.choice([-1, 1], n)
        self.w = rng.uniform(0.5, 2.0, n)
        self.phi = rng.uniform(0, 2 * math.pi, n)
        M = rng.normal(size=(n, n))
        self.Q = 0.5 * (M + M.T)
        self.b = rng.uniform(-0.7, 0.7, n)
        self.g = rng.uniform(0.3, 1.0)
        self.q = rng.uniform(0.2, 1.0)
        if kind == 'trig':
            self.Q[:] = 0; self.g = 0.0; self.q = 0.0
        elif kind == 'quadratic':         # central difference is exact: error must be rounding only
            self.a[:] = 0; self.g = 0.0; self.q = 0.0
        elif kind == 'exp':
            self.a[:] = 0; self.q = 0.0
        elif kind == 'quartic':
            self.a[:] = 0; self.g = 0.0
        # 'mixed' keeps everything
        self.ncalls = 0

    def __call__(self, p):
        self.ncalls += 1
        p = np.asarray(p, float)
        assert p.shape[-1] == self.n
        r2 = (p * p).sum(axis=-1)
        return ((self.a * np.sin(self.w * p + self.phi)).sum(axis=-1)
                + 0.5 * np.einsum('...i,ij,...j->...', p, self.Q, p)
                + self.g * np.exp(p @ self.b)
                + 0.25 * self.q * r2 * r2)

    def grad(self, p):
        p = np.asarray(p, float)
        r2 = (p * p).sum(axis=-1)[..., None]
        e = np.exp(p @ self.b)[..., None]
        return (self.a * self.w * np.cos(self.w * p + self.phi)
                + p @ self.Q
                + self.g * e * self.b
                + self.q * r2 * p)

    def d3(self, p):
        """d^3 f / d p_i^3 for each i (leading coefficient of the central-difference error)."""
        p = np.asarray(p, float)
        e = np.exp(p @ self.b)[..., None]
        return (-self.a * self.w ** 3 * np.cos(self.w * p + self.phi)
                + self.g * e * self.b ** 3
                + 6.0 * self.q * p)

    def d5_bound(self, p, shift):
        """Bound on |d^5 f / d p_i^5| within ``shift`` of p (next term of the error expansion)."""
        p = np.asarray(p, float)
        e = np.exp(p @ self.b + np.abs(self.b).max() * shift)[..., None]
        return np.abs(self.a) * self.w ** 5 + self.g * e * np.abs(self.b) ** 5

    def magnitude(self, p):
        """Scale of |f| near p (rounding of the difference quotient is eps*|f|/shift)."""
        p = np.asarray(p, float)
        r2 = (p * p).sum(axis=-1)
        return (np.abs(self.a).sum() + 0.5 * np.abs(self.Q).sum() * r2.max(initial=0.0)
                + self.g * np.exp(np.abs(p @ self.b)).max(initial=1.0) + 0.25 * self.q * (r2 * r2).max(initial=0.0) + 1.0)


# --------------------------------------------------------------------------
# two-minimum surface  E(x, y) = (x^2-1)^2 + k (y - c (x^2-1))^2
# --------------------------------------------------------------------------
class TwoMinimum:
    """Minima (+-1, 0) with E = 0, saddle (0, -c) with E = 1 (the only stationary
    points: dE/dy = 0 forces y = c(x^2-1), then dE/dx = 4x(x^2-1))."""

    def __init__(self, k, c):
        self.k, self.c = float(k), float(c)
        self.ncalls = 0
        self.minima = np.array([[-1.0, 0.0], [1.0, 0.0]])
        self.saddle = np.array([0.0, -self.c])
        self.barrier = 1.0

    def __call__(self, p):
        self.ncalls += 1
        p = np.asarray(p, float)
        x, y = p[..., 0], p[..., 1]
        u = x * x - 1.0
        w = y - self.c * u
        return u * u + self.k * w * w

    def grad(self, p):
        p = np.asarray(p, float)
        x, y = p[..., 0], p[..., 1]
        u = x * x - 1.0
        w = y - self.c * u
        g = np.empty(p.shape, float)
        g[..., 0] = 4.0 * x * u - 4.0 * self.k * self.c * x * w
        g[..., 1] = 2.0 * self.k * w
        return g

    def d3(self, p):
        """Unmixed third derivatives (d3E/dx3, d3E/dy3) = (24 x (1 + k c^2), 0)."""
        p = np.asarray(p, float)
        out = np.zeros(p.shape, float)
        out[..., 0] = 24.0 * p[..., 0] * (1.0 + self.k * self.c ** 2)
        return out

    def d5_bound(self, p, shift):
        """E is a quartic polynomial: fifth derivatives vanish."""
        return np.zeros(np.shape(p), float)

    def magnitude(self, p):
        return float(np.max(self.__call__(p), initial=0.0)) + 1.0

    def hessian(self, p):
        x, y = float(p[0]), float(p[1])
        k, c = self.k, self.c
        u = x * x - 1.0
        w = y - c * u
        hxx = 12.0 * x * x - 4.0 - 4.0 * k * c * w + 8.0 * k * c * c * x * x
        hxy = -4.0 * k * c * x
        hyy = 2.0 * k
        return np.array([[hxx, hxy], [hxy, hyy]])

    def curvatures(self):
        """(smallest, largest) Hessian eigenvalue at the minima and (|negative|, positive) at the saddle."""
        em = np.linalg.eigvalsh(self.hessian(self.minima[1]))
        es = np.linalg.eigvalsh(self.hessian(self.saddle))
        return dict(min_lo=float(em[0]), min_hi=float(em[1]), sad_neg=float(-es[0]), sad_pos=float(es[1]))

    def max_curvature(self, box=((-1.5, 1.5), (-1.2, 1.2)), n=41):
        """Largest |Hessian eigenvalue| on a grid covering the region the strings live in
        (stability limit of an explicit integrator is ~2/this for Euler, ~2.78/this for RK4)."""
        m = 0.0
        for x in np.linspace(box[0][0], box[0][1], n):
            for y in np.linspace(box[1][0], box[1][1], n):
                m = max(m, float(np.abs(np.linalg.eigvalsh(self.hessian((x, y)))).max()))
        return m


# --------------------------------------------------------------------------
# strings: arc length, tangents, not-a-knot cubic spline (from the definition)
# --------------------------------------------------------------------------
def arc_coordinates(coord):
    """Cumulative chord length along a polyline of points (N, dim)."""
    coord = np.asarray(coord, float)
    seg = np.sqrt(((coord[1:] - coord[:-1]) ** 2).sum(axis=1))
    return np.concatenate([[0.0], np.cumsum(seg)])


def unit_chords(coord):
    coord = np.asarray(coord, float)
    d = coord[1:] - coord[:-1]
    return d / np.sqrt((d * d).sum(axis=1))[:, None]


def turning_angles(coord):
    """Angle between successive chords at the interior points."""
    u = unit_chords(coord)
    return np.arccos(np.clip((u[1:] * u[:-1]).sum(axis=1), -1.0, 1.0))


def tangent_in_cone(coord, tau, tol=1e-9, rows=None):
    """For every point: tau is a unit vector; at the ends it is the end chord
    direction; at interior points it is a non-negative combination of the two
    adjacent unit chords (any sensible discrete tangent is).  Returns
    (unit_ok, ends_ok, cone_ok); ``tau`` has one row per point, ``rows`` restricts the cone test."""
    coord = np.asarray(coord, float)
    tau = np.asarray(tau, float)
    u = unit_chords(coord)
    unit_ok = np.abs(np.sqrt((tau * tau).sum(axis=1)) - 1.0) < 1e-12
    ends_ok = bool(np.abs(tau[0] - u[0]).max() < 1e-12 and np.abs(tau[-1] - u[-1]).max() < 1e-12)
    cone_ok = np.ones(len(coord), bool)
    for i in (range(1, len(coord) - 1) if rows is None else rows):
        if i <= 0 or i >= len(coord) - 1:
            continue
        B = np.stack([u[i - 1], u[i]], axis=1)                 # dim x 2
        ab, res, rk, sv = np.linalg.lstsq(B, tau[i], rcond=None)
        fit = B @ ab
        if rk < 2:                                             # collinear chords: tau must be that direction
            cone_ok[i] = np.abs(tau[i] - u[i]).max() < 1e-9
        else:
            cone_ok[i] = (np.abs(fit - tau[i]).max() < 1e-9) and ab[0] >= -tol and ab[1] >= -tol
    return unit_ok, ends_ok, cone_ok


def notaknot_spline(x, Y, xq):
    """Interpolating C2 piecewise-cubic through (x_i, Y_i) with the not-a-knot end
    conditions (third derivative continuous across x_1 and x_{n-2}), evaluated at xq.
    Y may have trailing dimensions.  Solves the textbook system for the knot second
    derivatives M_i; needs at least 4 knots."""
    x = np.asarray(x, float)
    Y = np.asarray(Y, float)
    xq = np.asarray(xq, float)
    n = len(x)
    assert n >= 4 and np.all(np.diff(x) > 0)
    h = np.diff(x)
    Yf = Y.reshape(n, -1)
    T = np.zeros((n, n))
    R = np.zeros((n, Yf.shape[1]))
    for i in range(1, n - 1):
        T[i, i - 1] = h[i - 1]
        T[i, i] = 2.0 * (h[i - 1] + h[i])
        T[i, i + 1] = h[i]
        R[i] = 6.0 * ((Yf[i + 1] - Yf[i]) / h[i] - (Yf[i] - Yf[i - 1]) / h[i - 1])
    # the third derivative is (M_{i+1}-M_i)/h_i on interval i: equal on the first two and on the last two intervals
    T[0, 0], T[0, 1], T[0, 2] = h[1], -(h[0] + h[1]), h[0]
    T[-1, -3], T[-1, -2], T[-1, -1] = h[-1], -(h[-2] + h[-1]), h[-2]
    M = np.linalg.solve(T, R)
    j = np.clip(np.searchsorted(x, xq, side='right') - 1, 0, n - 2)
    hj = h[j][:, None]
    a = (x[j + 1] - xq)[:, None]
    b = (xq - x[j])[:, None]
    out = ((M[j] * a ** 3 + M[j + 1] * b ** 3) / (6.0 * hj)
           + (Yf[j] / hj - M[j] * hj / 6.0) * a + (Yf[j + 1] / hj - M[j + 1] * hj / 6.0) * b)
    return out.reshape((len(xq),) + Y.shape[1:])


def respaced(icoord, climb):
    """What a string step must return from the integrated coordinates: the same
    curve (cubic spline through the integrated points, parametrised by their
    cumulative chord length) sampled at equal parameter spacing inside each
    segment delimited by the end points and the climbing images (which stay put)."""
    icoord = np.asarray(icoord, float)
    al = arc_coordinates(icoord)
    knots = sorted(set([0] + [int(c) for c in climb] + [len(icoord) - 1]))
    new = al.copy()
    for s, e in zip(knots[:-1], knots[1:]):
        new[s:e + 1] = al[s] + (al[e] - al[s]) * np.arange(e - s + 1) / (e - s)
    return notaknot_spline(al, icoord, new), al, new


def interior_maxima(energy):
    e = np.asarray(energy, float)
    return [i for i in range(1, len(e) - 1) if e[i] > e[i - 1] and e[i] > e[i + 1]]


def selfcheck():
    """Hand-checkable facts (run by the property module once per worker)."""
    rng = np.random.default_rng(5)
    # exp series: degree 30 equals expm
    A = rng.normal(size=(4, 4)); y = rng.normal(size=4)
    assert np.allclose(taylor_step(A, y, 0.3, 30), exact_step(A, y, 0.3), rtol=0, atol=1e-13)
    assert np.allclose(taylor_step(A, y, 0.3, 1), y + 0.3 * A @ y)
    assert np.allclose(taylor_step([[2.0]], [1.0], 0.5, 4), [1 + 1 + 0.5 + 1 / 6 + 1 / 24])
    assert abs(fit_slope([1, .5, .25], [8, 1, .125]) - 3) < 1e-12
    # surface
    S = TwoMinimum(1.7, 0.4)
    assert np.allclose(S(S.minima), 0) and abs(S(S.saddle) - 1) < 1e-15
    assert np.allclose(S.grad(S.minima), 0) and np.allclose(S.grad(S.saddle), 0)
    assert np.allclose(np.linalg.eigvalsh(S.hessian(S.saddle)), [-4, 3.4])
    # symbolic gradient/hessian/d3 against high-order complex-free Richardson differences
    p = np.array([0.3, -0.7])
    hh = 1e-3
    for i in range(2):
        d = np.zeros(2); d[i] = hh
        num = (8 * (S(p + d) - S(p - d)) - (S(p + 2 * d) - S(p - 2 * d))) / (12 * hh)
        assert abs(num - S.grad(p)[i]) < 1e-9
        numh = (8 * (S.grad(p + d) - S.grad(p - d)) - (S.grad(p + 2 * d) - S.grad(p - 2 * d))) / (12 * hh)
        assert np.allclose(numh, S.hessian(p)[i], atol=1e-8)
    for kind in ('mixed', 'trig', 'quadratic', 'exp', 'quartic'):
        F = SmoothFunction(rng, 3, kind)
        p = rng.uniform(-1, 1, (2, 3))
        for i in range(3):
            d = np.zeros(3); d[i] = hh
            num = (8 * (F(p + d) - F(p - d)) - (F(p + 2 * d) - F(p - 2 * d))) / (12 * hh)
            assert np.allclose(num, F.grad(p)[..., i], atol=1e-8)
            # third derivative by differencing the symbolic gradient twice
            g = lambda q: F.grad(q)[..., i]
            num3 = (g(p + d) - 2 * g(p) + g(p - d)) / hh ** 2
            assert np.allclose(num3, F.d3(p)[..., i], atol=1e-4)
    # not-a-knot spline: reproduces cubics exactly, agrees with scipy's default CubicSpline
    from scipy.interpolate import CubicSpline
    x = np.sort(rng.uniform(0, 3, 9)); xq = np.linspace(x[0], x[-1], 23)
    cub = lambda t: np.stack([1 - 2 * t + 0.5 * t ** 3, t ** 2 - 0.3 * t ** 3], axis=1)
    assert np.allclose(notaknot_spline(x, cub(x), xq), cub(xq), atol=1e-12)
    Y = rng.normal(size=(9, 2))
    assert np.allclose(notaknot_spline(x, Y, xq), CubicSpline(x, Y)(xq), atol=1e-11)
    assert np.allclose(arc_coordinates([[0, 0], [3, 4], [3, 5]]), [0, 5, 6])
    assert interior_maxima([0, 1, 0, 2, 3, 1]) == [1, 4]
    sq = np.array([[0., 0], [1, 0], [1, 1]])
    assert np.allclose(turning_angles(sq), [math.pi / 2])
    t = np.array([[1., 0], [2 ** -.5, 2 ** -.5], [0, 1.]])
    assert all(tangent_in_cone(sq, t)[2]) and tangent_in_cone(sq, t)[1]
    assert not tangent_in_cone(sq, np.array([[1., 0], [2 ** -.5, -2 ** -.5], [0, 1.]]))[2][1]
    return True
