"""Reference geometry written from definitions; numpy only, never atomman."""
from __future__ import annotations

import itertools

import numpy as np


def lengths_angles(vects):
    v = np.asarray(vects, float)
    a, b, c = (np.linalg.norm(v[i]) for i in range(3))

    def ang(x, y):
        return np.degrees(np.arccos(np.clip(np.dot(x, y) / (np.linalg.norm(x) * np.linalg.norm(y)), -1, 1)))
    return a, b, c, ang(v[1], v[2]), ang(v[0], v[2]), ang(v[0], v[1])


def volume(vects):
    v = np.asarray(vects, float)
    return float(np.dot(v[0], np.cross(v[1], v[2])))


def perp_widths(vects):
    v = np.asarray(vects, float)
    vol = abs(volume(v))
    return np.array([vol / np.linalg.norm(np.cross(v[1], v[2])),
                     vol / np.linalg.norm(np.cross(v[2], v[0])),
                     vol / np.linalg.norm(np.cross(v[0], v[1]))])


def lammps_from_abc(a, b, c, alpha, beta, gamma):
    """LAMMPS triangular form from lengths/angles (LAMMPS manual, triclinic)."""
    ca, cb, cg = (np.cos(np.radians(x)) for x in (alpha, beta, gamma))
    lx = a
    xy = b * cg
    xz = c * cb
    ly = np.sqrt(b * b - xy * xy)
    yz = (b * c * ca - xy * xz) / ly
    lz = np.sqrt(c * c - xz * xz - yz * yz)
    return lx, ly, lz, xy, xz, yz


def vects_from_lammps(lx, ly, lz, xy=0.0, xz=0.0, yz=0.0):
    return np.array([[lx, 0.0, 0.0], [xy, ly, 0.0], [xz, yz, lz]], float)


def realisable(alpha, beta, gamma, minfrac=0.1):
    ca, cb, cg = (np.cos(np.radians(x)) for x in (alpha, beta, gamma))
    d = 1 + 2 * ca * cb * cg - ca * ca - cb * cb - cg * cg
    return d > minfrac ** 2


def rel(points, vects, origin):
    """Box-relative coordinates by a direct linear solve."""
    p = np.asarray(points, float) - np.asarray(origin, float)
    return np.linalg.solve(np.asarray(vects, float).T, p.reshape(-1, 3).T).T.reshape(p.shape)


def cart(relpts, vects, origin):
    r = np.asarray(relpts, float)
    v = np.asarray(vects, float)
    return r[..., 0:1] * v[0] + r[..., 1:2] * v[1] + r[..., 2:3] * v[2] + np.asarray(origin, float)


def shifts27(vects, pbc):
    v = np.asarray(vects, float)
    rng = [(-1, 0, 1) if p else (0,) for p in pbc]
    ns = np.array(list(itertools.product(*rng)), float)
    return ns, ns @ v


def min27(d, vects, pbc):
    """Shortest of the <=27 candidates d + n.vects, n in {-1,0,1} on periodic axes.
    d: (...,3).  Returns (length, vector, all candidate lengths)."""
    d = np.asarray(d, float)
    _, sh = shifts27(vects, pbc)
    cand = d[..., None, :] + sh            # (...,K,3)
    ln = np.linalg.norm(cand, axis=-1)
    k = np.argmin(ln, axis=-1)
    best = np.take_along_axis(cand, k[..., None, None], axis=-2)[..., 0, :]
    return np.min(ln, axis=-1), best, ln


def nearest_image(d, vects, pbc):
    """True nearest image of one separation d by exhaustive lattice search.
    Any lattice vector T with |d+T| <= |d| has |T| <= 2|d|, and its integer
    coefficient along axis i is bounded by |T| / w_i (w_i perpendicular width)."""
    d = np.asarray(d, float)
    v = np.asarray(vects, float)
    w = perp_widths(v)
    # first reduce d with the 27-image result to keep the radius small
    l0, d0, _ = min27(d, v, pbc)
    r = 2 * l0
    rng = []
    for i in range(3):
        if pbc[i]:
            m = int(np.floor(r / w[i])) + 1
            rng.append(range(-m, m + 1))
        else:
            rng.append((0,))
    ns = np.array(list(itertools.product(*rng)), float)
    cand = d0 + ns @ v
    ln = np.linalg.norm(cand, axis=1)
    k = int(np.argmin(ln))
    return float(ln[k]), cand[k]


def is_rotation(T, tol=1e-9):
    T = np.asarray(T, float)
    return bool(np.allclose(T @ T.T, np.eye(3), atol=tol) and abs(np.linalg.det(T) - 1) < tol)


def random_rotation(rng):
    q = rng.normal(size=4)
    q /= np.linalg.norm(q)
    w, x, y, z = q
    return np.array([[1 - 2 * (y * y + z * z), 2 * (x * y - z * w), 2 * (x * z + y * w)],
                     [2 * (x * y + z * w), 1 - 2 * (x * x + z * z), 2 * (y * z - x * w)],
                     [2 * (x * z - y * w), 2 * (y * z + x * w), 1 - 2 * (x * x + y * y)]])


def is_lammps_form(vects, tol=1e-9):
    v = np.asarray(vects, float)
    m = np.abs(v).max()
    return bool(abs(v[0, 1]) <= tol * m and abs(v[0, 2]) <= tol * m and abs(v[1, 2]) <= tol * m
                and v[0, 0] > 0 and v[1, 1] > 0 and v[2, 2] > 0)
