"""C01 - Box definitions and coordinate maps agree."""
from __future__ import annotations

import numpy as np

from ..core import fingerprint
from ..gen import cells
from ..oracle import geometry as G
from .. import monitor

# monitors are self-sufficient (judge a call from its arguments and result): the repository's own tests run under them
# as an extra workload in the thorough tier (vf/repotests.py)
REPOTESTS = True

RULE = ('cells are generated round-robin over 9 kinds (7 crystal families in LAMMPS form, strongly tilted, '
        'randomly rotated) x 3 origin classes x 3 length scales; a case is non-trivial when the cell is not the '
        'unit cube at the origin and at least one tilt/angle/origin component is non-zero; distinct = distinct '
        'fingerprint of (vectors, origin).  Histories are sequences of 3-8 set_* calls on one object.')
ASSUMPTIONS = ['cells are right-handed with volume >= 10% of a*b*c (condition number < ~1e2)',
               'points closer than the stated bound to a face are exempt from the inside clause',
               'oracle shares numpy/LAPACK with the code under test']

SETS = ('vectors', 'abc', 'lengths', 'hilo')


def read_set(box, name):
    if name == 'vectors':
        return dict(avect=box.avect, bvect=box.bvect, cvect=box.cvect, origin=box.origin)
    if name == 'abc':
        return dict(a=box.a, b=box.b, c=box.c, alpha=box.alpha, beta=box.beta, gamma=box.gamma, origin=box.origin)
    if name == 'lengths':
        return dict(lx=box.lx, ly=box.ly, lz=box.lz, xy=box.xy, xz=box.xz, yz=box.yz, origin=box.origin)
    if name == 'hilo':
        return dict(xlo=box.xlo, xhi=box.xhi, ylo=box.ylo, yhi=box.yhi, zlo=box.zlo, zhi=box.zhi,
                    xy=box.xy, xz=box.xz, yz=box.yz)
    raise ValueError(name)


def truth_set(cell, name):
    """The same parameter sets computed by the oracle from the ground-truth cell."""
    v, o = cell['vects'], cell['origin']
    if name == 'vectors':
        return dict(avect=v[0], bvect=v[1], cvect=v[2], origin=o)
    a, b, c, al, be, ga = G.lengths_angles(v)
    if name == 'abc':
        return dict(a=a, b=b, c=c, alpha=al, beta=be, gamma=ga, origin=o)
    assert cell['lammps']
    if name == 'lengths':
        return dict(lx=v[0, 0], ly=v[1, 1], lz=v[2, 2], xy=v[1, 0], xz=v[2, 0], yz=v[2, 1], origin=o)
    return dict(xlo=o[0], xhi=o[0] + v[0, 0], ylo=o[1], yhi=o[1] + v[1, 1], zlo=o[2], zhi=o[2] + v[2, 2],
                xy=v[1, 0], xz=v[2, 0], yz=v[2, 1])


def check_box_against(rec, box, vects, origin, lammps, L, what, **detail):
    """box describes the cell (vects, origin): identical if LAMMPS-form, same
    Gram matrix + right-handed otherwise."""
    tolL = 1e-8 * L
    bv, bo = box.vects, box.origin
    if lammps:
        rec.close(tolL, bv, vects, 'same vectors after ' + what, f'{what}:vects', **detail)
    else:
        rec.close(1e-8 * L * L, bv @ bv.T, vects @ vects.T, 'same Gram matrix after ' + what, f'{what}:gram', **detail)
        rec.check(G.volume(bv) > 0, 'right-handed after ' + what, f'{what}:handed', **detail)
    rec.close(tolL + 1e-12 * np.abs(origin).max(), bo, origin, 'same origin after ' + what, f'{what}:origin', **detail)


def check_getters(rec, box, key='getters'):
    """Reported lengths, angles, volume, LAMMPS parameters, reciprocal vectors are those of the vectors."""
    v, o = box.vects, box.origin
    L = np.linalg.norm(v, axis=1).max()
    a, b, c, al, be, ga = G.lengths_angles(v)
    rec.close(1e-10 * L, [box.a, box.b, box.c], [a, b, c], 'a,b,c are the vector lengths', key + ':abc')
    rec.close(1e-6, [box.alpha, box.beta, box.gamma], [al, be, ga], 'alpha,beta,gamma are the vector angles', key + ':angles')
    rec.close(1e-9 * L ** 3, box.volume, abs(G.volume(v)), 'volume is the triple product', key + ':volume')
    r = box.reciprocal_vects
    rec.close(1e-9, v @ np.asarray(r).T, np.eye(3), 'reciprocal vectors are dual to the cell vectors', key + ':dual')
    if G.is_lammps_form(v, 0.0):
        got = [box.lx, box.ly, box.lz, box.xy, box.xz, box.yz]
        rec.close(1e-12 * L, got, [v[0, 0], v[1, 1], v[2, 2], v[1, 0], v[2, 0], v[2, 1]], 'lx..yz are the vector components', key + ':lengths')
        got = [box.xlo, box.xhi, box.ylo, box.yhi, box.zlo, box.zhi]
        exp = [o[0], o[0] + v[0, 0], o[1], o[1] + v[1, 1], o[2], o[2] + v[2, 2]]
        rec.close(1e-12 * (L + np.abs(o).max()), got, exp, 'lo/hi are origin and origin+length', key + ':hilo')


def gen_points(rng, box_vects, box_origin, shape_class, L):
    """Relative coordinates with interior, exterior, far, near-face and on-face entries."""
    n = {'single': 1, 'N': 12, 'MN': 12}[shape_class]
    rel = rng.uniform(-0.6, 1.6, (n, 3))
    k = rng.integers(0, 6, n)
    for j in range(n):
        if k[j] == 0:
            rel[j] = rng.uniform(0.05, 0.95, 3)                       # interior
        elif k[j] == 1:
            rel[j] = rng.uniform(-40, 40, 3)                          # far exterior
        elif k[j] == 2:                                               # just inside / outside a face
            ax = rng.integers(0, 3)
            rel[j] = rng.uniform(0.1, 0.9, 3)
            rel[j, ax] = rng.choice([0.0, 1.0]) + rng.choice([-1, 1]) * 10 ** rng.uniform(-6, -2)
        elif k[j] == 3:                                               # exactly on a face / edge / corner
            rel[j] = rng.uniform(0.1, 0.9, 3)
            for ax in range(3):
                if rng.random() < 0.5:
                    rel[j, ax] = rng.choice([0.0, 1.0])
    if shape_class == 'single':
        return rel[0]
    if shape_class == 'MN':
        return rel.reshape(3, 4, 3)
    return rel


def check_points(rec, box, rng, shape_class, as_list):
    v, o = box.vects, box.origin
    L = np.linalg.norm(v, axis=1).max()
    osc = 1.0 + np.abs(o).max() / L
    rel = gen_points(rng, v, o, shape_class, L)
    cart_exp = G.cart(rel, v, o)
    arg = rel.tolist() if as_list else rel
    tolc = 1e-9 * (L * (1 + np.abs(rel).max()) + np.abs(o).max())
    tolr = 1e-9 * osc * (1 + np.abs(rel).max())
    key = f'points:{shape_class}:{"list" if as_list else "array"}'
    cart = None
    try:
        cart = box.position_relative_to_cartesian(arg)
    except Exception as e:
        rec.fail('relative->Cartesian conversion accepts array-likes of any leading shape', 'rel2cart:exception:' + key, exception=e, rel=rel)
    if cart is not None:
        rec.close(tolc, cart, cart_exp, 'relative->Cartesian equals rel.vects+origin', 'rel2cart:' + key, rel=rel, vects=v, origin=o)
    carg = cart_exp.tolist() if as_list else cart_exp
    back = None
    try:
        back = box.position_cartesian_to_relative(carg)
    except Exception as e:
        rec.fail('Cartesian->relative conversion accepts array-likes of any leading shape', 'cart2rel:exception:' + key, exception=e, cart=cart_exp)
    if back is not None:
        rec.close(tolr, back, rel, 'Cartesian->relative inverts relative->Cartesian', 'cart2rel:' + key, rel=rel, vects=v, origin=o)
        rec.close(tolr, back, G.rel(cart_exp, v, o), 'Cartesian->relative equals the linear solve', 'cart2rel:solve:' + key)
    if cart is not None:
        try:
            rt = box.position_relative_to_cartesian(box.position_cartesian_to_relative(cart))
            rec.close(2 * tolc, rt, cart, 'cart->rel->cart is the identity', 'roundtrip:cart:' + key)
        except Exception:
            pass
    # inside / outside
    bound = 1e-8 * osc
    rel2 = rel.reshape(-1, 3)
    dist = np.minimum(np.abs(rel2), np.abs(rel2 - 1)).min(axis=1)
    exempt = dist < bound
    exp_in = np.all((rel2 >= 0) & (rel2 <= 1), axis=1)
    rec.count('points', len(rel2))
    rec.count('points_exempt_on_face', int(exempt.sum()))
    rec.count('points_inside', int((exp_in & ~exempt).sum()))
    rec.count('points_outside', int((~exp_in & ~exempt).sum()))
    for inclusive in (True, False):
        try:
            got = np.asarray(box.inside(carg, inclusive=inclusive)).reshape(-1)
            gout = np.asarray(box.outside(carg, inclusive=not inclusive)).reshape(-1)
        except Exception as e:
            rec.fail('inside/outside accept arrays of points', 'inside:exception:' + key, exception=e)
            continue
        ok = (got == exp_in) | exempt
        rec.check(ok.all(), 'inside(p) iff all relative coordinates in [0,1] (points beyond the bound from every face)',
                  f'inside:{"incl" if inclusive else "excl"}', rel=rel2[~ok][:3], got=got[~ok][:3], vects=v, origin=o)
        rec.check((gout == ~got).all(), 'outside(p, inclusive) is the complement of inside(p, not inclusive)', 'outside:complement')
    # exactly-on-face points (constructed in relative coordinates) under the cell's own origin 0:
    return rel


def build(am, pset, vals):
    if pset == 'vectors':
        return am.Box(avect=vals['avect'], bvect=vals['bvect'], cvect=vals['cvect'], origin=vals['origin'])
    return am.Box(**vals)


def install_monitors(rec, am):
    """Postcondition monitors on the real Box methods (fire on every call,
    including the ones atomman makes internally)."""
    Box = am.Box

    def post_r2c(args, kwargs, result, exc, old):
        if exc is not None:
            return
        box = args[0]
        relpos = np.asarray(args[1] if len(args) > 1 else kwargs['relpos'], float)
        v, o = box.vects, box.origin
        L = np.linalg.norm(v, axis=1).max()
        tol = 1e-9 * (L * (1 + np.abs(relpos).max(initial=0)) + np.abs(o).max())
        rec.close(tol, result, G.cart(relpos, v, o), 'monitor: relative->Cartesian postcondition', 'monitor:rel2cart')

    def post_c2r(args, kwargs, result, exc, old):
        if exc is not None:
            return
        box = args[0]
        cartpos = np.asarray(args[1] if len(args) > 1 else kwargs['cartpos'], float)
        v, o = box.vects, box.origin
        L = np.linalg.norm(v, axis=1).max()
        exp = G.rel(cartpos, v, o)
        tol = 1e-9 * (1 + np.abs(o).max() / L) * (1 + np.abs(exp).max(initial=0))
        rec.close(tol, result, exp, 'monitor: Cartesian->relative postcondition', 'monitor:cart2rel')

    def post_setter(args, kwargs, result, exc, old):
        if exc is not None:
            return
        box = args[0]
        cached = box._Box__reciprocal_vects
        if cached is not None:
            rec.close(1e-9, box.vects @ np.asarray(cached).T, np.eye(3),
                      'monitor: cached reciprocal vectors are dual to the current vectors', 'monitor:stale-reciprocal')
        rec.count('monitor:vects-setter')

    monitor.observe(Box, 'position_relative_to_cartesian', post_r2c)
    monitor.observe(Box, 'position_cartesian_to_relative', post_c2r)
    # the vects property setter
    prop = Box.__dict__['vects']
    real_set = prop.fset

    def fset(self, value):
        real_set(self, value)
        try:
            post_setter((self,), {}, None, None, None)
        except Exception:
            pass
    Box.vects = property(prop.fget, fset, prop.fdel, prop.__doc__)


def run(ctx):
    import atomman as am
    rec = ctx.rec
    install_monitors(rec, am)

    n_boxes = ctx.pick(432, 4320)
    for i in ctx.cases('boxes', n_boxes):
        rng = ctx.rng
        kind, oc, scale = cells.stratified(i)
        cell = cells.gen_cell(rng, kind, oc, scale)
        v, o, L = cell['vects'], cell['origin'], cell['L']
        rec.case((kind, oc, scale), nontrivial=True, fp=fingerprint(v, o))
        if i < 27:
            rec.sample(dict(kind=kind, vects=v, origin=o))
        sets = SETS if cell['lammps'] else ('vectors', 'abc')
        # every ordered pair of parameter sets: build from A (ground truth), read through B, rebuild
        for A in sets:
            boxA = None
            with ctx.guard(f'Box can be built from the {A} parameter set', f'build:{A}'):
                boxA = build(am, A, truth_set(cell, A))
            if boxA is None:
                continue
            rec.count('monitor:Box-built')
            exact = cell['lammps'] or A != 'abc'      # abc input of a rotated cell gives its LAMMPS orientation
            check_box_against(rec, boxA, v, o, exact, L, f'build({A})', kind=kind)
            check_getters(rec, boxA, f'getters:{A}')
            setsB = SETS if G.is_lammps_form(boxA.vects, 0.0) else ('vectors', 'abc')
            for B in setsB:
                boxB = None
                with ctx.guard(f'reading {B} from a box built with {A} and rebuilding', f'pair:{A}->{B}'):
                    vals = read_set(boxA, B)
                    boxB = build(am, B, vals)
                if boxB is None:
                    continue
                rec.count('pairs')
                same_orient = G.is_lammps_form(boxA.vects, 0.0) or B == 'vectors'
                check_box_against(rec, boxB, boxA.vects, boxA.origin, same_orient, L, f'{A}->{B}', kind=kind)
        # points on the vectors-built box
        box = build(am, 'vectors', truth_set(cell, 'vectors'))
        for shape_class in ('single', 'N', 'MN'):
            check_points(rec, box, rng, shape_class, as_list=bool((i + len(shape_class)) % 2))

    # histories: successive set_* calls on ONE object interleaved with cached reads
    n_hist = ctx.pick(200, 2400)
    for i in ctx.cases('histories', n_hist):
        rng = ctx.rng
        box = am.Box()
        ops = []
        nops = int(rng.integers(3, 9))
        for step in range(nops):
            kind = cells.KINDS[int(rng.integers(0, len(cells.KINDS)))]
            cell = cells.gen_cell(rng, kind, cells.ORIGINS[int(rng.integers(0, 3))], 1.0)
            choices = ['vects=', 'set(vects)', 'set_vectors', 'set_abc'] + (['set_lengths', 'set_hi_los', 'set(lx)', 'set(xlo)'] if cell['lammps'] else [])
            op = choices[int(rng.integers(0, len(choices)))]
            ops.append((op, kind))
            if rng.random() < 0.7:
                _ = box.reciprocal_vects            # populate the cache before the change
                rec.count('history:cache-populated-before-set')
            v, o = cell['vects'], cell['origin']
            exp_v, exp_o, lam = v, o, cell['lammps']
            with ctx.guard(f'history step {op}', f'history:{op}'):
                if op == 'vects=':
                    box.vects = v
                    exp_o = box.origin
                elif op == 'set(vects)':
                    box.set(vects=v, origin=o)
                elif op == 'set_vectors':
                    box.set_vectors(avect=v[0], bvect=v[1], cvect=v[2], origin=o)
                elif op == 'set_abc':
                    t = truth_set(cell, 'abc')
                    box.set_abc(**t)
                    exp_v = G.vects_from_lammps(*G.lammps_from_abc(*[t[k] for k in ('a', 'b', 'c', 'alpha', 'beta', 'gamma')]))
                    lam = True
                elif op == 'set_lengths':
                    box.set_lengths(**truth_set(cell, 'lengths'))
                elif op == 'set(lx)':
                    box.set(**truth_set(cell, 'lengths'))
                elif op == 'set_hi_los':
                    box.set_hi_los(**truth_set(cell, 'hilo'))
                elif op == 'set(xlo)':
                    box.set(**truth_set(cell, 'hilo'))
                check_box_against(rec, box, exp_v, exp_o, True, cell['L'], f'history:{op}', ops=ops)
                check_getters(rec, box, 'history:getters')
                check_points(rec, box, rng, 'N', as_list=False)
        rec.case(('history', nops, tuple(o_[0] for o_ in ops)), nontrivial=nops >= 3, fp=fingerprint(ops, i, ctx.seed))
        if i < 16:
            rec.sample(dict(ops=ops))

    for k, v_ in monitor.calls.items():
        if isinstance(v_, int):
            rec.count('monitor_calls:' + k, v_)
    rec.floor('monitor_calls:Box.position_cartesian_to_relative', 100)
    rec.floor('monitor_calls:Box.position_relative_to_cartesian', 100)
    rec.floor('monitor:vects-setter', 100)
    rec.floor('history:cache-populated-before-set', 20)
    rec.floor('points_inside', 50)
    rec.floor('points_outside', 50)
    rec.floor('pairs', 100)
