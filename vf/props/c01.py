"""C01 - Box definitions and coordinate maps agree."""
from __future__ import annotations

import copy
import inspect

import numpy as np

from ..core import fingerprint
from ..gen import c01_cells as C
from ..oracle import geometry as G
from ..oracle import c01_faces as F
from .. import monitor

# monitors are self-sufficient (judge a call from its arguments and result): the repository's own tests run under them
# as an extra workload in the thorough tier (vf/repotests.py)
REPOTESTS = True

RULE = ('boxes: cells round-robin over 9 kinds (7 crystal families in LAMMPS form, strongly tilted, randomly rotated) '
        'x 4 origin classes (0, O(L), O(1e3 L), O(1e5..1e6 L)) x 4 length scales (1, 1e-10, 1e4, 1e-4); every ordered '
        'pair of parameter sets is round-tripped, family constructors included; points in 6 leading shapes x 11 '
        'argument forms (float64 contiguous / strided view / Fortran order / read-only, float32, int64, int32, list, '
        'tuple, int list, int tuple).  forms: the same cell handed over in every array form and scalar form.  '
        'histories: 3-8 changes on ONE Box, change kind a function of (case, step) over 26 kinds (vects setter, vects setter changing one vector only, origin '
        'setter alone, set(origin) alone, set(), set(vects[,origin]), set_vectors/set_abc/set_lengths/set_hi_los with '
        'origin given / omitted / defaults omitted / positional, set(...) of each parameter set), each step at its own '
        'length scale and origin class; after each change every kind of read (state, getters, reciprocal vectors, '
        'planes, both conversions, inside/outside with both inclusive settings, exact face points) in random order, '
        'judged against the oracle and against a freshly built Box of the same cell, with a bystander Box alive.  '
        'structured: cells with exact zeros in chosen components: 11 patterns (upper/lower triangular, diagonal, one or two '
        'components above/below the diagonal, one vector along an axis with the others general or in the normal plane, a single '
        'zero in a general matrix, hexagonal settings) as named and under all 36 permutations of rows and columns, x 4 origin '
        'classes x 4 length scales x 11 argument forms; every clause on them, also after being put onto a used Box, and against '
        'their rebuild from lengths and angles.  strains: 6 successive small changes of the cell of ONE Box: 9 kinds (volumetric, '
        'normal, one vector, one component: zeros stay zero; general strain, shear, one zero component filled, small rotation, '
        'vector mixing: zeros get filled) x 14 sizes 1e-12..1e-1 relative, through 17 routes, starting from every cell kind and '
        'from structured cells; judged at rounding level (64 eps cond) so that an error of the size of the change is seen.  '
        'A case is non-trivial when the cell is not the unit cube at the origin; distinct = distinct fingerprint.')
ASSUMPTIONS = ['cells are right-handed with volume >= 10% of a*b*c (condition number < ~1e2)',
               'points closer than the stated bound (1e-8 (1 + |origin|/L) in relative coordinates) to a face are exempt '
               'from the inside/outside clause; the inclusive flag itself is judged on axis-aligned cells with points '
               'whose face coordinate is exactly the floating-point number of the face',
               'float32 scalars given to set_abc carry float32 rounding through the trigonometry: bound 1e-5 relative',
               'oracle shares numpy/LAPACK with the code under test',
               'rounding bounds: 64 eps cond(vects) for whatever goes through the inverse of the vector matrix (never looser than 1e-9), '
               'a few eps for lengths, eps/sin(angle) for angles, eps a b c for the volume',
               'components below 1e-9 of the largest one are flushed to zero by Box (documented): small changes never create a '
               'component below 2e-8 of the largest one; the step through lengths and angles is judged at 2e-9']

SETS = ('vectors', 'abc', 'lengths', 'hilo')
EPS = float(np.finfo(float).eps)


def rounding(v, factor=64.0):
    """Relative rounding bound of whatever goes through the inverse of the vector matrix (reciprocal vectors, relative
    coordinates): factor * eps * cond(vects), never looser than the 1e-9 used for everything else.  A stale or
    approximated inverse is wrong by the size of the change that was missed, however small that change was."""
    return min(1e-9, factor * EPS * max(float(np.linalg.cond(v)), 1.0))
FAMILY_CTORS = ('cubic', 'tetragonal', 'orthorhombic', 'hexagonal', 'rhombohedral', 'monoclinic', 'triclinic')


# =====================================================================================================================
# argument snapshots (the caller's objects must come back unchanged)
# =====================================================================================================================
def snapshot(x):
    if isinstance(x, np.ndarray):
        return ('nd', x.copy(), x.dtype, x.shape, x.strides, bool(x.flags.writeable))
    if isinstance(x, (list, tuple)):
        return ('seq', type(x), [snapshot(y) for y in x])
    if isinstance(x, dict):
        return ('dict', {k: snapshot(v) for k, v in x.items()})
    return ('val', copy.copy(x))


def same(snap, x):
    kind = snap[0]
    if kind == 'nd':
        return (isinstance(x, np.ndarray) and x.dtype == snap[2] and x.shape == snap[3] and x.strides == snap[4]
                and bool(x.flags.writeable) == snap[5] and np.array_equal(x, snap[1], equal_nan=x.dtype.kind == 'f'))
    if kind == 'seq':
        return type(x) is snap[1] and len(x) == len(snap[2]) and all(same(s, y) for s, y in zip(snap[2], x))
    if kind == 'dict':
        return isinstance(x, dict) and set(x) == set(snap[1]) and all(same(s, x[k]) for k, s in snap[1].items())
    try:
        return type(x) is type(snap[1]) and bool(x == snap[1] or (x != x and snap[1] != snap[1]))
    except Exception:
        return True


def is_arraylike(x):
    return isinstance(x, (np.ndarray, list, tuple))


def scribble(x):
    """Overwrite a harness-owned argument / result object in place (afterwards the Box must not have changed)."""
    if isinstance(x, np.ndarray):
        if x.flags.writeable and x.size:
            x[...] = -7.7e7 if x.dtype.kind == 'f' else -77
    elif isinstance(x, list):
        for j in range(len(x)):
            if isinstance(x[j], (list, np.ndarray)):
                scribble(x[j])
            else:
                x[j] = -7.7e7


# =====================================================================================================================
# monitors on the real entry points
# =====================================================================================================================
def _loose(*vals):
    """Relative rounding unit of the narrowest floating type among the given scalars/arrays (float64 if none)."""
    eps = np.finfo(float).eps
    for v in vals:
        dt = getattr(v, 'dtype', None)
        if dt is not None and dt.kind == 'f':
            eps = max(eps, np.finfo(dt).eps)
    return float(eps)


def _finite(*vals):
    try:
        return all(np.all(np.isfinite(np.asarray(v, float))) for v in vals)
    except Exception:
        return False


def install_monitors(rec, am):
    """Postcondition monitors on the real Box / Plane / Shape methods (fire on every call, including the ones atomman
    makes internally).  Each judges the call from its arguments, its result and the public state of the object."""
    Box = am.Box
    from atomman.region import Plane, Shape

    sigs = {n: inspect.signature(Box.__dict__[n]) for n in ('set_vectors', 'set_abc', 'set_lengths', 'set_hi_los',
                                                            'inside', 'position_relative_to_cartesian',
                                                            'position_cartesian_to_relative')}
    sigs['outside'] = inspect.signature(Shape.__dict__['outside'])
    sigs['below'] = inspect.signature(Plane.__dict__['below'])
    sigs['above'] = inspect.signature(Plane.__dict__['above'])

    def bound(name, args, kwargs):
        b = sigs[name].bind(*args, **kwargs)
        b.apply_defaults()
        return b.arguments

    def pos_inclusive(name, args, kwargs):
        """(pos, inclusive) of inside/outside/below/above calls without the cost of Signature.bind on the hot path"""
        if len(args) <= 3 and set(kwargs) <= {'pos', 'inclusive'}:
            pos = args[1] if len(args) > 1 else kwargs['pos']
            inclusive = args[2] if len(args) > 2 else kwargs.get('inclusive', sigs[name].parameters['inclusive'].default)
            return pos, bool(inclusive)
        b = bound(name, args, kwargs)
        return b['pos'], bool(b['inclusive'])

    # -- the caller's arguments are unchanged ------------------------------------------------------------------------
    def pre_args(entry):
        def pre(args, kwargs):
            watched = [(f'arg{j}', a) for j, a in enumerate(args[1:]) if is_arraylike(a)]
            watched += [(k, a) for k, a in kwargs.items() if is_arraylike(a)]
            return [(n, a, snapshot(a)) for n, a in watched]
        return pre

    def judge_args(entry, old):
        if not isinstance(old, list):
            return
        for n, a, snap in old:
            form = C.form_of(a)
            rec.count(f'args:{entry}:{form}')
            rec.check(same(snap, a), "the caller's argument objects are unchanged by the call",
                      f'args-unchanged:{entry}:{form}', entry=entry, argument=n, before=snap[1] if snap[0] == 'nd' else None,
                      after=a)

    def state(box):
        v, o = box.vects, box.origin
        return v, o, np.linalg.norm(v, axis=1).max()

    def in_domain(v):
        """right-handed, non-degenerate, finite"""
        (a0, a1, a2), (b0, b1, b2), (c0, c1, c2) = v.tolist()
        vol = a0 * (b1 * c2 - b2 * c1) - a1 * (b0 * c2 - b2 * c0) + a2 * (b0 * c1 - b1 * c0)     # a . (b x c)
        abc = ((a0 * a0 + a1 * a1 + a2 * a2) * (b0 * b0 + b1 * b1 + b2 * b2) * (c0 * c0 + c1 * c1 + c2 * c2)) ** 0.5
        return bool(np.isfinite(vol) and np.isfinite(abc) and abc > 0 and vol > 1e-6 * abc)

    # -- conversions -------------------------------------------------------------------------------------------------
    def post_r2c(args, kwargs, result, exc, old):
        judge_args('rel2cart', old)
        if exc is not None:
            return
        box = args[0]
        relpos = np.asarray(bound('position_relative_to_cartesian', args, kwargs)['relpos'], float)
        v, o, L = state(box)
        tol = 32 * EPS * (L * (1 + np.abs(relpos).max(initial=0)) + np.abs(o).max())
        rec.close(tol, result, G.cart(relpos, v, o), 'monitor: relative->Cartesian postcondition', 'monitor:rel2cart')

    def post_c2r(args, kwargs, result, exc, old):
        judge_args('cart2rel', old)
        if exc is not None:
            return
        box = args[0]
        cartpos = np.asarray(bound('position_cartesian_to_relative', args, kwargs)['cartpos'], float)
        v, o, L = state(box)
        exp = G.rel(cartpos, v, o)
        tol = rounding(v) * (1 + np.abs(o).max() / L) * (1 + np.abs(exp).max(initial=0))
        rec.close(tol, result, exp, 'monitor: Cartesian->relative postcondition', 'monitor:cart2rel')

    # -- inside / outside --------------------------------------------------------------------------------------------
    def judge_membership(box, pos, inclusive, result, outside):
        v, o, L = state(box)
        if not in_domain(v):
            rec.count('monitor:inside:out-of-domain')
            return
        p = np.asarray(pos, float)
        if p.ndim == 0 or p.shape[-1] != 3:
            return
        cond = np.linalg.cond(v)
        bnd = 1e-8 * (1 + np.abs(o).max() / L) * max(1.0, cond / 10)
        rel, exp_in, exempt = F.classify(p, v, o, bnd)
        got = np.asarray(result)
        what = 'outside' if outside else 'inside'
        if not rec.check(got.shape == p.shape[:-1] and got.dtype == bool,
                         f'monitor: {what} returns one bool per point (leading shape of the input)', f'monitor:{what}:shape',
                         got_shape=got.shape, got_dtype=str(got.dtype), points_shape=p.shape):
            return
        got = got.reshape(-1)
        exp = ~exp_in if outside else exp_in
        ok = (got == exp) | exempt
        rec.count(f'monitor:{what}:points-judged', int((~exempt).sum()))
        rec.check(ok.all(), f'monitor: {what}(p) decides "all relative coordinates in [0,1]" (points beyond the bound from every face)',
                  f'monitor:{what}:{"incl" if inclusive else "excl"}', rel=rel[~ok][:3], got=got[~ok][:3], vects=v, origin=o)

    def post_inside(args, kwargs, result, exc, old):
        judge_args('inside', old)
        if exc is not None or not isinstance(args[0], Box):
            return
        pos, inclusive = pos_inclusive('inside', args, kwargs)
        judge_membership(args[0], pos, inclusive, result, outside=False)

    def post_outside(args, kwargs, result, exc, old):
        judge_args('outside', old)
        if exc is not None:
            return
        pos, inclusive = pos_inclusive('outside', args, kwargs)
        shape = args[0]
        if isinstance(shape, Box):
            judge_membership(shape, pos, inclusive, result, outside=True)
        else:
            try:
                comp = ~np.asarray(shape.inside(pos, inclusive=not inclusive))
            except Exception:
                return
            rec.check(np.array_equal(np.asarray(result), comp), 'monitor: Shape.outside(p, inclusive) is the complement of inside(p, not inclusive)',
                      'monitor:outside:complement:' + type(shape).__name__)

    # -- Plane.below / above -----------------------------------------------------------------------------------------
    def judge_plane(plane, pos, inclusive, result, above):
        n, pt = np.asarray(plane.normal, float), np.asarray(plane.point, float)
        p = np.asarray(pos, float)
        if p.ndim == 0 or p.shape[-1] != 3 or n.shape != (3,) or pt.shape != (3,):
            return
        d = np.asarray((p - pt) @ n)            # distance from the plane times |n| (>0): its sign is the side
        if not np.all(np.isfinite(d)):
            return
        band = 1e-9 * (np.abs(p).max(initial=0) + np.abs(pt).max()) * np.abs(n).max() * 3 + 1e-300
        exempt = np.abs(d) <= band
        exp = d > 0 if above else d < 0
        got = np.asarray(result)
        if got.shape != exp.shape:
            rec.fail('monitor: Plane.below/above return one bool per point', 'monitor:plane:shape', got_shape=got.shape, exp_shape=exp.shape)
            return
        ok = (got == exp) | exempt
        rec.count('monitor:plane:points-judged', int(np.sum(~exempt)))
        rec.check(bool(np.all(ok)), 'monitor: Plane.below/above decide the sign of the distance from the plane',
                  f'monitor:plane:{"above" if above else "below"}:{"incl" if inclusive else "excl"}',
                  normal=n, point=pt, distance=d[~ok].reshape(-1)[:3])

    def post_below(args, kwargs, result, exc, old):
        judge_args('Plane.below', old)
        if exc is None:
            pos, inclusive = pos_inclusive('below', args, kwargs)
            judge_plane(args[0], pos, inclusive, result, above=False)

    def post_above(args, kwargs, result, exc, old):
        judge_args('Plane.above', old)
        if exc is None:
            pos, inclusive = pos_inclusive('above', args, kwargs)
            judge_plane(args[0], pos, inclusive, result, above=True)

    # -- set_* -------------------------------------------------------------------------------------------------------
    def expect_origin(origin):
        return np.zeros(3) if origin is None else np.asarray(origin, float)

    def judge_state(box, exp_v, exp_o, what, eps):
        if not _finite(exp_v, exp_o):
            return
        v, o, L = state(box)
        Lm = max(np.abs(exp_v).max(), 1e-300)
        rec.close(2e-9 * Lm + 64 * eps * Lm, v, exp_v, f'monitor: vectors after {what} are the ones given', f'monitor:{what}:vects')
        rec.close(64 * eps * max(np.abs(exp_o).max(), 1e-300), o, exp_o, f'monitor: origin after {what} is the one given (default 0,0,0)',
                  f'monitor:{what}:origin')

    def post_set_vectors(args, kwargs, result, exc, old):
        judge_args('set_vectors', old)
        if exc is not None:
            return
        b = bound('set_vectors', args, kwargs)
        try:
            exp_v = np.array([np.asarray(b[k], float) for k in ('avect', 'bvect', 'cvect')])
        except Exception:
            return
        if exp_v.shape == (3, 3):
            judge_state(args[0], exp_v, expect_origin(b['origin']), 'set_vectors', np.finfo(float).eps)

    def post_set_lengths(args, kwargs, result, exc, old):
        judge_args('set_lengths', old)
        if exc is not None:
            return
        b = bound('set_lengths', args, kwargs)
        try:
            vals = [float(b[k]) for k in ('lx', 'ly', 'lz', 'xy', 'xz', 'yz')]
        except Exception:
            return
        judge_state(args[0], G.vects_from_lammps(*vals), expect_origin(b['origin']), 'set_lengths', np.finfo(float).eps)

    def post_set_hi_los(args, kwargs, result, exc, old):
        judge_args('set_hi_los', old)
        if exc is not None:
            return
        b = bound('set_hi_los', args, kwargs)
        try:
            lo = np.array([float(b[k]) for k in ('xlo', 'ylo', 'zlo')])
            hi = np.array([float(b[k]) for k in ('xhi', 'yhi', 'zhi')])
            tilts = [float(b[k]) for k in ('xy', 'xz', 'yz')]
        except Exception:
            return
        if not _finite(lo, hi, tilts):
            return
        eps = _loose(*[b[k] for k in ('xlo', 'xhi', 'ylo', 'yhi', 'zlo', 'zhi')])
        box = args[0]
        v, o, L = state(box)
        exp_v = G.vects_from_lammps(*(hi - lo), *tilts)
        mag = max(np.abs(lo).max(), np.abs(hi).max(), 1e-300)
        rec.close(2e-9 * np.abs(exp_v).max() + 8 * eps * mag, v, exp_v, 'monitor: vectors after set_hi_los are (hi-lo, tilts)', 'monitor:set_hi_los:vects')
        rec.close(8 * eps * mag, o, lo, 'monitor: origin after set_hi_los is (xlo, ylo, zlo)', 'monitor:set_hi_los:origin')

    def post_set_abc(args, kwargs, result, exc, old):
        judge_args('set_abc', old)
        if exc is not None:
            return
        b = bound('set_abc', args, kwargs)
        try:
            p = [float(b[k]) for k in ('a', 'b', 'c', 'alpha', 'beta', 'gamma')]
        except Exception:
            return
        if not _finite(p) or min(p[:3]) <= 0 or not G.realisable(p[3], p[4], p[5], 1e-3):
            rec.count('monitor:set_abc:out-of-domain')
            return
        eps = _loose(*[b[k] for k in ('a', 'b', 'c', 'alpha', 'beta', 'gamma')])
        box = args[0]
        v, o, L = state(box)
        Lm = max(p[:3])
        rec.close((1e-8 + 64 * eps) * Lm * Lm, v @ v.T, F.gram_from_abc(*p), 'monitor: cell after set_abc has the lengths and angles given (metric tensor)',
                  'monitor:set_abc:gram')
        rec.check(v[0, 1] == 0 and v[0, 2] == 0 and v[1, 2] == 0 and v[0, 0] > 0 and v[1, 1] > 0 and v[2, 2] > 0,
                  'monitor: cell after set_abc is in LAMMPS orientation (right-handed)', 'monitor:set_abc:orientation', vects=v)
        eo = expect_origin(b['origin'])
        if _finite(eo):
            rec.close(64 * np.finfo(float).eps * max(np.abs(eo).max(), 1e-300), o, eo, 'monitor: origin after set_abc is the one given (default 0,0,0)',
                      'monitor:set_abc:origin')

    def pre_set(args, kwargs):
        box = args[0]
        return dict(args=pre_args('set')(args, kwargs), vects=box.vects, origin=box.origin)

    def post_set(args, kwargs, result, exc, old):
        if not isinstance(old, dict):
            return
        judge_args('set', old['args'])
        if exc is not None or len(args) != 1:
            return
        box = args[0]
        eps = np.finfo(float).eps
        try:
            if len(kwargs) == 0:
                judge_state(box, np.eye(3), np.zeros(3), 'set()', eps)
            elif set(kwargs) == {'origin'}:
                judge_state(box, old['vects'], np.asarray(kwargs['origin'], float), 'set(origin)', eps)
            elif 'vects' in kwargs:
                ev = np.asarray(kwargs['vects'], float)
                if ev.shape == (3, 3):
                    judge_state(box, ev, expect_origin(kwargs.get('origin')), 'set(vects)', eps)
        except (TypeError, ValueError):
            return

    monitor.observe(Box, 'position_relative_to_cartesian', post_r2c, pre_args('rel2cart'))
    monitor.observe(Box, 'position_cartesian_to_relative', post_c2r, pre_args('cart2rel'))
    monitor.observe(Box, 'inside', post_inside, pre_args('inside'))
    monitor.observe(Shape, 'outside', post_outside, pre_args('outside'))
    monitor.observe(Plane, 'below', post_below, pre_args('Plane.below'))
    monitor.observe(Plane, 'above', post_above, pre_args('Plane.above'))
    monitor.observe(Box, 'set_vectors', post_set_vectors, pre_args('set_vectors'))
    monitor.observe(Box, 'set_lengths', post_set_lengths, pre_args('set_lengths'))
    monitor.observe(Box, 'set_hi_los', post_set_hi_los, pre_args('set_hi_los'))
    monitor.observe(Box, 'set_abc', post_set_abc, pre_args('set_abc'))
    monitor.observe(Box, 'set', post_set, pre_set)

    # -- property setters (vects, origin) and lazily built getters (reciprocal_vects, planes) ------------------------
    def wrap_property(name, fget_post=None, fset_pre=None, fset_post=None):
        prop = Box.__dict__[name]
        real_get, real_set = prop.fget, prop.fset
        label = f'Box.{name}'

        def fget(self):
            result = real_get(self)
            if fget_post is not None:
                monitor.calls[label + ':get'] = monitor.calls.get(label + ':get', 0) + 1
                try:
                    fget_post(self, result)
                except Exception:
                    monitor.calls[label + ':get:post_error'] = monitor.calls.get(label + ':get:post_error', 0) + 1
            return result

        def fset(self, value):
            old = None
            monitor.calls[label + ':set'] = monitor.calls.get(label + ':set', 0) + 1
            try:
                old = fset_pre(self, value)
            except Exception:
                monitor.calls[label + ':set:pre_error'] = monitor.calls.get(label + ':set:pre_error', 0) + 1
            real_set(self, value)
            try:
                fset_post(self, value, old)
            except Exception:
                monitor.calls[label + ':set:post_error'] = monitor.calls.get(label + ':set:post_error', 0) + 1
                import traceback
                tb = monitor.calls.setdefault('_post_tracebacks', [])
                if len(tb) < 3:
                    tb.append(traceback.format_exc()[-1500:])
        setattr(Box, name, property(fget if fget_post is not None else real_get,
                                    fset if real_set is not None and fset_post is not None else real_set,
                                    prop.fdel, prop.__doc__))
        monitor._installed.append((Box, name, prop))

    def check_derived(box, what):
        """whatever is lazily kept on the object describes the *current* cell"""
        v, o, L = state(box)
        if not in_domain(v):
            return
        cached = getattr(box, '_Box__reciprocal_vects', None)
        if cached is not None:
            rec.close(rounding(v, 128), v @ np.asarray(cached).T, np.eye(3),
                      'monitor: cached reciprocal vectors are dual to the current vectors', f'monitor:stale-reciprocal:{what}')

    def pre_setter(box, value):
        return dict(vects=box.vects, origin=box.origin, snap=snapshot(value) if is_arraylike(value) else None)

    def post_vects_setter(box, value, old):
        rec.count('monitor:vects-setter')
        if old and old['snap'] is not None:
            judge_args('vects=', [('value', value, old['snap'])])
        try:
            ev = np.asarray(value, float)
        except (TypeError, ValueError):
            return
        if ev.shape == (3, 3) and old:
            judge_state(box, ev, old['origin'], 'vects=', np.finfo(float).eps)
        check_derived(box, 'vects=')

    def post_origin_setter(box, value, old):
        rec.count('monitor:origin-setter')
        if old and old['snap'] is not None:
            judge_args('origin=', [('value', value, old['snap'])])
        try:
            eo = np.asarray(value, float)
        except (TypeError, ValueError):
            return
        if eo.shape == (3,) and old:
            judge_state(box, old['vects'], eo, 'origin=', np.finfo(float).eps)
        check_derived(box, 'origin=')

    def post_recip_getter(box, result):
        v = box.vects
        if in_domain(v):
            rec.count('monitor:reciprocal-getter')
            rec.close(rounding(v, 128), v @ np.asarray(result, float).T, np.eye(3), 'monitor: reciprocal vectors returned are dual to the current vectors',
                      'monitor:reciprocal:dual')

    def post_planes_getter(box, result):
        v, o, L = state(box)
        if not in_domain(v):
            return
        rec.count('monitor:planes-getter')
        try:
            normals = [p.normal for p in result]
            points = [p.point for p in result]
        except Exception as e:
            rec.fail('monitor: planes are six Plane objects', 'monitor:planes:type', exception=e)
            return
        ok, why = F.match_planes(normals, points, v, o, tol_n=rounding(v), tol_d=rounding(v) * (L + np.abs(o).max()))
        rec.check(ok, 'monitor: the planes returned are the six faces of the current cell (outward unit normals, points on the faces)',
                  'monitor:planes:faces', why=why, vects=v, origin=o, normals=normals, points=points)

    wrap_property('vects', fset_pre=pre_setter, fset_post=post_vects_setter)
    wrap_property('origin', fset_pre=pre_setter, fset_post=post_origin_setter)
    wrap_property('reciprocal_vects', fget_post=post_recip_getter)
    wrap_property('planes', fget_post=post_planes_getter)


# =====================================================================================================================
# parameter sets
# =====================================================================================================================
def read_set(box, name):
    if name == 'vectors':
        return dict(avect=box.avect, bvect=box.bvect, cvect=box.cvect, origin=box.origin)
    if name == 'abc':
        return dict(a=box.a, b=box.b, c=box.c, alpha=box.alpha, beta=box.beta, gamma=box.gamma, origin=box.origin)
    if name == 'lengths':
        return dict(lx=box.lx, ly=box.ly, lz=box.lz, xy=box.xy, xz=box.xz, yz=box.yz, origin=box.origin)
    if name == 'hilo':
        return dict(xlo=box.xlo, xhi=box.xhi, ylo=box.ylo, yhi=box.yhi, zlo=box.zlo, zhi=box.zhi,
                    xy=box.xy, xz=box.xz, yz=box.yz)
    raise ValueError(name)


def truth_set(cell, name):
    """The same parameter sets computed by the oracle from the ground-truth cell."""
    v, o = cell['vects'], cell['origin']
    if name == 'vectors':
        return dict(avect=v[0].copy(), bvect=v[1].copy(), cvect=v[2].copy(), origin=o.copy())
    if name == 'abc':
        a, b, c, al, be, ga = G.lengths_angles(v)
        return dict(a=a, b=b, c=c, alpha=al, beta=be, gamma=ga, origin=o.copy())
    assert cell['lammps']
    if name == 'lengths':
        return dict(lx=v[0, 0], ly=v[1, 1], lz=v[2, 2], xy=v[1, 0], xz=v[2, 0], yz=v[2, 1], origin=o.copy())
    return dict(xlo=o[0], xhi=o[0] + v[0, 0], ylo=o[1], yhi=o[1] + v[1, 1], zlo=o[2], zhi=o[2] + v[2, 2],
                xy=v[1, 0], xz=v[2, 0], yz=v[2, 1])


def abc_vects(t):
    return G.vects_from_lammps(*G.lammps_from_abc(*[float(t[k]) for k in ('a', 'b', 'c', 'alpha', 'beta', 'gamma')]))


def build(am, pset, vals):
    return am.Box(**vals)


def family_args(kind, p):
    """Arguments of the crystal-family constructor for lattice parameters p (cells.family_params)."""
    if kind == 'cubic':
        return dict(a=p['a'])
    if kind in ('tetragonal', 'hexagonal'):
        return dict(a=p['a'], c=p['c'])
    if kind == 'orthorhombic':
        return dict(a=p['a'], b=p['b'], c=p['c'])
    if kind == 'rhombohedral':
        return dict(a=p['a'], alpha=p['alpha'])
    if kind == 'monoclinic':
        return dict(a=p['a'], b=p['b'], c=p['c'], beta=p['beta'])
    return dict(p)


# =====================================================================================================================
# clauses
# =====================================================================================================================
def check_box_against(rec, box, vects, origin, lammps, L, what, tol_rel=1e-8, **detail):
    """box describes the cell (vects, origin): identical if LAMMPS-form, same Gram matrix + right-handed otherwise."""
    tolL = tol_rel * L
    bv, bo = box.vects, box.origin
    if lammps:
        rec.close(tolL, bv, vects, 'same vectors after ' + what, f'{what}:vects', **detail)
    else:
        rec.close(tol_rel * L * L, bv @ bv.T, vects @ vects.T, 'same Gram matrix after ' + what, f'{what}:gram', **detail)
        rec.check(G.volume(bv) > 0, 'right-handed after ' + what, f'{what}:handed', **detail)
    rec.close(tolL + 1e-12 * np.abs(origin).max(), bo, origin, 'same origin after ' + what, f'{what}:origin', **detail)


def check_getters(rec, box, key='getters'):
    """Reported lengths, angles, volume, LAMMPS parameters, reciprocal vectors are those of the vectors."""
    v, o = box.vects, box.origin
    L = np.linalg.norm(v, axis=1).max()
    a, b, c, al, be, ga = G.lengths_angles(v)
    # bounds of the arithmetic itself (a few roundings), so that a value belonging to a cell that differs from the
    # current one by a relative 1e-10 is seen: sqrt of a sum of squares; arccos of a cosine good to a few eps (error
    # eps/sin(angle)); a sum of six triple products each at most a*b*c
    smin = min(np.sin(np.radians(x)) for x in (al, be, ga))
    rec.close(8 * EPS * L, [box.a, box.b, box.c], [a, b, c], 'a,b,c are the vector lengths', key + ':abc')
    rec.close(min(1e-6, 64 * EPS * 57.3 / max(smin, 1e-3)), [box.alpha, box.beta, box.gamma], [al, be, ga],
              'alpha,beta,gamma are the vector angles', key + ':angles')
    rec.close(32 * EPS * a * b * c, box.volume, abs(G.volume(v)), 'volume is the triple product', key + ':volume')
    rec.close(0.0, [box.avect, box.bvect, box.cvect], v, 'avect,bvect,cvect are the rows of vects', key + ':abcvect')
    r = box.reciprocal_vects
    rec.close(rounding(v, 128), v @ np.asarray(r).T, np.eye(3), 'reciprocal vectors are dual to the cell vectors', key + ':dual')
    rec.close(rounding(v, 128) * np.abs(F.reciprocal(v)).max(), r, F.reciprocal(v), 'reciprocal vectors are the rows of the inverse transpose (linear solve)',
              key + ':reciprocal')
    rec.check(bool(box.is_lammps_norm()) == G.is_lammps_form(v, 0.0), 'is_lammps_norm() says whether the vectors are in LAMMPS-compatible orientation',
              key + ':is_lammps_norm', vects=v)
    if G.is_lammps_form(v, 0.0):
        got = [box.lx, box.ly, box.lz, box.xy, box.xz, box.yz]
        rec.close(1e-12 * L, got, [v[0, 0], v[1, 1], v[2, 2], v[1, 0], v[2, 0], v[2, 1]], 'lx..yz are the vector components', key + ':lengths')
        got = [box.xlo, box.xhi, box.ylo, box.yhi, box.zlo, box.zhi]
        exp = [o[0], o[0] + v[0, 0], o[1], o[1] + v[1, 1], o[2], o[2] + v[2, 2]]
        rec.close(1e-12 * (L + np.abs(o).max()), got, exp, 'lo/hi are origin and origin+length', key + ':hilo')


def check_planes(rec, box, key='planes'):
    v, o = box.vects, box.origin
    planes = None
    try:
        planes = box.planes
        normals = [p.normal for p in planes]
        points = [p.point for p in planes]
    except Exception as e:
        rec.fail('planes are six Plane objects', key + ':exception', exception=e)
        return
    # normals from cross products / from the inverse: good to eps * cond; the points given are vertices of the cell
    tol = rounding(v)
    ok, why = F.match_planes(normals, points, v, o, tol_n=tol, tol_d=tol * (np.linalg.norm(v, axis=1).max() + np.abs(o).max()))
    rec.count('planes-judged')
    rec.check(ok, 'planes are the six faces of the cell (outward unit normals, points on the faces)', key + ':faces',
              why=why, vects=v, origin=o, normals=normals, points=points)


def check_exact_faces(rec, box, key='faces-exact'):
    """Axis-aligned cells only: the inclusive flag decides points whose face coordinate is exactly the face's."""
    v, o = box.vects, box.origin
    if not F.is_axis_aligned(v):
        return False
    pts, strict = F.exact_face_points(v, o)
    if not strict:
        rec.count('faces-exact:skipped-degenerate-rounding')
        return False
    rec.count('faces-exact:cells')
    T, Fa = np.ones(6, bool), np.zeros(6, bool)
    calls = [('inside(p, inclusive=True)', lambda p: box.inside(p, inclusive=True), T),
             ('inside(p, inclusive=False)', lambda p: box.inside(p, inclusive=False), Fa),
             ('inside(p)', lambda p: box.inside(p), T),
             ('inside(p, True) positional', lambda p: box.inside(p, True), T),
             ('outside(p, inclusive=True)', lambda p: box.outside(p, inclusive=True), T),
             ('outside(p, inclusive=False)', lambda p: box.outside(p, inclusive=False), Fa),
             ('outside(p)', lambda p: box.outside(p), Fa),
             ('outside(p, True) positional', lambda p: box.outside(p, True), T)]
    for name, fn, exp in calls:
        for form, arg in (('array', pts.copy()), ('list', pts.tolist()))[:2 if name.endswith('=False)') else 1]:
            try:
                got = np.asarray(fn(arg))
            except Exception as e:
                rec.fail('inside/outside accept points on the faces', f'{key}:exception', call=name, exception=e)
                continue
            rec.count('faces-exact:points', 6)
            rec.check(got.shape == (6,) and np.array_equal(got, exp),
                      'points exactly on a face of an axis-aligned cell are inside iff inclusive (outside iff inclusive)',
                      f'{key}:{name.split("(")[0]}:{"T" if exp[0] else "F"}', call=name, form=form, got=got, expected=exp,
                      vects=v, origin=o, points=pts)
        # one point at a time, too
        if not name.startswith('inside(p, inclusive='):
            continue
        try:
            got1 = np.array([bool(fn(p.copy())) for p in pts])
            rec.check(np.array_equal(got1, exp), 'a single point exactly on a face is inside iff inclusive (outside iff inclusive)',
                      f'{key}:single:{name.split("(")[0]}:{"T" if exp[0] else "F"}', call=name, got=got1, expected=exp, vects=v, origin=o)
        except Exception as e:
            rec.fail('inside/outside accept a single point on a face', f'{key}:exception', call=name, exception=e)
    return True


def gen_cart_inputs(rng, v, o, shape_class, form):
    """(rel given to r2c in the form, its float64 value, cart given to c2r/inside in the form, its float64 value)."""
    rel = C.gen_rel_points(rng, shape_class)
    if form in C.INT_FORMS:
        rel_v = np.rint(rel * 2.0)                      # lattice-translation like integer triples
        cart_v = np.rint(G.cart(rel, v, o))
        if not np.all(np.abs(cart_v) < 2 ** 30):        # does not fit int32: keep to small numbers around zero
            cart_v = np.rint(rel * 3.0)
    else:
        rel_v, cart_v = rel, G.cart(rel, v, o)
    rel_in, cart_in = C.as_form(rel_v, form), C.as_form(cart_v, form)
    return rel_in, C.value_of(rel_in), cart_in, C.value_of(cart_in)


def check_points(rec, box, rng, shape_class, form, twin=None, results=None):
    """Both conversions, their mutual inversion, inside/outside with both inclusive settings, on one batch of points
    handed over in the given leading shape and argument form."""
    v, o = box.vects, box.origin
    L = np.linalg.norm(v, axis=1).max()
    osc = 1.0 + np.abs(o).max() / L
    if shape_class == 'empty' and form in ('list', 'tuple', 'intlist', 'inttuple'):
        shape_class = 'one'                       # an empty list carries no (0,3) shape: not an array of points
    rel_in, rel_t, cart_in, cart_t = gen_cart_inputs(rng, v, o, shape_class, form)
    keep = (snapshot(rel_in), snapshot(cart_in))
    key = f'points:{shape_class}:{form}'
    rec.count('points-class:' + key)
    rec.count('points-form:' + form)
    rec.count('points-shape:' + shape_class)
    rmax = max(np.abs(rel_t).max(initial=0), np.abs(G.rel(cart_t, v, o)).max(initial=0)) if cart_t.size else 0.0
    rnd = rounding(v)
    tolc_old, tolr_old = 1e-9 * (L * (1 + rmax) + np.abs(o).max()), 1e-9 * osc * (1 + rmax)
    tolc = 32 * EPS * (L * (1 + rmax) + np.abs(o).max())         # three products and three sums
    tolci = rnd * (L * (1 + rmax) + np.abs(o).max())              # ... of relative coordinates that went through the inverse
    tolr = rnd * osc * (1 + rmax)
    out = {}
    # relative -> Cartesian -> relative
    cart = None
    try:
        cart = box.position_relative_to_cartesian(rel_in)
    except Exception as e:
        rec.fail('relative->Cartesian conversion accepts array-likes of any leading shape', 'rel2cart:exception:' + key, exception=e, rel=rel_t)
    if cart is not None:
        out['r2c'] = cart
        rec.check(isinstance(cart, np.ndarray) and cart.dtype == np.float64, 'relative->Cartesian returns a float64 array', 'rel2cart:dtype:' + key)
        rec.close(tolc, cart, G.cart(rel_t, v, o), 'relative->Cartesian equals rel.vects+origin', 'rel2cart:' + key, rel=rel_t, vects=v, origin=o)
        try:
            back = box.position_cartesian_to_relative(cart)
            out['r2c-back'] = back
            rec.close(tolr, back, rel_t, 'Cartesian->relative inverts relative->Cartesian', 'cart2rel:inverse:' + key, rel=rel_t, vects=v, origin=o)
        except Exception as e:
            rec.fail('Cartesian->relative accepts the output of relative->Cartesian', 'cart2rel:exception:' + key, exception=e)
    # Cartesian -> relative -> Cartesian
    relb = None
    try:
        relb = box.position_cartesian_to_relative(cart_in)
    except Exception as e:
        rec.fail('Cartesian->relative conversion accepts array-likes of any leading shape', 'cart2rel:exception:' + key, exception=e, cart=cart_t)
    if relb is not None:
        out['c2r'] = relb
        rec.check(isinstance(relb, np.ndarray) and relb.dtype == np.float64, 'Cartesian->relative returns a float64 array', 'cart2rel:dtype:' + key)
        rec.close(tolr, relb, G.rel(cart_t, v, o), 'Cartesian->relative equals the linear solve', 'cart2rel:solve:' + key, cart=cart_t, vects=v, origin=o)
        try:
            fwd = box.position_relative_to_cartesian(relb)
            rec.close(2 * tolci, fwd, cart_t, 'relative->Cartesian inverts Cartesian->relative', 'rel2cart:inverse:' + key, cart=cart_t, vects=v, origin=o)
        except Exception as e:
            rec.fail('relative->Cartesian accepts the output of Cartesian->relative', 'rel2cart:exception:' + key, exception=e)
    # inside / outside
    bound = 1e-8 * osc
    relo, exp_in, exempt = F.classify(cart_t, v, o, bound)
    rec.count('points', len(relo))
    rec.count('points_exempt_on_face', int(exempt.sum()))
    rec.count('points_inside', int((exp_in & ~exempt).sum()))
    rec.count('points_outside', int((~exp_in & ~exempt).sum()))
    lead = cart_t.shape[:-1]
    for inclusive in (True, False):
        tag = 'incl' if inclusive else 'excl'
        for what in ('inside', 'outside'):
            try:
                res = getattr(box, what)(cart_in, inclusive=inclusive)
            except Exception as e:
                rec.fail('inside/outside accept array-likes of points of any leading shape', f'{what}:exception:{key}', exception=e)
                continue
            got = np.asarray(res)
            out[f'{what}:{tag}'] = got
            if not rec.check(got.shape == lead and got.dtype == bool, f'{what} returns one bool per point (leading shape of the input)',
                             f'{what}:shape:{shape_class}', got_shape=got.shape, dtype=str(got.dtype), lead=lead):
                continue
            got = got.reshape(-1)
            exp = exp_in if what == 'inside' else ~exp_in
            ok = (got == exp) | exempt
            rec.count(f'{what}:{tag}:judged', int((~exempt).sum()))
            rec.check(ok.all(), f'{what}(p) decides "all relative coordinates in [0,1]" (points beyond the bound from every face)',
                      f'{what}:{tag}', form=form, shape=shape_class, rel=relo[~ok][:3], got=got[~ok][:3], vects=v, origin=o)
        if f'inside:{tag}' in out and f'outside:{"excl" if inclusive else "incl"}' in out:
            rec.check(np.array_equal(out[f'outside:{"excl" if inclusive else "incl"}'], ~out[f'inside:{tag}']),
                      'outside(p, inclusive) is the complement of inside(p, not inclusive) for every point', 'outside:complement',
                      form=form, shape=shape_class)
    # default arguments: inside(p) is inclusive, outside(p) is exclusive
    try:
        d_in, d_out = np.asarray(box.inside(cart_in)), np.asarray(box.outside(cart_in))
        if 'inside:incl' in out and 'outside:excl' in out:
            rec.check(np.array_equal(d_in, out['inside:incl']) and np.array_equal(d_out, out['outside:excl']),
                      'inside(p) defaults to inclusive=True and outside(p) to inclusive=False', 'inside:defaults')
    except Exception as e:
        rec.fail('inside/outside accept array-likes of points of any leading shape', f'inside:exception:{key}', exception=e)
    # the caller's objects are as they were (the monitors judge every call; this is the end-to-end statement)
    rec.check(same(keep[0], rel_in) and same(keep[1], cart_in), "the caller's point arrays are unchanged by conversions and inside/outside",
              f'args-unchanged:points:{form}', shape=shape_class)
    # a freshly built Box of the same cell answers the same
    if twin is not None:
        rec.count('twin:points-compared')
        try:
            t = {'r2c': twin.position_relative_to_cartesian(rel_in), 'c2r': twin.position_cartesian_to_relative(cart_in)}
            for inclusive in (True, False):
                tag = 'incl' if inclusive else 'excl'
                t[f'inside:{tag}'] = np.asarray(twin.inside(cart_in, inclusive=inclusive))
                t[f'outside:{tag}'] = np.asarray(twin.outside(cart_in, inclusive=inclusive))
        except Exception as e:
            rec.fail('a freshly built Box of the same cell accepts the same calls', 'twin:exception', exception=e)
            t = {}
        for k, tv in t.items():
            if k not in out:
                continue
            if tv.dtype == bool:
                if tv.shape == out[k].shape:
                    ok = (tv.reshape(-1) == out[k].reshape(-1)) | exempt
                    rec.check(ok.all(), 'a Box with a history answers inside/outside like a freshly built Box of the same cell',
                              f'twin:{k}', rel=relo[~ok][:3], vects=v, origin=o)
            else:
                rec.close(1e-3 * (tolc_old if k == 'r2c' else tolr_old), out[k], tv,
                          'a Box with a history converts positions like a freshly built Box of the same cell', f'twin:{k}')
    if results is not None:
        results.extend(x for x in out.values() if isinstance(x, np.ndarray) and x.dtype != bool)
    return out


def check_twin_getters(rec, box, twin):
    """Every scalar/array getter of a Box with a history equals that of a freshly built Box of the same cell."""
    v = box.vects
    L = np.linalg.norm(v, axis=1).max()
    o = np.abs(box.origin).max()
    names = ['a', 'b', 'c', 'alpha', 'beta', 'gamma', 'volume']
    scale = [L, L, L, 1e3, 1e3, 1e3, L ** 3]
    if G.is_lammps_form(v, 0.0):
        names += ['lx', 'ly', 'lz', 'xy', 'xz', 'yz', 'xlo', 'xhi', 'ylo', 'yhi', 'zlo', 'zhi']
        scale += [L] * 6 + [L + o] * 6
    rec.count('twin:getters-compared')
    for n, s in zip(names, scale):
        try:
            rec.close(1e-13 * s, getattr(box, n), getattr(twin, n), 'a Box with a history reports the parameters of a freshly built Box of the same cell',
                      'twin:getter:' + n)
        except Exception as e:
            rec.fail('getters of a Box with a history do not raise', 'twin:getter:exception', getter=n, exception=e)
    rec.close(1e-12 / L, box.reciprocal_vects, twin.reciprocal_vects, 'a Box with a history has the reciprocal vectors of a freshly built Box of the same cell',
              'twin:reciprocal')
    try:
        pb, pt = box.planes, twin.planes
        rec.close(1e-12, [p.normal for p in pb], [p.normal for p in pt], 'a Box with a history has the planes of a freshly built Box of the same cell',
                  'twin:planes:normals')
        rec.close(1e-13 * (L + o), [p.point for p in pb], [p.point for p in pt], 'a Box with a history has the planes of a freshly built Box of the same cell',
                  'twin:planes:points')
    except Exception as e:
        rec.fail('planes of a Box with a history do not raise', 'twin:planes:exception', exception=e)
    rec.check(box.is_lammps_norm() == twin.is_lammps_norm(), 'is_lammps_norm agrees with a freshly built Box of the same cell', 'twin:is_lammps_norm')


# =====================================================================================================================
# histories on ONE Box object
# =====================================================================================================================
CHANGES = ['vects=', 'origin=', 'set(origin)', 'set()', 'set(vects,origin)', 'set(vects)',
           'set_vectors', 'set_vectors-noorigin', 'set_vectors-positional', 'set(avect..)',
           'set_abc', 'set_abc-noorigin', 'set_abc-defaults', 'set(a..)', 'origin=:small',
           'set_lengths', 'set_lengths-noorigin', 'set_lengths-defaults', 'set_lengths-positional', 'set(lx..)',
           'set_hi_los', 'set_hi_los-defaults', 'set_hi_los-positional', 'set(xlo..)', 'set(origin):small', 'vects=:partial']
ORIGIN_ONLY = ('origin=', 'set(origin)', 'origin=:small', 'set(origin):small')
NEEDS_ORTHO = ('set_abc-defaults', 'set_lengths-defaults', 'set_hi_los-defaults')
ROTATED_OK = ('vects=', 'set(vects,origin)', 'set(vects)', 'set_vectors', 'set_vectors-noorigin', 'set_vectors-positional',
              'set(avect..)', 'set_abc', 'set_abc-noorigin', 'set(a..)')
SCALAR_OPS = tuple(c for c in CHANGES if c.startswith(('set_abc', 'set(a..)', 'set_lengths', 'set(lx..)', 'set_hi_los', 'set(xlo..)')))
READS = ['state', 'getters', 'planes', 'points', 'points2', 'twin-getters', 'exact-faces']


def history_cell(rng, op, aform, sform, origin_class, scale, structured=None):
    """``structured`` = (pattern, sub, row permutation, column permutation) or None: for the changes that take vectors
    the target is then a cell with that zero pattern."""
    if structured is not None and op in ROTATED_OK and op not in ('set_abc', 'set_abc-noorigin', 'set(a..)'):
        return C.gen_structured_cell(rng, *structured, origin={'huge': 'far'}.get(origin_class, origin_class) if aform in C.INT_FORMS else origin_class,
                                     scale=scale, integer=aform in C.INT_FORMS)
    need_int = aform in C.INT_FORMS or (op in SCALAR_OPS and sform == 'int')
    if op == 'vects=:partial':
        return dict(kind='current', vects=None, origin=None, L=None)
    if need_int:
        cell = C.gen_cell(rng, 'integer', {'huge': 'far'}.get(origin_class, origin_class))
        if op in NEEDS_ORTHO or (sform == 'int' and op in ('set_abc', 'set_abc-noorigin', 'set(a..)')):
            cell['vects'] = np.diag(np.diag(cell['vects']))
            cell['L'] = np.linalg.norm(cell['vects'], axis=1).max()
        return cell
    if op in NEEDS_ORTHO:
        kinds = C.ORTHO
    elif op in ROTATED_OK:
        kinds = C.KINDS
    else:
        kinds = C.KINDS[:-1]
    return C.gen_cell(rng, kinds[int(rng.integers(0, len(kinds)))], origin_class, scale)


def cast_scalars(t, sform):
    return {k: (C.scalar_as(x, sform) if np.ndim(x) == 0 else x) for k, x in t.items()}


def apply_change(box, op, cell, cur_v, cur_o, aform, sform, rng):
    """Performs the change on ``box``; returns the expected state (from the values actually handed over) and the
    harness-owned argument objects."""
    v, o, L = cell['vects'], cell['origin'], cell['L']
    A = lambda x: C.as_form(x, aform)
    res = dict(exp_v=None, exp_o=None, args=[], tol_rel=1e-8, tol_abs=0.0, exact=True)
    eps32 = float(np.finfo(np.float32).eps)
    if op in ORIGIN_ONLY:
        curL = np.linalg.norm(cur_v, axis=1).max()
        if op.endswith(':small'):
            new_o = cur_o + rng.choice([-1.0, 1.0], 3) * rng.uniform(0.05, 0.6, 3) * curL
        else:
            new_o = o / L * curL                                   # the step's origin class, on the scale of the current cell
        if aform in C.INT_FORMS:
            new_o = np.rint(new_o)
        arg = A(new_o)
        res.update(exp_v=cur_v, exp_o=C.value_of(arg), args=[arg])
        if op.startswith('origin='):
            box.origin = arg
        else:
            box.set(origin=arg)
        return res
    if op == 'vects=:partial':                                     # only the c vector changes (a, b, origin stay as they are)
        nv = cur_v.copy()
        nv[2] = rng.uniform(1.2, 1.6) * cur_v[2] + rng.uniform(-0.3, 0.3) * cur_v[0]
        arg = C.as_form(nv, aform if aform in C.FLOAT_FORMS else 'f64')
        box.vects = arg
        res.update(exp_v=C.value_of(arg), exp_o=cur_o, args=[arg])
        return res
    if op == 'set()':
        box.set()
        res.update(exp_v=np.eye(3), exp_o=np.zeros(3))
        return res
    if op in ('vects=', 'set(vects,origin)', 'set(vects)'):
        va, oa = A(v), A(o)
        if op == 'vects=':
            box.vects = va
            res.update(exp_v=C.value_of(va), exp_o=cur_o, args=[va])
        elif op == 'set(vects)':
            box.set(vects=va)
            res.update(exp_v=C.value_of(va), exp_o=np.zeros(3), args=[va])
        else:
            box.set(vects=va, origin=oa)
            res.update(exp_v=C.value_of(va), exp_o=C.value_of(oa), args=[va, oa])
        return res
    if op in ('set_vectors', 'set_vectors-noorigin', 'set_vectors-positional', 'set(avect..)'):
        a_, b_, c_, oa = A(v[0]), A(v[1]), A(v[2]), A(o)
        ev = np.array([C.value_of(a_), C.value_of(b_), C.value_of(c_)])
        res.update(exp_v=ev, exp_o=C.value_of(oa), args=[a_, b_, c_, oa])
        if op == 'set_vectors':
            box.set_vectors(avect=a_, bvect=b_, cvect=c_, origin=oa)
        elif op == 'set_vectors-noorigin':
            box.set_vectors(avect=a_, bvect=b_, cvect=c_)
            res.update(exp_o=np.zeros(3), args=[a_, b_, c_])
        elif op == 'set_vectors-positional':
            box.set_vectors(a_, b_, c_, oa)
        else:
            box.set(avect=a_, bvect=b_, cvect=c_, origin=oa)
        return res
    oa = A(o)
    if op in ('set_abc', 'set_abc-noorigin', 'set_abc-defaults', 'set(a..)'):
        t = truth_set(cell, 'abc')
        if op == 'set_abc-defaults' or sform == 'int':
            t.update(alpha=90.0, beta=90.0, gamma=90.0)
        t = cast_scalars(t, sform)
        t['origin'] = oa
        res.update(exp_v=abc_vects(t), exp_o=C.value_of(oa), args=[oa], exact=False)
        if sform == 'np.float32':
            res['tol_rel'] = 1e-5
        if op == 'set_abc':
            box.set_abc(**t)
        elif op == 'set(a..)':
            box.set(**t)
        elif op == 'set_abc-noorigin':
            t.pop('origin')
            box.set_abc(**t)
            res.update(exp_o=np.zeros(3), args=[])
        else:
            box.set_abc(a=t['a'], b=t['b'], c=t['c'], origin=oa)
        return res
    if op in ('set_lengths', 'set_lengths-noorigin', 'set_lengths-defaults', 'set_lengths-positional', 'set(lx..)'):
        t = cast_scalars(truth_set(cell, 'lengths'), sform)
        t['origin'] = oa
        ev = G.vects_from_lammps(*[float(t[k]) for k in ('lx', 'ly', 'lz', 'xy', 'xz', 'yz')])
        res.update(exp_v=ev, exp_o=C.value_of(oa), args=[oa])
        if op == 'set_lengths':
            box.set_lengths(**t)
        elif op == 'set(lx..)':
            box.set(**t)
        elif op == 'set_lengths-noorigin':
            t.pop('origin')
            box.set_lengths(**t)
            res.update(exp_o=np.zeros(3), args=[])
        elif op == 'set_lengths-positional':
            box.set_lengths(t['lx'], t['ly'], t['lz'], t['xy'], t['xz'], t['yz'], oa)
        else:
            box.set_lengths(lx=t['lx'], ly=t['ly'], lz=t['lz'], origin=oa)
        return res
    # lo / hi
    t = cast_scalars(truth_set(cell, 'hilo'), sform)
    f = {k: float(x) for k, x in t.items()}
    ev = G.vects_from_lammps(f['xhi'] - f['xlo'], f['yhi'] - f['ylo'], f['zhi'] - f['zlo'], f['xy'], f['xz'], f['yz'])
    mag = max(abs(x) for x in (f['xlo'], f['xhi'], f['ylo'], f['yhi'], f['zlo'], f['zhi']))
    res.update(exp_v=ev, exp_o=np.array([f['xlo'], f['ylo'], f['zlo']]), args=[],
               tol_abs=4 * (eps32 if sform == 'np.float32' else np.finfo(float).eps) * mag)
    if op == 'set_hi_los':
        box.set_hi_los(**t)
    elif op == 'set(xlo..)':
        box.set(**t)
    elif op == 'set_hi_los-positional':
        box.set_hi_los(t['xlo'], t['xhi'], t['ylo'], t['yhi'], t['zlo'], t['zhi'], t['xy'], t['xz'], t['yz'])
    else:
        box.set_hi_los(xlo=t['xlo'], xhi=t['xhi'], ylo=t['ylo'], yhi=t['yhi'], zlo=t['zlo'], zhi=t['zhi'])
    return res


def judge_state(rec, box, exp_v, exp_o, tol_rel, tol_abs, what, **detail):
    """The state reported by the object is the expected cell (vectors, origin, and the three single-vector getters)."""
    L = np.linalg.norm(exp_v, axis=1).max()
    tol = tol_rel * L + tol_abs
    bv, bo = box.vects, box.origin
    rec.close(tol, bv, exp_v, 'vectors of the object are those of the last change', f'{what}:vects', **detail)
    rec.close(tol_abs + 1e-12 * max(np.abs(exp_o).max(), 0.0) + (tol_rel * L if tol_abs else 0.0), bo, exp_o,
              'origin of the object is that of the last change (or the documented default)', f'{what}:origin', **detail)
    return bv, bo


def full_read(rec, am, box, rng, exp, i, step, which=None, twin_checks=True):
    """Every kind of read on the object in random order, each judged; returns the arrays handed out by the object."""
    handed = []
    order = list(READS if which is None else which)
    rng.shuffle(order)
    twin = None
    if twin_checks:
        with _guard(rec, 'a fresh Box can be built from the state of a Box with a history', 'twin:build'):
            twin = am.Box(vects=exp['bv'], origin=exp['bo'])
    shape1 = C.SHAPES[(i + step) % len(C.SHAPES)]
    form1 = C.ARRAY_FORMS[(i // 2 + step) % len(C.ARRAY_FORMS)]
    for r in order:
        rec.count('history:read:' + r)
        if r == 'state':
            bv, bo = judge_state(rec, box, exp['exp_v'], exp['exp_o'], exp['tol_rel'], exp['tol_abs'], 'history:state', op=exp['op'])
            handed += [bv, bo, box.avect, box.bvect, box.cvect]
        elif r == 'getters':
            check_getters(rec, box, 'history:getters')
            handed.append(box.reciprocal_vects)
        elif r == 'planes':
            check_planes(rec, box, 'history:planes')
        elif r == 'points':
            check_points(rec, box, rng, 'N', 'f64', twin=twin, results=handed)
        elif r == 'points2':
            check_points(rec, box, rng, shape1, form1, twin=twin, results=handed)
        elif r == 'twin-getters' and twin is not None:
            check_twin_getters(rec, box, twin)
        elif r == 'exact-faces':
            if check_exact_faces(rec, box, 'history:faces-exact'):
                rec.count('history:exact-faces')
    return handed


class _guard:
    def __init__(self, rec, clause, key):
        self.rec, self.clause, self.key = rec, clause, key

    def __enter__(self):
        return self

    def __exit__(self, et, ev, tb):
        if et is None or issubclass(et, (KeyboardInterrupt, SystemExit, MemoryError)):
            return False
        self.rec.fail(self.clause + ':exception', self.key, exception=f'{et.__name__}: {ev}')
        return True


def cell_clauses(ctx, am, cell, i, kind, oc):
    """Every clause of the property on one cell: every ordered pair of parameter sets, getters, planes, family
    constructor, points in three shapes/forms, exact face points."""
    rec, rng = ctx.rec, ctx.rng
    v, o, L = cell['vects'], cell['origin'], cell['L']
    sets = SETS if cell['lammps'] else ('vectors', 'abc')
    # every ordered pair of parameter sets: build from A (ground truth), read through B, rebuild
    for A in sets:
        boxA = None
        with ctx.guard(f'Box can be built from the {A} parameter set', f'build:{A}'):
            boxA = build(am, A, truth_set(cell, A))
        if boxA is None:
            continue
        rec.count('monitor:Box-built')
        exact = cell['lammps'] or A != 'abc'      # abc input of a rotated cell gives its LAMMPS orientation
        check_box_against(rec, boxA, v, o, exact, L, f'build({A})', kind=kind)
        check_getters(rec, boxA, f'getters:{A}')
        check_planes(rec, boxA, f'planes:{A}')
        setsB = SETS if G.is_lammps_form(boxA.vects, 0.0) else ('vectors', 'abc')
        for B in setsB:
            boxB = None
            with ctx.guard(f'reading {B} from a box built with {A} and rebuilding', f'pair:{A}->{B}'):
                vals = read_set(boxA, B)
                boxB = build(am, B, vals)
            if boxB is None:
                continue
            rec.count('pairs')
            same_orient = G.is_lammps_form(boxA.vects, 0.0) or B == 'vectors'
            check_box_against(rec, boxB, boxA.vects, boxA.origin, same_orient, L, f'{A}->{B}', kind=kind)
    # the crystal-family constructors (lengths and angles with the family's fixed angles), then the origin alone
    if kind in FAMILY_CTORS and cell['params'] is not None:
        boxF = None
        with ctx.guard(f'Box.{kind}(...) builds the family cell', f'build:family:{kind}'):
            ctor = getattr(am.Box, 'trigonal' if kind == 'rhombohedral' else kind)
            boxF = ctor(**family_args(kind, cell['params']))
            boxF.origin = o.copy()
        if boxF is not None:
            rec.count('family-constructors')
            check_box_against(rec, boxF, v, o, True, L, f'build(family:{kind})')
            check_getters(rec, boxF, 'getters:family')
    # points on the vectors-built box: leading shape and argument form are functions of the case index
    box = build(am, 'vectors', truth_set(cell, 'vectors'))
    for j in range(3):
        shape_class = C.SHAPES[(2 * i + j) % len(C.SHAPES)] if j else ('N', 'MN', 'single')[i % 3]
        form = C.ARRAY_FORMS[(i // 3 + 4 * j) % len(C.ARRAY_FORMS)]
        check_points(rec, box, rng, shape_class, form)
    if check_exact_faces(rec, box):
        rec.count(f'faces-exact:origin:{oc}')


# =====================================================================================================================
# workload
# =====================================================================================================================
def run(ctx):
    import atomman as am
    rec = ctx.rec
    install_monitors(rec, am)

    # ---- boxes: parameter-set round trips, getters, planes, points -------------------------------------------------
    n_boxes = ctx.pick(432, 4320)
    for i in ctx.cases('boxes', n_boxes):
        rng = ctx.rng
        kind, oc, scale = C.stratified(i)
        cell = C.gen_cell(rng, kind, oc, scale)
        v, o, L = cell['vects'], cell['origin'], cell['L']
        rec.case((kind, oc, scale), nontrivial=True, fp=fingerprint(v, o))
        rec.count(f'cells:scale:{scale:g}')
        rec.count(f'cells:origin:{oc}')
        if i < 27:
            rec.sample(dict(kind=kind, vects=v, origin=o))
        cell_clauses(ctx, am, cell, i, kind, oc)

    # ---- forms: one and the same cell handed over in every array form / scalar form --------------------------------
    n_forms = ctx.pick(132, 1320)
    for i in ctx.cases('forms', n_forms):
        rng = ctx.rng
        aform = C.ARRAY_FORMS[i % len(C.ARRAY_FORMS)]
        sform = C.SCALAR_FORMS[(i // len(C.ARRAY_FORMS)) % len(C.SCALAR_FORMS)]
        oc = C.ORIGINS[(i // 2) % 3]                                    # zero / near / far
        need_int = aform in C.INT_FORMS or sform == 'int'
        kind = 'integer' if need_int else C.KINDS[(i // 3) % (len(C.KINDS) - 1)]
        cell = C.gen_cell(rng, kind, oc, C.SCALES[(i // 5) % len(C.SCALES)])
        v, o, L = cell['vects'], cell['origin'], cell['L']
        rec.case(('forms', aform, sform, kind, oc), nontrivial=True, fp=fingerprint(v, o, aform, sform))
        rec.count('forms:array:' + aform)
        rec.count('forms:scalar:' + sform)
        A = lambda x: C.as_form(x, aform)
        # arrays: vects=, avect/bvect/cvect, origin
        va, oa = A(v), A(o)
        ev, eo = C.value_of(va), C.value_of(oa)
        keep = [snapshot(va), snapshot(oa)]
        with ctx.guard('Box(vects=, origin=) accepts the array form', f'forms:build:vects:{aform}'):
            b1 = am.Box(vects=va, origin=oa)
            check_box_against(rec, b1, ev, eo, True, L, 'forms:Box(vects)', form=aform)
            rec.check(same(keep[0], va) and same(keep[1], oa), "the caller's vects/origin objects are unchanged by Box(vects=, origin=)",
                      f'args-unchanged:Box(vects):{aform}')
            scribble(va), scribble(oa)
            check_box_against(rec, b1, ev, eo, True, L, 'forms:Box(vects):after-caller-reuses-its-arrays', form=aform)
        abc3 = [A(v[0]), A(v[1]), A(v[2])]
        oa = A(o)
        keep = [snapshot(x) for x in abc3 + [oa]]
        with ctx.guard('Box(avect=, bvect=, cvect=, origin=) accepts the array form', f'forms:build:vectors:{aform}'):
            b2 = am.Box(avect=abc3[0], bvect=abc3[1], cvect=abc3[2], origin=oa)
            check_box_against(rec, b2, ev, eo, True, L, 'forms:Box(avect..)', form=aform)
            rec.check(all(same(k, x) for k, x in zip(keep, abc3 + [oa])), "the caller's vector objects are unchanged by Box(avect=, ...)",
                      f'args-unchanged:Box(avect..):{aform}')
            for x in abc3 + [oa]:
                scribble(x)
            check_box_against(rec, b2, ev, eo, True, L, 'forms:Box(avect..):after-caller-reuses-its-arrays', form=aform)
            check_getters(rec, b2, 'forms:getters')
            check_points(rec, b2, rng, C.SHAPES[i % len(C.SHAPES)], aform)
        # scalars: lengths/tilts, lo/hi, lengths/angles
        if cell['lammps']:
            oa = A(o)
            t = cast_scalars(truth_set(cell, 'lengths'), sform)
            t['origin'] = oa
            evs = G.vects_from_lammps(*[float(t[k]) for k in ('lx', 'ly', 'lz', 'xy', 'xz', 'yz')])
            with ctx.guard('Box(lx=..) accepts the scalar form', f'forms:build:lengths:{sform}'):
                b3 = am.Box(**t)
                check_box_against(rec, b3, evs, eo, True, L, 'forms:Box(lx..)', form=sform)
                scribble(oa)
                check_box_against(rec, b3, evs, eo, True, L, 'forms:Box(lx..):after-caller-reuses-its-arrays', form=sform)
            t = cast_scalars(truth_set(cell, 'hilo'), sform)
            f = {k: float(x) for k, x in t.items()}
            evh = G.vects_from_lammps(f['xhi'] - f['xlo'], f['yhi'] - f['ylo'], f['zhi'] - f['zlo'], f['xy'], f['xz'], f['yz'])
            eoh = np.array([f['xlo'], f['ylo'], f['zlo']])
            eps = float(np.finfo(np.float32 if sform == 'np.float32' else float).eps)
            with ctx.guard('Box(xlo=..) accepts the scalar form', f'forms:build:hilo:{sform}'):
                b4 = am.Box(**t)
                tol = 1e-8 * L + 4 * eps * max(abs(x) for x in f.values())
                rec.close(tol, b4.vects, evh, 'same vectors after forms:Box(xlo..)', 'forms:Box(xlo..):vects', form=sform)
                rec.close(tol, b4.origin, eoh, 'same origin after forms:Box(xlo..)', 'forms:Box(xlo..):origin', form=sform)
        t = truth_set(cell, 'abc')
        if sform == 'int':
            cell_o = dict(cell, vects=np.diag(np.diag(v)))
            t = truth_set(cell_o, 'abc')
            t.update(alpha=90, beta=90, gamma=90)
        oa = A(o)
        t = cast_scalars(t, sform)
        t['origin'] = oa
        with ctx.guard('Box(a=..) accepts the scalar form', f'forms:build:abc:{sform}'):
            b5 = am.Box(**t)
            check_box_against(rec, b5, abc_vects(t), eo, True, L, 'forms:Box(a..)', tol_rel=1e-5 if sform == 'np.float32' else 1e-8, form=sform)

    # ---- histories: successive changes on ONE object interleaved with every kind of read ---------------------------
    n_hist = ctx.pick(200, 2400)
    nC = len(CHANGES)
    for i in ctx.cases('histories', n_hist):
        rng = ctx.rng
        box = am.Box()
        cur_v, cur_o = np.eye(3), np.zeros(3)
        # a bystander object with its own cell stays alive and is read in between (state must be per object)
        bcell = C.gen_cell(rng, C.KINDS[i % len(C.KINDS)], C.ORIGINS[(i // 3) % 3], 1.0)
        bystander = am.Box(vects=bcell['vects'], origin=bcell['origin'])
        bexp = dict(exp_v=bcell['vects'], exp_o=bcell['origin'], tol_rel=1e-8, tol_abs=0.0, op='bystander')
        ops = []
        nops = 3 + i % 6
        # reads of the initial object (unit cube) so that whatever is lazily kept is populated before the first change
        if i % 2 == 0:
            exp0 = dict(exp_v=cur_v, exp_o=cur_o, tol_rel=1e-8, tol_abs=0.0, op='Box()', bv=box.vects, bo=box.origin)
            full_read(rec, am, box, rng, exp0, i, -1, which=['planes', 'points', 'getters'], twin_checks=False)
        for step in range(nops):
            op = CHANGES[(i + step * (1 + i // nC)) % nC]
            aform = C.ARRAY_FORMS[(i + 3 * step) % len(C.ARRAY_FORMS)]
            sform = C.SCALAR_FORMS[(i // 2 + step) % len(C.SCALAR_FORMS)]
            oc = C.ORIGINS[(i // 4 + step) % len(C.ORIGINS)]
            scale = C.SCALES[(i + step) % len(C.SCALES)]
            structured = None
            if (i + 2 * step) % 3 == 0:
                h = i * 8 + step
                structured = (C.PATTERNS[h % len(C.PATTERNS)], h % 9, (h // 2) % 6 if h % 2 else 0, (h // 12) % 6 if h % 2 else 0)
            cell = history_cell(rng, op, aform, sform, oc, scale, structured)
            if cell['kind'].startswith('struct:'):
                rec.count('history:structured-target')
            ops.append((op, cell['kind'], aform if op not in SCALAR_OPS else sform))
            rec.count('history:change:' + op)
            if op in ORIGIN_ONLY:
                rec.count('history:origin-only-change')
            if op == 'vects=:partial':
                rec.count('history:partial-change')
            mode = 'full' if step == nops - 1 else ('full', 'full', 'none', 'subset')[(i + step) % 4]
            rec.count('history:reads-after-change:' + mode)
            with ctx.guard(f'history step {op}', f'history:{op}'):
                res = apply_change(box, op, cell, cur_v, cur_o, aform, sform, rng)
                cur_v, cur_o = res['exp_v'], res['exp_o']
                # the caller goes on to use its own arrays: the object must not follow
                for a_ in res['args']:
                    scribble(a_)
                exp = dict(res, op=op)
                bv, bo = judge_state(rec, box, cur_v, cur_o, res['tol_rel'], res['tol_abs'], f'history:{op}', ops=ops)
                exp.update(bv=bv, bo=bo)
                # the cell the object is in now (judged above within the bound of this step) is what an origin-only
                # or vectors-only change must leave untouched
                cur_v, cur_o = bv.copy(), bo.copy()
                if mode == 'none':
                    continue
                which = None if mode == 'full' else [READS[int(k)] for k in rng.choice(len(READS), 2, replace=False)]
                handed = full_read(rec, am, box, rng, exp, i, step, which=which)
                # the caller goes on to use the arrays it was handed: the object must not follow
                for h in handed:
                    scribble(h)
                judge_state(rec, box, cur_v, cur_o, 1e-12, 0.0, 'history:after-caller-reuses-returned-arrays', op=op)
                # ... nor may the conversions (which go through the cached reciprocal vectors the caller was just handed)
                if (i + step) % 2 == 1:
                    rec.count('history:points-after-caller-reuses-returned-arrays')
                    rec.context = dict(after='caller overwrote the arrays it was handed (vects, origin, avect.., reciprocal_vects, conversion results)')
                    try:
                        check_points(rec, box, rng, 'N', 'f64')
                    finally:
                        rec.context = None
                if (i + step) % 2 == 0:
                    bexp.update(bv=bystander.vects, bo=bystander.origin)
                    rec.count('history:bystander-read')
                    full_read(rec, am, bystander, rng, bexp, i, step, which=['state', 'planes', 'points', 'getters'], twin_checks=False)
        rec.case(('history', nops, tuple(o_[0] for o_ in ops)), nontrivial=True, fp=fingerprint(ops, i, ctx.seed))
        if i < 16:
            rec.sample(dict(ops=ops))


    # ---- structured: exact zeros in chosen places of the vector matrix, every arrangement, every clause ---------------
    n_struct = ctx.pick(264, 2640)
    for i in ctx.cases('structured', n_struct):
        rng = ctx.rng
        pattern, sub, rowp, colp, oc, scale = C.structured_class(i)
        aform = C.ARRAY_FORMS[(i // 2) % len(C.ARRAY_FORMS)]
        integer = aform in C.INT_FORMS
        cell = C.gen_structured_cell(rng, pattern, sub, rowp, colp, 'far' if integer and oc == 'huge' else oc, scale, integer=integer)
        v, o, L = cell['vects'], cell['origin'], cell['L']
        layout = C.zero_layout(v)
        rec.case(('structured', pattern, rowp, colp, oc), nontrivial=True, fp=fingerprint(v, o, aform))
        rec.count('struct:pattern:' + pattern)
        rec.count(f'struct:rowperm:{rowp}')
        rec.count(f'struct:colperm:{colp}')
        rec.count(f'struct:arrangement:{rowp}{colp}')
        rec.count('struct:origin:' + cell['origin_class'])
        rec.count('struct:lammps' if cell['lammps'] else 'struct:not-lammps')
        for lab in layout:
            rec.count('struct:layout:' + lab)
        if i < 22:
            rec.sample(dict(kind=cell['kind'], rowperm=C.PERMS[rowp], colperm=C.PERMS[colp], vects=v, origin=o))
        # (a) all clauses on the cell as on any other cell
        cell_clauses(ctx, am, cell, i, cell['kind'], oc)
        # (b) handed over as one matrix in an array form; (c) put onto a Box that has been used with another cell
        other = C.gen_cell(rng, C.KINDS[i % len(C.KINDS)], C.ORIGINS[(i // 3) % 3], scale)
        for way in ('Box(vects)', 'used-box'):
            va, oa = C.as_form(v, aform), C.as_form(o, aform)
            ev, eo = C.value_of(va), C.value_of(oa)
            box = None
            with ctx.guard(f'a cell with exact zeros among its components can be given ({way})', f'struct:build:{way}'):
                if way == 'Box(vects)':
                    box = am.Box(vects=va, origin=oa)
                else:
                    box = am.Box(vects=other['vects'], origin=other['origin'])
                    check_getters(rec, box, 'struct:used-box:before')
                    check_points(rec, box, rng, 'one', 'f64')
                    route = i % 4
                    rec.count(f'struct:used-box:route:{route}')
                    if route == 0:
                        box.vects = va
                        box.origin = oa
                    elif route == 1:
                        box.set(vects=va, origin=oa)
                    elif route == 2:
                        box.set_vectors(avect=va[0], bvect=va[1], cvect=va[2], origin=oa)
                    else:
                        box.origin = oa
                        box.vects = va
            if box is None:
                continue
            bv, bo = judge_state(rec, box, ev, eo, 4 * EPS, 0.0, f'struct:{way}', pattern=pattern)
            check_getters(rec, box, f'struct:{way}:getters')
            check_planes(rec, box, f'struct:{way}:planes')
            twin = am.Box(vects=bv, origin=bo) if way == 'used-box' else None
            check_points(rec, box, rng, C.SHAPES[(i + (way == 'used-box')) % len(C.SHAPES)], C.ARRAY_FORMS[(i // 3) % len(C.ARRAY_FORMS)], twin=twin)
            if twin is not None:
                check_twin_getters(rec, box, twin)
            check_exact_faces(rec, box, f'struct:{way}:faces-exact')
            # the same material points have the same relative coordinates in the LAMMPS-oriented rebuild of the cell
            with ctx.guard('a cell with exact zeros can be rebuilt from its lengths and angles', f'struct:{way}:rebuild-abc'):
                lmp = am.Box(a=box.a, b=box.b, c=box.c, alpha=box.alpha, beta=box.beta, gamma=box.gamma)
                rel = C.gen_rel_points(rng, 'N')
                r1 = box.position_cartesian_to_relative(box.position_relative_to_cartesian(rel))
                r2 = lmp.position_cartesian_to_relative(lmp.position_relative_to_cartesian(rel))
                tol = (rounding(bv) * (1 + np.abs(bo).max() / L) + rounding(lmp.vects)) * (1 + np.abs(rel).max())
                rec.count('struct:rebuild-abc')
                rec.close(tol, r1, rel, 'Cartesian->relative inverts relative->Cartesian', f'struct:{way}:roundtrip', vects=bv, origin=bo)
                rec.close(tol, r2, r1, 'relative coordinates of the same points agree with those in the rebuild from lengths and angles',
                          f'struct:{way}:rebuild-abc:rel', vects=bv)
                rec.close(1e-8 * L * L, lmp.vects @ lmp.vects.T, bv @ bv.T, 'the rebuild from lengths and angles is the same cell up to a rotation',
                          f'struct:{way}:rebuild-abc:gram', vects=bv)

    # ---- strains: successive SMALL changes of the cell of ONE Box (1e-12 .. 1e-1 relative), judged at rounding level -
    n_strain = ctx.pick(168, 1680)
    nK, nM = len(C.SMALL_CHANGES), len(C.MAGS)
    s_ops = [c for c in CHANGES if c not in ORIGIN_ONLY and c not in NEEDS_ORTHO and c not in ('set()', 'vects=:partial')]
    s_forms = ['f64', 'list', 'f64-view', 'tuple', 'f64-F', 'f64-ro']
    NSTEP = 6
    for i in ctx.cases('strains', n_strain):
        rng = ctx.rng
        oc = C.ORIGINS[i % 4]
        scale = C.SCALES[(i // 4) % 4]
        if i % 3 == 2:
            pattern, sub, rowp, colp, _, _ = C.structured_class(i // 3)
            cell = C.gen_structured_cell(rng, pattern, sub, rowp, colp, oc, scale)
        else:
            cell = C.gen_cell(rng, C.KINDS[(i - i // 3) % len(C.KINDS)], oc, scale)
        rec.count('strain:start:' + ('structured' if i % 3 == 2 else cell['kind']))
        box = None
        with ctx.guard('Box can be built from its vectors', 'strain:build'):
            box = am.Box(vects=cell['vects'], origin=cell['origin'])
        if box is None:
            continue
        cur_v, cur_o = box.vects, box.origin
        used = False
        if i % 4 != 3:                      # the object has been used (conversions, reciprocal vectors) before the first change
            exp0 = dict(exp_v=cur_v, exp_o=cur_o, tol_rel=4 * EPS, tol_abs=0.0, op='Box(vects)', bv=cur_v, bo=cur_o)
            full_read(rec, am, box, rng, exp0, i, -1, which=['getters', 'points'], twin_checks=False)
            used = True
        trail = []
        for step in range(NSTEP):
            sidx = i * NSTEP + step
            ckind = C.SMALL_CHANGES[sidx % nK]
            mag = C.MAGS[(sidx // nK + 5 * (sidx % nK)) % nM]
            lam = G.is_lammps_form(cur_v, 0.0)
            new_v, mag_used, filled, kept = C.gen_small_change(rng, cur_v, ckind, mag)
            lam_new = G.is_lammps_form(new_v, 0.0)
            ops_ok = s_ops if lam_new else [c for c in s_ops if c in ROTATED_OK]
            op = ops_ok[(sidx + sidx // nK + sidx // (nK * nM)) % len(ops_ok)]
            aform = s_forms[(i + step) % len(s_forms)]
            sform = ('float', 'np.float64')[(i + step) % 2]
            # the origin stays where it is (the changes that take no origin put it to zero; set_hi_los re-derives it)
            ncell = dict(kind='strained', vects=new_v, origin=cur_o.copy(), L=np.linalg.norm(new_v, axis=1).max(), lammps=lam_new)
            trail.append((op, ckind, mag))
            rec.count('strain:change:' + ckind)
            rec.count(f'strain:size:{mag:g}')
            rec.count('strain:route:' + op)
            rec.count('strain:keeps-zeros' if kept else 'strain:fills-zeros')
            if kept and np.any(cur_v == 0.0):
                rec.count('strain:keeps-zeros:cell-with-zeros')
            if mag_used != mag:
                rec.count('strain:size-raised-clear-of-zero-flush')
            if mag_used <= 1e-5:
                rec.count('strain:le-1e-5:' + ('after-use' if used else 'unused'))
            if mag_used <= 1e-5 and kept and used:
                rec.count('strain:tiny-keeps-zeros-after-use')
            if mag_used <= 1e-8:
                rec.count('strain:le-1e-8:' + ('after-use' if used else 'unused'))
            mode = 'full' if step == NSTEP - 1 else ('full', 'subset', 'full', 'none', 'full')[(i + step) % 5]
            with ctx.guard(f'small change of the cell through {op}', f'strain:{op}'):
                res = apply_change(box, op, ncell, cur_v, cur_o, aform, sform, rng)
                for a_ in res['args']:
                    scribble(a_)
                # bound of the step: the values handed over are stored as they are (vectors, lengths and tilts); lo/hi
                # carries one subtraction; lengths and angles go through the trigonometry
                if op.startswith(('set_abc', 'set(a..)')):
                    tol_rel, tol_abs = 2e-9, 0.0           # components below 1e-9 of the largest are flushed to zero (documented)
                elif op.startswith(('set_hi_los', 'set(xlo..)')):
                    tol_rel, tol_abs = 4 * EPS, res['tol_abs']
                else:
                    tol_rel, tol_abs = 4 * EPS, 0.0
                exp = dict(res, op=op, tol_rel=tol_rel, tol_abs=tol_abs)
                bv, bo = judge_state(rec, box, res['exp_v'], res['exp_o'], tol_rel, tol_abs, f'strain:{op}', change=ckind, size=mag_used, trail=trail)
                exp.update(bv=bv, bo=bo, exp_v=res['exp_v'], exp_o=res['exp_o'])
                cur_v, cur_o = bv.copy(), bo.copy()
                rec.count('strain:steps')
                if mode == 'none':
                    used = False
                    continue
                which = ['state', 'getters', 'points', 'twin-getters', 'planes'] if mode == 'full' else ['getters', 'points']
                full_read(rec, am, box, rng, exp, i, step, which=which)
                used = True
        rec.case(('strain', cell['kind'], oc), nontrivial=True, fp=fingerprint(cell['vects'], cell['origin'], trail))
        if i < 12:
            rec.sample(dict(start=cell['kind'], trail=trail))

    for k, v_ in monitor.calls.items():
        if isinstance(v_, int):
            rec.count('monitor_calls:' + k, v_)
    for k in ('position_cartesian_to_relative', 'position_relative_to_cartesian', 'inside', 'set', 'set_vectors', 'set_abc', 'set_lengths',
              'set_hi_los', 'vects:set', 'origin:set', 'planes:get', 'reciprocal_vects:get'):
        rec.floor('monitor_calls:Box.' + k, 100)
    rec.floor('monitor_calls:Shape.outside', 100)
    rec.floor('monitor_calls:Plane.below', 600)
    rec.floor('monitor:vects-setter', 100)
    rec.floor('monitor:origin-setter', 100)
    rec.floor('monitor:planes-getter', 100)
    rec.floor('monitor:reciprocal-getter', 100)
    rec.floor('history:points-after-caller-reuses-returned-arrays', 20)
    rec.floor('monitor:inside:points-judged', 1000)
    rec.floor('monitor:outside:points-judged', 1000)
    rec.floor('monitor:plane:points-judged', 1000)
    rec.floor('points_inside', 500)
    rec.floor('points_outside', 500)
    rec.floor('pairs', 100)
    rec.floor('planes-judged', 500)
    rec.floor('family-constructors', 100)
    rec.floor('faces-exact:cells', 60)
    rec.floor('faces-exact:points', 2000)
    rec.floor('history:exact-faces', 20)
    for oc in C.ORIGINS:
        rec.floor('cells:origin:' + oc, 60)
        rec.floor('faces-exact:origin:' + oc, 5)
    for s in C.SCALES:
        rec.floor(f'cells:scale:{s:g}', 60)
    for f_ in C.ARRAY_FORMS:
        rec.floor('points-form:' + f_, 60)
        rec.floor('forms:array:' + f_, 10)
    for s in C.SHAPES:
        rec.floor('points-shape:' + s, 60)
    for s in C.SCALAR_FORMS:
        rec.floor('forms:scalar:' + s, 20)
    for c in CHANGES:
        rec.floor('history:change:' + c, 20)
    rec.floor('history:partial-change', 20)
    rec.floor('history:origin-only-change', 150)
    for r in READS:
        rec.floor('history:read:' + r, 150)
    for m in ('full', 'none', 'subset'):
        rec.floor('history:reads-after-change:' + m, 100)
    rec.floor('history:bystander-read', 100)
    # structured zero patterns: every pattern, every arrangement of rows and columns, the layouts by name
    for pat in C.PATTERNS:
        rec.floor('struct:pattern:' + pat, 20)
    for r_ in range(6):
        rec.floor(f'struct:rowperm:{r_}', 15)
        rec.floor(f'struct:colperm:{r_}', 15)
        for c_ in range(6):
            rec.floor(f'struct:arrangement:{r_}{c_}', 2)
    for lab, n_ in (('zero-below-nonzero-above', 25), ('zero-above-nonzero-below', 25), ('diagonal', 8), ('mixed', 80), ('zero-on-diagonal', 50),
                    ('zeros:1', 15), ('zeros:2', 15), ('zeros:3', 25), ('zeros:4', 40), ('zeros:5', 40), ('zeros:6', 15)):
        rec.floor('struct:layout:' + lab, n_)
    for oc in C.ORIGINS:
        rec.floor('struct:origin:' + oc, 25)
    rec.floor('struct:lammps', 12)
    rec.floor('struct:not-lammps', 150)
    rec.floor('struct:rebuild-abc', 400)
    for r_ in range(4):
        rec.floor(f'struct:used-box:route:{r_}', 40)
    rec.floor('history:structured-target', 40)
    # small changes: every kind, every size of the ladder, every route; tiny changes on an object that has been used
    rec.floor('strain:steps', 900)
    for k in C.SMALL_CHANGES:
        rec.floor('strain:change:' + k, 80)
    for m in C.MAGS:
        rec.floor(f'strain:size:{m:g}', 50)
    for op in [c for c in CHANGES if c not in ORIGIN_ONLY and c not in NEEDS_ORTHO and c not in ('set()', 'vects=:partial')]:
        rec.floor('strain:route:' + op, 8)
    rec.floor('strain:keeps-zeros', 400)
    rec.floor('strain:keeps-zeros:cell-with-zeros', 200)
    rec.floor('strain:fills-zeros', 150)
    rec.floor('strain:le-1e-5:after-use', 300)
    rec.floor('strain:le-1e-5:unused', 50)
    rec.floor('strain:le-1e-8:after-use', 100)
    rec.floor('strain:tiny-keeps-zeros-after-use', 150)
    rec.floor('strain:start:structured', 40)
    for k in C.KINDS:
        rec.floor('strain:start:' + k, 8)
    rec.floor('twin:points-compared', 300)
    rec.floor('twin:getters-compared', 300)
    # the caller's-arguments clause was evaluated for every entry point in the forms that can alias the caller's memory
    for entry in ('rel2cart', 'cart2rel', 'inside', 'outside', 'Plane.below'):
        for form in ('float64', 'float64-view', 'float64-ro', 'float32', 'int64', 'int32', 'list', 'tuple'):
            rec.floor(f'args:{entry}:{form}', 20)
    for entry in ('vects=', 'origin=', 'set_vectors', 'set'):
        for form in ('float64', 'float32', 'int64', 'list', 'tuple'):
            rec.floor(f'args:{entry}:{form}', 10)
    for entry in ('set_abc', 'set_lengths'):
        rec.floor(f'args:{entry}:float64', 10)
