"""C02 - Periodic separation is a lattice image of the direct one and the nearest such.

Postcondition monitors sit on atomman.dvect, atomman.dmag, System.dvect,
System.dmag and atomman.displacement (every alias patched, so the internal
calls System.dvect -> dvect and displacement -> dvect are judged too).  Each
judges every returned row against vf.oracle.c02_sep (definitions) with
vf.oracle.geometry's 27-candidate minimum and exhaustive nearest-image search.
"""
from __future__ import annotations

import copy
import pickle

import numpy as np

from ..core import fingerprint
from ..gen import c02_pairs as GEN
from ..gen import c02_reuse as RGEN
from ..oracle import c02_sep as S
from .. import monitor

# monitors are self-sufficient (judge a call from its arguments and result): the repository's own tests run under them
# as an extra workload in the thorough tier (vf/repotests.py)
REPOTESTS = True

RULE = ('case index -> cell kind (orthogonal / mildly tilted / tilted exactly to the LAMMPS limit / beyond it / '
        'crystal family / rotated triclinic / rotated orthogonal / flat: LAMMPS-normalised with one small width, or a '
        'cyclic permutation of it / needle: two short vectors and a long tilted one / skew: a short vector sheared '
        'along a longer one, triangular or rotated; in flat and skew cells a +-1 combination of the PERIODIC cell '
        'vectors of the case is shorter than every cell vector) x 8 periodicity settings x 8 call shapes '
        '(one-one, one-many, many-one, many-many, list/tuple, memory layouts, System index forms, displacement) '
        'by mixed radix; origin class (0, O(L), O(1e3 L)) rotates with the round; the length scale rotates over 1e-10 (a '
        'cell of a few angstrom written in metres), 1e-8 (cm), 1e-7 (mm), 1e-4, 1e-3, 1e-1 (nm), 1, 1e2 (pm), 1e3, 1e4 '
        'so that every (periodicity, call shape) of a round meets all ten; '
        'a second group crosses cells with STRUCTURED ZERO PATTERNS (upper triangular, lower triangular with any subset '
        'of tilts, diagonal with either sign pattern, permuted diagonal, row/column-permuted triangles, one vector '
        'along a Cartesian axis / two in a coordinate plane / 2x2 block, one, two or three exact zeros in an otherwise '
        'general matrix; tilts mild / exactly 0.5 / beyond) x 8 periodicity settings x the same 8 call shapes, scales '
        'rotating likewise, the arrangement inside a kind moving against both periodicity and call shape; '
        'inside a case the pairs rotate over 10 classes (inside, short separation wrapped across faces, on faces, on '
        'corners, exactly half a cell apart, one outside, both outside up to +-5 cells, lattice image of the same site, '
        'direct separation = a shortest +-1 combination s of the cell vectors +- an offset of 1e-6..0.2 |s|, direct '
        'separation = f s + offset with 1/2 <= f < 1 (short, yet beaten by the image d - s; in flat / skew cells mostly '
        'with |d| below half the shortest cell vector); both points of the last two classes lie in the cell). '
        'A third group runs HISTORIES on one object: a Box / System built along one of 14 construction paths (vects, '
        'avect/bvect/cvect, default then assigned, data model, its JSON text, deepcopy or pickle of a Box already queried '
        'with another cell, System from a data model, deepcopy of a queried System, safecopy, LAMMPS lengths, hi/lo, '
        'a b c alpha beta gamma, crystal-family classmethods) is queried through one entry point (result kept), then '
        'changed IN PLACE by one of 15 routes (box.vects =, box.set with each parameter set, box.set() back to the unit '
        'cell, box.model(...), System.box_set with and without scale, System.wrap, box.origin =, pbc changed / the pbc '
        'list edited in place, positions overwritten in the same arrays, another - also default-constructed - instance '
        'queried in between), then queried through EVERY entry point (plus a one-atom System sharing the same Box) and '
        'judged against the cell, periodicity and positions of NOW, then set back in place and asked the first question '
        'again (bitwise the first answer), as are freshly built equal objects; kept results must not change, written-to '
        'results must not change arguments or objects; route x first entry point x relation of the new cell (strained by '
        '7 % / another kind / rescaled by 0.5..1e3) is a full cross per 270 cases, construction path, periodicity, scale, '
        'origin class, index form and integer argument form (int64, int32, narrowest, unsigned, int lists / tuples, '
        'float32, pbc as ints) rotate against it. '
        'A case is non-trivial when at least one of its pairs needed a non-zero lattice shift (or the setting is '
        'all-free, where the direct separation is the claim); distinct = fingerprint of (cell, origin, pbc, points).')
ASSUMPTIONS = ['cells are right-handed with smallest perpendicular width >= 0.15 L (>= 0.06 L for the flat / needle / skew kinds; '
               'keeps the exhaustive search small)',
               'comparison bound 64 eps (|p0|+|p1|+3L); nearest-image distances within 4 bounds of w_min/2 are exempt (counted)',
               'every bound of the oracle is relative to the cell (L, |p|, relative coordinates); nothing is compared against an '
               'absolute length, so the same clauses are decided at every scale from 1e-10 to 1e4',
               'a point counts as inside the cell when its relative coordinates are in [-1e-9, 1+1e-9]',
               'the nearest-image clause is asserted only inside the guard the property states; outside it only '
               'lattice membership, the 27-candidate bound and |dvect| = dmag are asserted',
               'integer-valued lists are never passed as *positions* to System.dvect/dmag (documented: anything usable as an index is one)',
               'history group: the oracle uses the cell the Box reports at the time of the query; where the harness handed the cell '
               'over itself the report must agree with it to 1e-9 of the largest component (the documented zeroing threshold; '
               '1e-12 L more for lattice parameters, 4 eps (|origin| + L) for hi/lo bounds)',
               'history group: a query repeated on an object set back to bitwise the same cell, periodicity and positions must '
               'return bitwise the first answer (the computation is deterministic); System.wrap and box_set(scale=True) are '
               'taken as they are (the positions they produce are read back, not judged here)',
               'Systems with zero atoms are not generated (Atoms refuses an empty position array before any C02 code runs); '
               'System pickling is not used (not supported by Atoms.PropertyDict)',
               'oracle shares numpy/LAPACK with the code under test']

CONFIG = {'quick': {'timeout': 600}, 'thorough': {'timeout': 3000}}

V_CLAUSES = [
    ('rows', 'one result row per (broadcast) pair'),
    ('lattice', 'separation = direct separation + integer combination of the cell vectors'),
    ('periodic-only', 'the lattice shift is zero along non-periodic directions'),
    ('min27', 'separation is not longer than any of the 27 candidates with shifts -1,0,+1'),
    ('nearest', 'inside the guard the separation has the true nearest-image length'),
    ('nearest-vector', 'inside the guard, where the nearest image is unique, the separation is that image'),
]
M_CLAUSES = [
    ('rows', 'one distance per (broadcast) pair'),
    ('min27', 'distance is not longer than any of the 27 candidates with shifts -1,0,+1'),
    ('nearest', 'inside the guard the distance is the true nearest-image distance'),
    ('not-below-nearest', 'distance is not below the true nearest-image distance'),
]


# entry points whose rows are classified by oracle.c02_sep.hostility (inputs that defeat shortcuts of the image search)
HOSTILE_EPS = ('dvect', 'dmag', 'System.dvect', 'System.dmag', 'displacement[initial]', 'displacement[final]')
PBC2 = [p for p in GEN.PBCS if sum(p) >= 2]      # settings in which a combination of cell vectors is a lattice vector


class State:
    def __init__(self):
        self.memo = {}
        self.shifted = False
        self.sample_outside = 2
        self.scale = None            # label of the length scale of the case being run (None outside the workload)


ST = State()


def _truth(p0, p1, vects, origin, pbc):
    """Oracle values, memoised over the last few identical calls (dvect and dmag see the same arguments)."""
    P0, P1 = S.broadcast_pairs(p0, p1)
    key = (P0.tobytes(), P1.tobytes(), np.asarray(vects, float).tobytes(), np.asarray(origin, float).tobytes(),
           tuple(bool(x) for x in pbc))
    t = ST.memo.get(key)
    if t is None:
        t = S.truth(P0, P1, vects, origin, pbc, want_ni=True, sample_outside=ST.sample_outside)
        if len(ST.memo) > 6:
            ST.memo.clear()
        ST.memo[key] = t
    return t


def _bad_detail(t, ok, got):
    k = int(np.nonzero(~ok)[0][0]) if len(ok) == t.n and t.n else 0
    if t.n == 0 or len(ok) != t.n:
        return dict(n=t.n, got_shape=np.shape(got))
    g = np.asarray(got, float)
    g = g.reshape(t.n, -1)[k] if g.size else g
    return dict(row=k, nbad=int((~ok).sum()), p0=t.P0[k], p1=t.P1[k], vects=t.vects, pbc=t.pbc, got=g, direct=t.d[k],
                min27_len=t.l27[k], min27_vec=t.v27[k], nearest_len=t.lni[k], nearest_vec=t.vni[k], bound=t.bnd[k],
                in_guard=bool(t.guard[k]), inside=bool(t.inside[k]))


def _count_truth(rec, t, ep):
    cell = 'ortho' if t.ortho else 'tilted'
    rec.count(f'rows:{ep}', t.n)
    rec.count(f'guard:{ep}:{cell}', int(t.guard.sum()))
    rec.count(f'guard:{ep}:outside-guard', int((~t.guard & ~t.guard_exempt).sum()))
    rec.count('guard:exempt(threshold-or-search-too-large)', int(t.guard_exempt.sum()))
    if ep == 'dvect' and t.n:
        done = t.ni_done & ~t.guard
        rec.count('info:27-minimum-not-the-true-nearest(outside guard)', int((t.lni[done] < t.l27[done] - 8 * t.bnd[done]).sum()))
        rec.count('info:ties(two candidates within the bound)', int((t.ntie27 > 1).sum()))
        rec.count('info:unique-nearest-vector-compared', int((t.guard & (t.ntie27 == 1)).sum()))
    if ep in HOSTILE_EPS and t.n:
        h = S.hostility(t)
        pn = GEN.pbc_name(t.pbc)
        if ST.scale is not None:
            # the clauses lattice / periodic-only / min27 are judged on every row, nearest on the rows inside the guard;
            # 'image-needed': rows whose answer is not the direct separation (an image search that accepts nothing fails)
            rec.count(f'rows:{ep}:scale={ST.scale}', t.n)
            rec.count(f'guard:{ep}:scale={ST.scale}', int(t.guard.sum()))
            rec.count(f'image-needed:{ep}:scale={ST.scale}', int(h['beaten'].sum()))
        zc = S.zero_class(t.vects)
        rec.count(f'zeros:{ep}:{zc}', t.n)
        naw = int(h['axis_wrap_wrong'].sum())
        rec.count(f'hostile:{ep}:axis-wrap-wrong:{zc}', naw)
        if ep in ('dvect', 'dmag') and zc in ('upper-triangular', 'lower-triangular', 'other-zeros'):
            rec.count(f'hostile:{ep}:axis-wrap-wrong:{zc}:pbc={pn}', naw)
        nb = int(h['short_direct_beaten'].sum())
        rec.count(f'hostile:{ep}:short-direct-beaten', nb)
        rec.count(f'hostile:{ep}:short-direct-beaten:both-inside', int((h['short_direct_beaten'] & t.inside).sum()))
        if ep in ('dvect', 'dmag'):
            rec.count(f'hostile:{ep}:short-direct-beaten:pbc={pn}', nb)
            if nb and S.is_lammps_normalised(t.vects):
                rec.count(f'hostile:{ep}:short-direct-beaten:lammps-normalised-cell', nb)
        rec.count(f'hostile:{ep}:rel-within-half-beaten', int(h['relhalf_beaten'].sum()))
        rec.count(f'hostile:{ep}:best-image-is-combination', int(h['combo_image'].sum()))
    if not S.self_check(t):
        rec.fail('oracle self-check: exhaustive minimum <= 27-candidate minimum', 'harness:oracle-selfcheck')


def judge_vector(rec, t, res, ep):
    j = S.judge_vector(t, res)
    _count_truth(rec, t, ep)
    cell = 'ortho' if t.ortho else 'tilted'
    for cid, text in V_CLAUSES:
        if cid not in j:
            continue
        ok = j[cid]
        key = f'{ep}:{cid}' + (':' + cell if cid.startswith('nearest') else '')
        rec.check(ok.all(), text, key, **({} if ok.all() else _bad_detail(t, ok, res)))
        if cid == 'rows' and not ok.all():
            break
    if '_nint' in j and np.any(j['_nint'] != 0):
        ST.shifted = True
    return j


def judge_mag(rec, t, mag, ep):
    j = S.judge_mag(t, mag)
    _count_truth(rec, t, ep)
    cell = 'ortho' if t.ortho else 'tilted'
    for cid, text in M_CLAUSES:
        if cid not in j:
            continue
        ok = j[cid]
        key = f'{ep}:{cid}' + (':' + cell if cid == 'nearest' else '')
        rec.check(ok.all(), text, key, **({} if ok.all() else _bad_detail(t, ok, mag)))
        if cid == 'rows' and not ok.all():
            break
    return j


def _get(args, kwargs, k, name, default=None):
    if len(args) > k:
        return args[k]
    return kwargs.get(name, default)


def _resolve(pos, arg):
    """System.dvect/dmag argument -> positions, by the documented rule (an index selects atoms)."""
    if isinstance(arg, (int, np.integer, slice)):
        return pos[arg]
    if isinstance(arg, (list, tuple, np.ndarray)):
        a = np.asarray(arg)
        if a.dtype.kind in 'iub' and not isinstance(arg, tuple):
            return pos[a]
    return np.asarray(arg, dtype=float)


def install_monitors(rec, am):
    def post_fn(ep, judge):
        def post(args, kwargs, result, exc, old):
            p0, p1 = _get(args, kwargs, 0, 'pos_0'), _get(args, kwargs, 1, 'pos_1')
            box, pbc = _get(args, kwargs, 2, 'box'), _get(args, kwargs, 3, 'pbc')
            rec.count(f'shape:{ep}:{S.shape_class(p0)}x{S.shape_class(p1)}')
            try:
                t = _truth(p0, p1, box.vects, box.origin, pbc)
            except S.Mismatch:
                rec.check(isinstance(exc, ValueError), 'positions of incompatible lengths are refused with ValueError',
                          f'{ep}:mismatch-not-refused', got=repr(exc), n0=len(np.asarray(p0)), n1=len(np.asarray(p1)))
                return
            if exc is not None:
                return                       # the harness guard reports it
            judge(rec, t, result, ep)
        return post

    monitor.observe_function(am.dvect, post_fn('dvect', judge_vector), label='atomman.dvect')
    monitor.observe_function(am.dmag, post_fn('dmag', judge_mag), label='atomman.dmag')

    def post_sys(ep, judge):
        def post(args, kwargs, result, exc, old):
            if exc is not None:
                return
            s = args[0]
            pos = s.atoms.pos
            p0 = _resolve(pos, _get(args, kwargs, 1, 'pos_0'))
            p1 = _resolve(pos, _get(args, kwargs, 2, 'pos_1'))
            t = _truth(p0, p1, s.box.vects, s.box.origin, s.pbc)
            r = np.asarray(result)
            want = ((3,) if ep == 'System.dvect' else ()) if t.n == 1 else ((t.n, 3) if ep == 'System.dvect' else (t.n,))
            rec.check(r.shape == want, 'System.dvect/dmag return one row per pair (a single pair unwrapped)', f'{ep}:shape',
                      got=r.shape, expected=want)
            judge(rec, t, r, ep)
        return post

    monitor.observe(am.System, 'dvect', post_sys('System.dvect', judge_vector), label='System.dvect')
    monitor.observe(am.System, 'dmag', post_sys('System.dmag', judge_mag), label='System.dmag')

    def post_disp(args, kwargs, result, exc, old):
        if exc is not None:
            return
        s0, s1 = _get(args, kwargs, 0, 'system_0'), _get(args, kwargs, 1, 'system_1')
        ref = _get(args, kwargs, 2, 'box_reference', 'final')
        rec.count(f'displacement:ref={ref}')
        p0, p1 = s0.atoms.pos, s1.atoms.pos
        if ref is None:
            rec.check(np.array_equal(np.asarray(result), p1 - p0), 'displacement(None) is the plain difference of positions',
                      'displacement:none', got=result, expected=p1 - p0)
            return
        sref = s1 if ref == 'final' else s0
        t = _truth(p0, p1, sref.box.vects, sref.box.origin, sref.pbc)
        r = np.asarray(result)
        rec.check(r.shape == (t.n, 3), 'displacement returns one vector per atom', 'displacement:shape', got=r.shape)
        judge_vector(rec, t, r, f'displacement[{ref}]')

    monitor.observe_function(am.displacement, post_disp, label='atomman.displacement')


# ---------------------------------------------------------------------------------------------------------------
def call_both(ctx, am, p0, p1, box, pbc, tag):
    """The same arguments through dvect and dmag (monitors judge each); here: |dvect| = dmag."""
    rec = ctx.rec
    res = mag = None
    with ctx.guard('dvect accepts the documented argument forms', f'dvect:exception:{tag}'):
        res = am.dvect(p0, p1, box, pbc)
    with ctx.guard('dmag accepts the documented argument forms', f'dmag:exception:{tag}'):
        mag = am.dmag(p0, p1, box, pbc)
    if res is None or mag is None:
        return res, mag
    res_ = np.asarray(res, float).reshape(-1, 3)
    mag_ = np.asarray(mag, float).reshape(-1)
    if len(res_) != len(mag_):
        rec.fail('length of the separation vector equals the scalar periodic distance', 'dvect-vs-dmag:rows',
                 rows_dvect=len(res_), rows_dmag=len(mag_))
        return res, mag
    P0, P1 = S.broadcast_pairs(p0, p1)
    bnd = 64 * S.EPS * (np.linalg.norm(P0, axis=1) + np.linalg.norm(P1, axis=1) + 3 * np.linalg.norm(box.vects, axis=1).max())
    with np.errstate(all='ignore'):
        err = np.abs(np.linalg.norm(res_, axis=1) - mag_)
        ok = err <= bnd
    rec.count('rows:dvect-vs-dmag', len(mag_))
    if ST.scale is not None:
        rec.count(f'rows:dvect-vs-dmag:scale={ST.scale}', len(mag_))
    try:
        t = _truth(p0, p1, box.vects, box.origin, pbc)
        h = S.hostility(t)
        rec.count('hostile:dvect-vs-dmag:short-direct-beaten', int(h['short_direct_beaten'].sum()))
        rec.count('hostile:dvect-vs-dmag:axis-wrap-wrong:' + S.zero_class(t.vects), int(h['axis_wrap_wrong'].sum()))
        if ST.scale is not None:
            rec.count(f'image-needed:dvect-vs-dmag:scale={ST.scale}', int(h['beaten'].sum()))
    except S.Mismatch:
        pass
    rec.check(ok.all(), 'length of the separation vector equals the scalar periodic distance', 'dvect-vs-dmag',
              **({} if ok.all() else dict(row=int(np.nonzero(~ok)[0][0]), err=err[~ok][:3], bound=bnd[~ok][:3],
                                          dvect=res_[~ok][:3], dmag=mag_[~ok][:3], vects=box.vects, pbc=pbc)))
    return res, mag


def must_refuse(ctx, fn, what, key, *args):
    rec = ctx.rec
    try:
        fn(*args)
    except ValueError:
        rec.refusal(what + ':ValueError')
        rec.count('refused:' + key)
        rec.check(True, what, key)
        return
    except Exception as e:          # another exception type, or a native failure surfaced as IndexError
        rec.check(False, what, key, got=e)
        return
    rec.check(False, what, key, got='no exception')


def layouts(rng, p0, p1, j):
    """The same numbers in a hostile memory layout / dtype (values must not change the answer's validity)."""
    n = len(p0)
    k = j % 8
    if k == 0:                                            # strided views of a larger buffer
        big0 = np.full((2 * n, 3), np.nan)
        big1 = np.full((2 * n, 3), np.nan)
        big0[::2], big1[1::2] = p0, p1
        return 'strided', big0[::2], big1[1::2]
    if k == 1:                                            # Fortran order
        return 'fortran', np.asfortranarray(p0), np.asfortranarray(p1)
    if k == 2:                                            # columns sliced out of a wider array (row stride 5)
        w0 = np.full((n, 5), np.nan)
        w1 = np.full((n, 5), np.nan)
        w0[:, 1:4], w1[:, 2:5] = p0, p1
        return 'column-slice', w0[:, 1:4], w1[:, 2:5]
    if k == 3:                                            # read-only
        a, b = p0.copy(), p1.copy()
        a.flags.writeable = False
        b.flags.writeable = False
        return 'readonly', a, b
    if k == 4:                                            # reversed (negative stride)
        return 'reversed', p0[::-1], p1[::-1]
    if k == 5:                                            # single precision input
        return 'float32', p0.astype(np.float32), p1.astype(np.float32)
    if k == 6:                                            # one pair given as (1,3) x (1,3)
        return 'single-row', p0[:1], p1[:1]
    return 'empty', np.zeros((0, 3)), np.zeros((0, 3))


def run_system_forms(ctx, am, cell, box, pbc, pos, i):
    """Index forms of System.dvect/dmag against the same call made with positions."""
    rec, rng = ctx.rec, ctx.rng
    n = len(pos)
    h = n // 2                                   # atoms k and h + k are the k-th generated pair
    s = None
    with ctx.guard('System can be built from positions, box and pbc', 'system:build'):
        s = am.System(atoms=am.Atoms(pos=pos.copy()), box=box, pbc=pbc)
    if s is None:
        return
    spos = s.atoms.pos
    rec.check(np.array_equal(spos, pos), 'System keeps the positions it was given', 'system:pos-changed')
    a, b = (int(x) for x in rng.choice(n, 2, replace=False))
    k = int(rng.integers(2, n // 2 + 1))
    la = [int(x) for x in rng.choice(n, k)]
    lb = [int(x) for x in rng.choice(n, k)]
    st = int(rng.integers(0, n - k + 1))
    st2 = int(rng.integers(0, n - k + 1))
    mask_a = np.zeros(n, bool)
    mask_b = np.zeros(n, bool)
    mask_a[rng.choice(n, k, replace=False)] = True
    mask_b[rng.choice(n, k, replace=False)] = True
    forms = [
        ('int,int', a, b),
        ('negint,int', a - n, b),
        ('int,negint', a, -1 - int(rng.integers(0, n - 1))),
        ('list,list', la, lb),
        ('slice,slice', slice(st, st + k), slice(st2, st2 + k)),
        ('stepslice,list', slice(0, 2 * k, 2) if 2 * k <= n else slice(0, k), lb),
        ('int,list', a, lb),
        ('slice,negint', slice(st, st + k), b - n),
        ('intarray,list', np.array(la), lb),
        ('mask,mask', mask_a, mask_b),
        ('position,list', spos[a] + rng.uniform(-0.3, 0.3, 3) * cell['L'], lb),
        ('positions,slice', spos[la] + 0.25 * cell['L'], slice(st, st + k)),
        ('all,int', slice(None), b),
        ('pairs,pairs', list(range(h)), list(range(h, 2 * h))),
        ('pairslice,pairarray', slice(0, h), np.arange(h, 2 * h)),
    ]
    for name, f0, f1 in forms:
        rec.count('index-form:' + name)
        e0, e1 = _resolve(spos, f0), _resolve(spos, f1)
        for meth in ('dvect', 'dmag'):
            got = exp = None
            with ctx.guard(f'System.{meth} accepts index form {name}', f'System.{meth}:exception:{name}'):
                got = getattr(s, meth)(f0, f1)
            with ctx.guard(f'System.{meth} accepts float positions', f'System.{meth}:exception:positions'):
                exp = getattr(s, meth)(np.array(e0, float), np.array(e1, float))
            if got is None or exp is None:
                continue
            same = np.shape(got) == np.shape(exp) and np.array_equal(got, exp)
            rec.check(same, 'System.dvect/dmag with atom indices equals the same call with those atoms\' positions',
                      f'System.{meth}:index-vs-position:{name}', form=name, got=got, expected=exp)
    # module-level call must agree with the method
    call_both(ctx, am, spos[:h], spos[h:2 * h], box, pbc, 'system-pairs')
    res, mag = call_both(ctx, am, spos[la], spos[lb], box, pbc, 'system')
    with ctx.guard('System.dvect accepts index lists', 'System.dvect:exception:list,list'):
        rec.check(np.array_equal(np.reshape(s.dvect(la, lb), (-1, 3)), np.reshape(res, (-1, 3))),
                  'System.dvect equals atomman.dvect under the system\'s own box and pbc', 'System.dvect:vs-module')
    with ctx.guard('System.dmag accepts index lists', 'System.dmag:exception:list,list'):
        rec.check(np.array_equal(np.reshape(s.dmag(la, lb), (-1,)), np.reshape(mag, (-1,))),
                  'System.dmag equals atomman.dmag under the system\'s own box and pbc', 'System.dmag:vs-module')
    must_refuse(ctx, s.dvect, 'System.dvect refuses index lists of different lengths with ValueError', 'System.dvect:mismatch',
                [0, 1, 2], [0, 1])
    must_refuse(ctx, s.dmag, 'System.dmag refuses index lists of different lengths with ValueError', 'System.dmag:mismatch',
                slice(0, 3), [0, 1])


def run_displacement(ctx, am, cell, box, pbc, pos, rnd, keep=None, pos_keep=None):
    """keep (bool mask) / pos_keep: atoms whose final position is the generated partner point itself (pairs placed near
    short lattice vectors of the initial cell), instead of deformation + thermal move + hop."""
    rec, rng = ctx.rec, ctx.rng
    v0, o0 = box.vects, box.origin
    n = len(pos)
    if 'pattern' in cell:
        # structured-zero cells: every entry rescaled on its own (the final cell keeps the arrangement of exact zeros),
        # every third round a general strain instead
        v1 = v0 * (1.0 + rng.uniform(-0.04, 0.04, (3, 3))) if rnd % 3 != 2 else GEN.strained(rng, v0)
        rec.count('displacement:final-cell-zeros:' + S.zero_class(v1))
    else:
        # orthogonal cells get a pure stretch every other round so that the 'final' reference cell is orthogonal too
        v1 = GEN.strained(rng, v0, diagonal=bool(cell['ortho'] and rnd % 2 == 0))
    o1 = o0 + rng.uniform(-0.05, 0.05, 3) * cell['L']
    pbc1 = GEN.PBCS[(GEN.PBCS.index(tuple(pbc)) + 1 + rnd % 7) % 8]      # always differs from pbc
    s0 = s1 = None
    # final positions: follow the deformation, move a little, and let some atoms re-enter through the other side
    rel = S.G.rel(pos, v0, o0)
    pos1 = S.G.cart(rel, v1, o1) + rng.normal(0, 0.03, (n, 3)) * cell['L']
    hop = rng.integers(-1, 2, (n, 3)).astype(float) * (rng.random((n, 1)) < 0.5)
    pos1 = pos1 + hop @ v1
    if keep is not None and np.any(keep):
        pos1[keep] = pos_keep[keep]
        rec.count('displacement:atoms-at-generated-partner', int(np.sum(keep)))
    with ctx.guard('Systems can be built from positions, box and pbc', 'system:build'):
        s0 = am.System(atoms=am.Atoms(pos=pos.copy()), box=box, pbc=pbc)
        s1 = am.System(atoms=am.Atoms(pos=pos1), box=am.Box(vects=v1, origin=o1), pbc=pbc1)
    if s0 is None or s1 is None:
        return
    p0, p1 = s0.atoms.pos, s1.atoms.pos
    for ref in ('final', 'initial', None, 'default'):
        disp = None
        with ctx.guard(f'displacement(box_reference={ref})', f'displacement:exception:{ref}'):
            disp = am.displacement(s0, s1) if ref == 'default' else am.displacement(s0, s1, box_reference=ref)
        if disp is None:
            continue
        rec.count('displacement:calls')
        if ref is None:
            rec.check(np.array_equal(disp, p1 - p0), 'displacement(None) is the plain difference of positions', 'displacement:none')
            continue
        sref = s0 if ref == 'initial' else s1
        rows = []
        with ctx.guard('dvect one pair at a time', 'dvect:exception:one-one'):
            for k in range(n):
                rows.append(np.asarray(am.dvect(p0[k], p1[k], sref.box, sref.pbc)).reshape(3))
        if len(rows) == n:
            rec.check(np.shape(disp) == (n, 3) and np.array_equal(disp, np.array(rows)),
                      'displacement equals dvect atom by atom under the chosen reference box and pbc',
                      f'displacement:vs-dvect:{"final" if ref == "default" else ref}', ref=ref, got=disp, expected=np.array(rows),
                      pbc0=s0.pbc, pbc1=s1.pbc)
    s_short = am.System(atoms=am.Atoms(pos=pos[:-1].copy()), box=box, pbc=pbc)
    must_refuse(ctx, am.displacement, 'displacement refuses systems with different numbers of atoms with ValueError',
                'displacement:natoms-mismatch', s0, s_short)
    must_refuse(ctx, am.displacement, 'displacement refuses an unknown box_reference with ValueError',
                'displacement:bad-reference', s0, s1, 'middle')


def run_case(ctx, am, i, cell, pbc, shape, oc, scale, rnd, nk, npairs, sample):
    """One case of either group: the cell through Box, the pairs of all classes through the call shape of the case.
    nk = number of cell kinds of the group (the fastest digit of the case index)."""
    rec, rng = ctx.rec, ctx.rng
    kind = cell['kind']
    sname = GEN.scale_name(scale)
    ST.scale = sname
    box = None
    with ctx.guard('Box can be built from vectors and origin', 'box:build'):
        box = am.Box(vects=cell['vects'], origin=cell['origin'])
    if box is None:
        return
    given = cell['vects']
    # the cell the functions are given is the Box's (its setter zeroes components below 1e-9 max)
    cell = dict(cell, vects=np.array(box.vects), origin=np.array(box.origin))
    # (information, not a clause of this property) the Box changed the arrangement of zeros it was given
    rec.count('info:box-changed-the-zero-pattern', int(not np.array_equal(cell['vects'] == 0.0, given == 0.0)))
    pname = GEN.pbc_name(pbc)
    ST.shifted = False
    pbc_arg = [pbc, list(pbc), np.array(pbc)][i % 3]
    rec.count('class:cell:' + kind)
    rec.count('class:pbc:' + pname)
    rec.count('class:shape:' + shape)
    rec.count('class:origin:' + oc)
    rec.count('class:scale:' + sname)
    rec.count('class:scale:' + sname + ':shape=' + shape)
    rec.count('class:zeros:' + S.zero_class(cell['vects']))
    single0 = ['inside', 'face', 'corner', 'outside'][(i + rnd) % 4] if shape in ('one-many', 'many-one') else None
    n = 8 if shape == 'one-one' else npairs
    # offset: the pair classes rotate against the cell kind (nk and the number of pair classes are not coprime)
    rel0, rel1, classes, p0, p1 = GEN.gen_pairs(rng, cell, n, offset=i + i // nk, single0=single0, pbc=pbc)
    for c in classes:
        rec.count('class:pair:' + c)
    if kind in GEN.COMBO_KINDS:
        cr = GEN.combo_ratio(cell['vects'], pbc)
        rec.count('class:cell:periodic-combination-shorter-than-every-cell-vector', int(cr < 1.0))
        if cr < 1.0:
            rec.count('class:cell:periodic-combination-shorter-than-every-cell-vector:' + kind + ':pbc=' + pname)
        rec.count('class:cell:lammps-normalised:' + kind, int(S.is_lammps_normalised(cell['vects'])))

    if shape == 'one-one':
        for k in range(n):
            call_both(ctx, am, p0[k], p1[k], box, pbc_arg, 'one-one')
    elif shape == 'one-many':
        a = p0[0] if i % 2 == 0 else p0[:1]
        call_both(ctx, am, a, p1, box, pbc_arg, 'one-many')
    elif shape == 'many-one':
        a = p0[0] if i % 2 == 1 else p0[:1]
        call_both(ctx, am, p1, a, box, pbc_arg, 'many-one')
    elif shape == 'many-many':
        call_both(ctx, am, p0, p1, box, pbc_arg, 'many-many')
    elif shape == 'list-tuple':
        sub = (rnd + i) % 4
        if sub == 0:
            call_both(ctx, am, p0.tolist(), p1.tolist(), box, pbc_arg, 'list,list')
        elif sub == 1:
            call_both(ctx, am, tuple(map(tuple, p0)), p1.tolist(), box, pbc_arg, 'tuple,list')
        elif sub == 2:
            call_both(ctx, am, tuple(p0[0]), [list(r) for r in p1], box, pbc_arg, 'tuple1,list')
        else:
            call_both(ctx, am, [tuple(r) for r in p1], list(p0[0]), box, pbc_arg, 'list,list1')
        rec.count('class:list-tuple:%d' % sub)
    elif shape == 'layout':
        name, a, b = layouts(rng, p0, p1, i // nk + rnd)
        rec.count('class:layout:' + name)
        fa, fb = fingerprint(np.array(a)), fingerprint(np.array(b))
        call_both(ctx, am, a, b, box, pbc_arg, 'layout:' + name)
        rec.check(fingerprint(np.array(a)) == fa and fingerprint(np.array(b)) == fb,
                  'the position arguments are left unchanged', 'inputs-modified')
    elif shape == 'system-index':
        hs = max(6, n // 4)                  # the first hs generated pairs: atoms k and hs + k
        run_system_forms(ctx, am, cell, box, pbc_arg, np.vstack([p0[:hs], p1[:hs]]), i)
    elif shape == 'displacement':
        run_displacement(ctx, am, cell, box, pbc_arg, p0, rnd, keep=np.array([c in GEN.NEAR_SHORT for c in classes]), pos_keep=p1)

    # incompatible lengths are refused, whatever the case class
    m0, m1 = [(3, 2), (2, 5), (4, 3), (0, 4)][i % 4]
    fn = am.dvect if (i // 4) % 2 == 0 else am.dmag
    must_refuse(ctx, fn, 'positions of incompatible lengths are refused with ValueError',
                ('dvect' if fn is am.dvect else 'dmag') + ':mismatch', p0[:m0], p1[:m1], box, pbc_arg)

    nontrivial = ST.shifted or not any(pbc)
    rec.case((kind, pname, shape, oc, sname), nontrivial=nontrivial,
             fp=fingerprint(cell['vects'], cell['origin'], pname, p0, p1))
    if sample:
        rec.sample(dict(kind=kind, pattern=cell.get('pattern'), pbc=pname, shape=shape, origin_class=oc, scale=sname,
                        vects=cell['vects'], origin=cell['origin'], pair_classes=classes[:8], p0=p0[:3], p1=p1[:3]),
                   group=('sample:zeros:' if 'pattern' in cell else 'sample:') + shape)


# ---------------------------------------------------------------------------------------------------------------
# third case group: ONE Box / System is queried, changed in place, and queried again (vf/gen/c02_reuse.py)
def _readback(rec, box, v_int, o_int, how, slack=0.0):
    """The cell the Box describes now; where the harness knows what it handed over, the Box must describe that
    (documented: components below 1e-9 of the largest one are zeroed).  The oracle then uses what was read back."""
    vr, orr = np.array(box.vects), np.array(box.origin)
    if v_int is not None:
        m = np.abs(v_int).max()
        tol = (1e-9 + 16 * S.EPS) * m + slack
        ok = vr.shape == (3, 3) and bool(np.all(np.abs(vr - v_int) <= tol))
        rec.check(ok, 'the Box describes the cell it was last given', f'reuse:{how}:box-readback:vects',
                  **({} if ok else dict(got=vr, expected=v_int, tol=tol)))
    if o_int is not None:
        ok = bool(np.all(np.abs(orr - o_int) <= slack))
        rec.check(ok, 'the Box has the origin it was last given', f'reuse:{how}:box-readback:origin',
                  **({} if ok else dict(got=orr, expected=o_int)))
    return vr, orr


def _used_box(ctx, am, cell0, pbc):
    """A Box with ANOTHER cell that has already been queried through dvect and dmag."""
    b = am.Box(vects=cell0['vects'] * 1.37, origin=cell0['origin'] + 0.11 * cell0['L'])
    c = dict(vects=np.array(b.vects), origin=np.array(b.origin))
    _, _, _, a0, a1 = GEN.gen_pairs(ctx.rng, c, 4, offset=1, pbc=pbc)
    am.dvect(a0, a1, b, pbc)
    am.dmag(a0, a1, b, pbc)
    return b


def construct(ctx, am, sp, cell0, h):
    """The object of the first query by the construction path of the case -> (box, system or None, slack)."""
    rng = ctx.rng
    cp, pbc = sp['cpath'], sp['pbc']
    v0, o0 = cell0['vects'], cell0['origin']
    s = None
    slack = 0.0
    if cp == 'vects':
        box = am.Box(vects=v0, origin=o0)
    elif cp == 'avect':
        box = am.Box(avect=v0[0], bvect=v0[1], cvect=v0[2], origin=o0)
    elif cp == 'default-then-assign':
        box = am.Box()
        box.vects = v0
        box.origin = o0
    elif cp == 'model':
        box = am.Box(model=am.Box(vects=v0, origin=o0).model())
    elif cp == 'model-json':
        box = am.Box(model=am.Box(vects=v0, origin=o0).model().json())
    elif cp == 'deepcopy-used':
        box = copy.deepcopy(_used_box(ctx, am, cell0, pbc))
        box.set(vects=v0, origin=o0)
    elif cp == 'pickle-used':
        box = pickle.loads(pickle.dumps(_used_box(ctx, am, cell0, pbc)))
        box.vects = v0
        box.origin = o0
    elif cp == 'lengths':
        box = am.Box(origin=o0, **RGEN.lammps_params(v0))
    elif cp == 'hilo':
        lp = RGEN.lammps_params(v0)
        box = am.Box(xlo=o0[0], xhi=o0[0] + lp['lx'], ylo=o0[1], yhi=o0[1] + lp['ly'], zlo=o0[2], zhi=o0[2] + lp['lz'],
                     xy=lp['xy'], xz=lp['xz'], yz=lp['yz'])
        slack = 4 * S.EPS * (np.abs(o0).max() + cell0['L'])
    elif cp == 'abc':
        box = am.Box(origin=o0, **RGEN.abc_params(v0))
        slack = 1e-12 * cell0['L']
    elif cp == 'classmethod':
        p, name = cell0['params'], sp['classmethod']
        args = dict(cubic=('a',), hexagonal=('a', 'c'), tetragonal=('a', 'c'), trigonal=('a', 'alpha'), orthorhombic=('a', 'b', 'c'),
                    monoclinic=('a', 'b', 'c', 'beta'), triclinic=('a', 'b', 'c', 'alpha', 'beta', 'gamma'))[name]
        box = getattr(am.Box, name)(*[p[k] for k in args])
        box.origin = o0
        slack = 1e-12 * cell0['L']
    elif cp == 'system-model':
        src = am.System(atoms=am.Atoms(pos=rng.uniform(0, 1, (2 * h, 3)) * cell0['L']), box=am.Box(vects=v0, origin=o0), pbc=pbc)
        s = am.System(model=src.model())
        box = s.box
    elif cp in ('system-deepcopy-used', 'safecopy'):
        used = _used_box(ctx, am, cell0, pbc)
        atoms = am.Atoms(pos=used.origin + rng.uniform(0, 1, (2 * h, 3)) @ used.vects)
        if cp == 'safecopy':
            s = am.System(atoms=atoms, box=used, pbc=pbc, safecopy=True)
        else:
            src = am.System(atoms=atoms, box=used, pbc=pbc)
            src.dvect(0, 1)
            src.dmag([0, 1], [2, 3])
            s = copy.deepcopy(src)
        s.box_set(vects=v0, origin=o0)
        box = s.box
    else:  # pragma: no cover
        raise ValueError(cp)
    return box, s, slack


def ep_pairs(ep, posS, posT, h):
    """The pairs an entry point of this group is asked about (harness's own copies of the positions)."""
    if ep == 'displacement[final]':
        return posT, posS                    # displacement(t, s): from t's atoms to s's, under s's cell
    if ep == 'displacement[initial]':
        return posS, posT                    # displacement(s, t, 'initial'): under s's cell
    return posS[:h], posS[h:]


def call_ep(ctx, am, ep, s, t, pbc_arg, h, form, tag):
    """One query through entry point ``ep``; every one of them refers to the Box and pbc of system ``s``.
    The position arguments of dvect / dmag are views of the system's own position array."""
    res = None
    with ctx.guard(f'{ep} answers for an object that was queried before', f'reuse:{ep}:exception:{tag}'):
        pos = s.atoms.pos
        if ep == 'dvect':
            res = am.dvect(pos[:h], pos[h:], s.box, pbc_arg)
        elif ep == 'dmag':
            res = am.dmag(pos[:h], pos[h:], s.box, pbc_arg)
        elif ep == 'System.dvect':
            res = s.dvect(*RGEN.index_pair(h, form))
        elif ep == 'System.dmag':
            res = s.dmag(*RGEN.index_pair(h, form))
        elif ep == 'displacement[final]':
            res = am.displacement(t, s) if form % 2 == 0 else am.displacement(t, s, box_reference='final')
        else:
            res = am.displacement(s, t, 'initial') if form % 2 == 0 else am.displacement(s, t, box_reference='initial')
    return res


def judge_later(rec, route, ep, res, P0, P1, v1, o1, pbc1, v_old, pbc_old):
    """A query made AFTER the in-place change, judged against the cell / periodicity / positions of NOW; counts the
    rows on which the cell and periodicity of the first query would give another answer."""
    t = _truth(P0, P1, v1, o1, pbc1)
    vector = 'dmag' not in ep
    j = (S.judge_vector if vector else S.judge_mag)(t, res)
    for cid, text in (V_CLAUSES if vector else M_CLAUSES):
        if cid not in j:
            continue
        ok = j[cid]
        rec.check(ok.all(), text + ' [object queried before and changed in place since]', f'reuse:{route}:{ep}:{cid}',
                  **({} if ok.all() else _bad_detail(t, ok, res)))
        if cid == 'rows' and not ok.all():
            return t
    rec.count(f'reuse:rows:{route}:{ep}', t.n)
    if t.n:
        rec.count(f'reuse:image-needed:{route}:{ep}', int(S.hostility(t)['beaten'].sum()))
        l_old, v_old27, _ = S.G.min27(t.d, v_old, pbc_old)
        differ = (np.abs(l_old - t.l27) > 8 * t.bnd) | ((t.ntie27 == 1) & (np.linalg.norm(v_old27 - t.v27, axis=1) > 8 * t.bnd))
        rec.count(f'reuse:stale-cell-would-differ:{route}:{ep}', int(differ.sum()))
        rec.count(f'reuse:stale-cell-would-differ:{ep}', int(differ.sum()))
    if vector and '_nint' in j and np.any(j['_nint'] != 0):
        ST.shifted = True
    return t


def state_unchanged(rec, what, key, s, t, posS, posT, box, v, o, pbc_arg, pbc):
    """Arguments and queried objects hold what the harness put there."""
    ok = (np.array_equal(s.atoms.pos, posS) and np.array_equal(t.atoms.pos, posT) and np.array_equal(box.vects, v)
          and np.array_equal(box.origin, o) and [bool(x) for x in pbc_arg] == [bool(x) for x in pbc]
          and [bool(x) for x in s.pbc] == [bool(x) for x in pbc])
    rec.check(ok, what, key)
    return ok


def run_reuse(ctx, am, j, h):
    rec, rng = ctx.rec, ctx.rng
    sp = RGEN.stratified_r(j)
    route, first, cp, form = sp['route'], sp['first'], sp['cpath'], sp['index_form']
    pbc0 = tuple(sp['pbc'])
    pname = GEN.pbc_name(pbc0)
    ST.scale = None
    ST.shifted = False
    for k_ in ('route', 'first', 'rel', 'cpath', 'origin'):
        rec.count(f'class:reuse:{k_}:{sp[k_]}')
    rec.count('class:reuse:scale:' + GEN.scale_name(sp['scale']))
    rec.count('class:reuse:pbc:' + pname)
    rec.count(f'class:reuse:route-x-first:{route}:{first}')
    rec.count('class:reuse:index-form:' + RGEN.INDEX_FORMS[form])

    # ---- construction
    cell0 = RGEN.initial_cell(rng, sp)
    built = None
    with ctx.guard('Box / System can be built along the documented construction paths', f'reuse:construct:{cp}'):
        built = construct(ctx, am, sp, cell0, h)
    if built is None:
        return
    box, s, slack = built
    v0, o0 = _readback(rec, box, cell0['vects'], cell0['origin'], 'construct:' + cp, slack)
    if not RGEN.acceptable(v0):
        rec.count('reuse:skipped(built cell not acceptable)')
        return
    rec.count('class:reuse:zeros:' + S.zero_class(v0))
    cell = dict(cell0, vects=v0, origin=o0, L=np.linalg.norm(v0, axis=1).max())
    _, _, classes, p0, p1 = GEN.gen_pairs(rng, cell, h, offset=j + j // 10, pbc=pbc0)
    posS0, posT0 = np.vstack([p0, p1]), np.vstack([p1, p0])
    posS, posT = posS0.copy(), posT0.copy()
    pbc_arg = list(pbc0) if j % 2 == 0 else np.array(pbc0)          # ONE object, edited in place later
    t = s1 = None
    with ctx.guard('Systems can be built from positions, box and pbc', 'system:build'):
        if s is None:
            s = am.System(atoms=am.Atoms(pos=posS.copy()), box=box, pbc=pbc0)
        else:
            s.atoms.pos[:] = posS
            s.pbc = pbc0
        boxT = am.Box(vects=GEN.strained(rng, v0), origin=o0 + rng.uniform(-0.05, 0.05, 3) * cell['L'])
        t = am.System(atoms=am.Atoms(pos=posT.copy()), box=boxT, pbc=GEN.PBCS[(GEN.PBCS.index(pbc0) + 3) % 8])
        s1 = am.System(atoms=am.Atoms(pos=posS[:1].copy()), box=box, pbc=pbc0)      # one atom, SHARES the Box
    if s is None or t is None or s1 is None:
        return
    rec.check(s.box is box and s1.box is box, 'a System built without safecopy refers to the Box it was given', 'reuse:system-box-identity')

    # ---- first query (kept), judged by the monitors
    keepA = call_ep(ctx, am, first, s, t, pbc_arg, h, form, 'first')
    if keepA is None:
        return
    copyA = np.array(keepA, copy=True)
    with ctx.guard('System.dvect / dmag of a one-atom system', 'reuse:one-atom:exception'):
        r1 = s1.dvect(0, posS[h])
        rec.check(np.shape(r1) == (3,), 'System.dvect of one pair returns one vector', 'reuse:one-atom:shape', got=np.shape(r1))
        s1.dmag(0, posS[h])
        rec.count('boundary:one-atom-system:first')
    state_unchanged(rec, 'a query leaves its arguments and the queried objects unchanged', f'inputs-modified:{first}',
                    s, t, posS, posT, box, v0, o0, pbc_arg, pbc0)

    # ---- the change in place
    v1i = o1i = None                # what the harness hands over (None: not the harness's to say)
    pbc1 = pbc0
    sl1 = 0.0
    rel = sp['rel']
    cur_s, cur_t, cur_box, cur_s1 = s, t, box, s1
    with ctx.guard(f'in-place change {route}', f'reuse:change:{route}:exception'):
        if route in RGEN.CELL_ROUTES and route != 'set()':
            v1i, o1i, rel = RGEN.new_cell(rng, sp, v0, o0)
            omit = sp['omit_origin']
            if route == 'vects=':
                box.vects = v1i
                o1i = o0
            elif route == 'set(vects)':
                box.set(vects=v1i) if omit else box.set(vects=v1i, origin=o1i)
            elif route == 'set(avect)':
                box.set(avect=v1i[0], bvect=v1i[1], cvect=v1i[2]) if omit else box.set(avect=v1i[0], bvect=v1i[1], cvect=v1i[2], origin=o1i)
            elif route == 'set(lengths)':
                box.set(**RGEN.lammps_params(v1i)) if omit else box.set(origin=o1i, **RGEN.lammps_params(v1i))
            elif route == 'set(hilo)':
                lp = RGEN.lammps_params(v1i)
                box.set(xlo=o1i[0], xhi=o1i[0] + lp['lx'], ylo=o1i[1], yhi=o1i[1] + lp['ly'], zlo=o1i[2], zhi=o1i[2] + lp['lz'],
                        xy=lp['xy'], xz=lp['xz'], yz=lp['yz'])
                omit = False
                sl1 = 4 * S.EPS * (np.abs(o1i).max() + np.abs(v1i).max())
            elif route == 'set(abc)':
                ap = RGEN.abc_params(v1i)
                box.set(**ap) if omit else box.set(origin=o1i, **ap)
                v1i = S.G.vects_from_lammps(*S.G.lammps_from_abc(**ap))
                sl1 = 1e-12 * np.abs(v1i).max()
            elif route == 'model':
                box.model(am.Box(vects=v1i, origin=o1i).model() if j % 2 else am.Box(vects=v1i, origin=o1i).model().json())
                omit = False
            elif route == 'box_set':
                s.box_set(vects=v1i) if omit else s.box_set(vects=v1i, origin=o1i)
            elif route == 'box_set(scale)':
                s.box_set(vects=v1i, scale=True) if omit else s.box_set(vects=v1i, origin=o1i, scale=True)
            if omit and route != 'vects=':
                o1i = np.zeros(3)                       # documented default of set(...) without origin
        elif route == 'set()':
            box.set()
            v1i, o1i, rel = np.eye(3), np.zeros(3), 'default'
        elif route == 'wrap':
            s.wrap()
        elif route == 'origin=':
            o1i = o0 + rng.uniform(-0.6, 0.6, 3) * cell['L']
            box.origin = o1i
            v1i = v0
        elif route == 'pbc=':
            pbc1 = GEN.PBCS[(GEN.PBCS.index(pbc0) + 1 + j % 7) % 8]
            s.pbc = pbc1
            s1.pbc = pbc1
            pbc_arg[:] = pbc1
        elif route == 'other-instance':
            # nothing is changed: ANOTHER instance (every other time a default-constructed one) is queried in between
            if j % 2 == 0:
                cur_box = am.Box()
                rel = 'default'
            else:
                v1i, o1i, rel = RGEN.new_cell(rng, sp, v0, o0)
                cur_box = am.Box(vects=v1i, origin=o1i)
            pbc1 = GEN.PBCS[(GEN.PBCS.index(pbc0) + j % 8) % 8]
            cur_s = am.System(atoms=am.Atoms(pos=posS.copy()), box=cur_box, pbc=pbc1)
            cur_t = am.System(atoms=am.Atoms(pos=posT.copy()), box=am.Box(vects=v0, origin=o0), pbc=pbc0)
            cur_s1 = am.System(atoms=am.Atoms(pos=posS[:1].copy()), box=cur_box, pbc=pbc1)
        rel = rel if route in RGEN.CELL_ROUTES or route == 'other-instance' else 'same-cell'
        rec.count(f'class:reuse:route-x-relation:{route}:{rel}')
    pbc_b = pbc_arg if cur_s is s else (list(pbc1) if j % 4 < 2 else np.array(pbc1))
    v1, o1 = _readback(rec, cur_box, v1i, o1i, 'change:' + route, sl1)
    if not RGEN.acceptable(v1, 0.004):
        rec.count('reuse:skipped(changed cell not acceptable)')
        return
    if route == 'wrap':
        rec.count('reuse:wrap-changed-the-box', int(not (np.array_equal(v1, v0) and np.array_equal(o1, o0))))
    cell1 = dict(cell, vects=v1, origin=o1, L=np.linalg.norm(v1, axis=1).max())
    if route in RGEN.KEEP_POS_ROUTES:
        posS = np.array(cur_s.atoms.pos)                      # what atomman made of them (not this property's business)
        posT = np.vstack([posS[h:], posS[:h]])
        cur_t.atoms.pos[:] = posT
    else:
        # the SAME position arrays get the numbers of new pairs (drawn for the cell of now)
        _, _, classes1, q0, q1 = GEN.gen_pairs(rng, cell1, h, offset=j + 3, pbc=pbc1)
        posS, posT = np.vstack([q0, q1]), np.vstack([q1, q0])
        cur_s.atoms.pos[:] = posS
        cur_t.atoms.pos[:] = posT
    cur_s1.atoms.pos[:] = posS[:1]
    rec.count(f'reuse:atoms-moved-in-place:{route}', int(np.any(posS != posS0, axis=1).sum()))

    # ---- queries after the change: every entry point, judged against the cell / periodicity / positions of NOW
    later = {}
    for ep in RGEN.EPS:
        res = call_ep(ctx, am, ep, cur_s, cur_t, pbc_b, h, form, 'later')
        if res is None:
            continue
        later[ep] = res
        P0, P1 = ep_pairs(ep, posS, posT, h)
        judge_later(rec, route, ep, res, P0, P1, v1, o1, pbc1, v0, pbc0)
        state_unchanged(rec, 'a query leaves its arguments and the queried objects unchanged', f'inputs-modified:{ep}',
                        cur_s, cur_t, posS, posT, cur_box, v1, o1, pbc_b, pbc1)
        if isinstance(res, np.ndarray):
            held = [('system positions', cur_s.atoms.pos), ('partner positions', cur_t.atoms.pos)]
            ok = not any(np.shares_memory(res, a) for _, a in held)
            rec.check(ok, 'a result does not share memory with the caller\'s arrays', f'alias:{ep}:result-shares-memory-with-arguments')
            ok = not np.shares_memory(res, keepA) and not any(np.shares_memory(res, r_) for e_, r_ in later.items()
                                                               if e_ != ep and isinstance(r_, np.ndarray))
            rec.check(ok, 'results of different calls do not share memory', f'alias:{ep}:result-shares-memory-with-another-result')
            rec.count(f'alias:memory-checked:{ep}')
    # cross-checks that need no oracle: entry points that must agree bit for bit under the same cell
    if 'dvect' in later:
        dv = np.reshape(later['dvect'], (-1, 3))
        if 'System.dvect' in later:
            rec.check(np.array_equal(np.reshape(later['System.dvect'], (-1, 3)), dv),
                      'System.dvect equals atomman.dvect under the system\'s own box and pbc', f'reuse:{route}:System.dvect-vs-module')
        if 'displacement[final]' in later:
            rec.check(np.array_equal(np.reshape(later['displacement[final]'], (-1, 3))[h:], dv),
                      'displacement equals dvect atom by atom under the chosen reference box and pbc', f'reuse:{route}:displacement-vs-dvect:final')
        if 'displacement[initial]' in later:
            rec.check(np.array_equal(np.reshape(later['displacement[initial]'], (-1, 3))[:h], dv),
                      'displacement equals dvect atom by atom under the chosen reference box and pbc', f'reuse:{route}:displacement-vs-dvect:initial')
        if 'dmag' in later and np.shape(later['dmag']) == (h,):
            bnd = 64 * S.EPS * (np.linalg.norm(posS[:h], axis=1) + np.linalg.norm(posS[h:], axis=1) + 3 * cell1['L'])
            rec.check(bool(np.all(np.abs(np.linalg.norm(dv, axis=1) - later['dmag']) <= bnd)),
                      'length of the separation vector equals the scalar periodic distance', f'reuse:{route}:dvect-vs-dmag')
            if 'System.dmag' in later:
                rec.check(np.array_equal(np.reshape(later['System.dmag'], (-1,)), later['dmag']),
                          'System.dmag equals atomman.dmag under the system\'s own box and pbc', f'reuse:{route}:System.dmag-vs-module')
        rec.count('reuse:cross-checked:' + route)
    # the one-atom system that shares the (changed) Box, and a one-atom displacement
    with ctx.guard('System.dvect / dmag / displacement of a one-atom system', 'reuse:one-atom:exception'):
        r1 = cur_s1.dvect(0, posS[h])
        judge_later(rec, route, 'System.dvect[one-atom system sharing the Box]', np.reshape(r1, (-1, 3)), posS[:1], posS[h:h + 1],
                    v1, o1, pbc1, v0, pbc0)
        m1 = cur_s1.dmag(0, posS[h])
        judge_later(rec, route, 'System.dmag[one-atom system sharing the Box]', np.reshape(m1, (-1,)), posS[:1], posS[h:h + 1],
                    v1, o1, pbc1, v0, pbc0)
        z = cur_s1.dvect(0, 0)
        rec.check(np.shape(z) == (3,) and not np.any(z), 'an atom is at zero separation from itself', 'reuse:one-atom:self-separation', got=z)
        s1b = am.System(atoms=am.Atoms(pos=posS[h:h + 1].copy()), box=cur_box, pbc=pbc1)
        d1 = am.displacement(cur_s1, s1b, box_reference=('final', 'initial')[j % 2])
        rec.check(np.shape(d1) == (1, 3) and np.array_equal(np.reshape(d1, 3), np.reshape(r1, 3)),
                  'displacement of one-atom systems is the one separation', 'reuse:one-atom:displacement', got=d1, expected=r1)
        rec.count('boundary:one-atom-system:later')

    # ---- results of earlier calls are values: later calls do not change them, writing to them changes nothing else
    rec.check(np.array_equal(keepA, copyA), 'a returned result is not changed by later calls', f'reuse:kept-result-changed-by-later-calls:{first}',
              got=keepA, expected=copyA)
    rec.count(f'reuse:kept-result-compared:{first}')
    nscribbled = 0
    for ep, res in later.items():
        if isinstance(res, np.ndarray) and res.flags.writeable and res.size:
            res[...] = np.nan
            nscribbled += 1
    rec.count('alias:results-overwritten-by-the-caller', nscribbled)
    state_unchanged(rec, 'writing to a returned array changes neither the caller\'s arguments nor the queried objects',
                    'alias:writing-to-a-result-changed-arguments-or-objects', cur_s, cur_t, posS, posT, cur_box, v1, o1, pbc_b, pbc1)
    rec.check(np.array_equal(keepA, copyA), 'writing to a returned array does not change an earlier result',
              f'alias:writing-to-a-result-changed-an-earlier-result:{first}')

    # ---- restore in place (the object set a second time) and repeat the first query: same arguments, same value
    with ctx.guard('the object can be set back in place', 'reuse:restore:exception'):
        if j % 2 == 0:
            box.set(vects=v0, origin=o0)
        else:
            box.vects = v0
            box.origin = o0
        s.pbc = pbc0
        s1.pbc = pbc0
        pbc_arg[:] = pbc0
        s.atoms.pos[:] = posS0
        t.atoms.pos[:] = posT0
        s1.atoms.pos[:] = posS0[:1]
    again = call_ep(ctx, am, first, s, t, pbc_arg, h, form, 'repeat')
    if again is not None:
        rec.check(np.shape(again) == np.shape(copyA) and np.array_equal(again, copyA),
                  'the same query with equal arguments gives the same value whatever happened in between',
                  f'reuse:repeat-after-restore-differs:{first}', route=route, got=again, expected=copyA)
        rec.count(f'reuse:repeat-compared:{first}')
        rec.count(f'reuse:repeat-compared:route:{route}')
    # ... and so do freshly built, equal objects
    fresh = None
    with ctx.guard('fresh equal objects', 'reuse:fresh:exception'):
        boxF = am.Box(vects=v0, origin=o0)
        sF = am.System(atoms=am.Atoms(pos=posS0.copy()), box=boxF, pbc=pbc0)
        tF = am.System(atoms=am.Atoms(pos=posT0.copy()), box=am.Box(vects=np.array(t.box.vects), origin=np.array(t.box.origin)), pbc=t.pbc)
        fresh = call_ep(ctx, am, first, sF, tF, tuple(pbc0), h, (form + 1) % 4, 'fresh')
    if fresh is not None:
        rec.check(np.shape(fresh) == np.shape(copyA) and np.array_equal(fresh, copyA),
                  'freshly built equal objects give the same value as the object with a history',
                  f'reuse:fresh-equal-objects-differ:{first}', route=route, got=fresh, expected=copyA)
        rec.count(f'reuse:fresh-compared:{first}')

    # ---- integer-valued positions in every documented argument form (numpy.ndarray of any integer dtype, list, tuple)
    a0, a1, f0, f1, label = RGEN.integer_points(posS0[:h], posS0[h:], sp['arg_form'])
    pbc_form = pbc_arg
    if sp['arg_form'] == 'bool-pbc-int':
        pbc_form = [int(x) for x in pbc0] if j % 2 else np.array(pbc0, dtype=int)
        label = 'int64+pbc-as-' + ('int-list' if j % 2 else 'int-array')
    rec.count('class:argform:' + label.split(':')[0])
    gi, mi = call_both(ctx, am, a0, a1, box, pbc_form, 'argform:' + label.split(':')[0])
    gf, mf = call_both(ctx, am, f0, f1, box, pbc0, 'argform:float64')
    if gi is not None and gf is not None and mi is not None and mf is not None:
        rec.check(np.array_equal(gi, gf) and np.array_equal(mi, mf),
                  'integer-valued positions give the same answer in every argument form (the conversion to float64 is exact)',
                  'argform:' + label.split(':')[0] + ':differs-from-float64', got=gi, expected=gf)
        t_ = _truth(f0, f1, v0, o0, pbc0)
        rec.count('argform:rows:' + label.split(':')[0], t_.n)
        rec.count('argform:image-needed', int(S.hostility(t_)['beaten'].sum()))

    # ---- refusals the statement requires, per argument form, on an object with a history
    k3 = min(3, h)
    forms = [('list', posS0[:k3].tolist(), posS0[:2].tolist()), ('tuple', tuple(map(tuple, posS0[:2])), tuple(map(tuple, posS0[:k3]))),
             ('int-array', np.rint(posS0[:k3]).astype(np.int64), np.rint(posS0[:2]).astype(np.int64)),
             ('float32', posS0[:2].astype(np.float32), posS0[:k3].astype(np.float32))]
    fname, b0, b1 = forms[j % 4]
    for name_, fn in (('dvect', am.dvect), ('dmag', am.dmag)):
        must_refuse(ctx, fn, f'positions of incompatible lengths ({fname}) are refused with ValueError', f'{name_}:mismatch:{fname}',
                    b0, b1, box, pbc_arg)
    must_refuse(ctx, s.dvect, 'System.dvect refuses index arguments of different lengths with ValueError', 'System.dvect:mismatch:history',
                [slice(0, 3), [0, 1, 2], np.arange(3)][j % 3], [[0, 1], slice(0, 2), np.arange(2)][(j // 3) % 3])
    must_refuse(ctx, s.dmag, 'System.dmag refuses index arguments of different lengths with ValueError', 'System.dmag:mismatch:history',
                [[0, 1], slice(0, 2), np.arange(2)][j % 3], [slice(0, 3), [0, 1, 2], np.arange(3)][(j // 3) % 3])
    ref = ('final', 'initial', None)[j % 3]
    must_refuse(ctx, am.displacement, 'displacement refuses systems with different numbers of atoms with ValueError, whatever the reference',
                f'displacement:natoms-mismatch:ref={ref}', *((s, s1, ref) if j % 2 else (s1, s, ref)))
    must_refuse(ctx, am.displacement, 'displacement refuses an unknown box_reference with ValueError',
                'displacement:bad-reference:history', s, t, ('Final', 'INITIAL', 'none', 'middle', '')[j % 5])

    rec.case(('reuse', route, first, rel, pname, cp), nontrivial=ST.shifted or not any(pbc1),
             fp=fingerprint(v0, o0, v1, o1, pname, posS0, posS))
    if j % RGEN.NCOMBO in (7, 100, 200):
        rec.sample(dict(route=route, first_query=first, relation=rel, construction=cp, pbc=pname, pbc_after=GEN.pbc_name(pbc1),
                        vects_before=v0, origin_before=o0, vects_after=v1, origin_after=o1, pair_classes=classes[:6],
                        p0=posS[:2], p1=posS[h:h + 2]), group='sample:reuse:' + route)


def run(ctx):
    import atomman as am
    rec = ctx.rec
    install_monitors(rec, am)

    asan = ctx.flavour == 'asan'
    rounds = ctx.pick(3, 3 if asan else 24)
    n_cases = GEN.NCOMBO * rounds
    nz_cases = GEN.NZCOMBO * ctx.pick(2, 2 if asan else 9)
    npairs = ctx.pick(16, 16 if asan else 48)
    ST.sample_outside = 2

    for i in ctx.cases('pairs', n_cases):
        kind, pbc, shape, oc, scale, rnd = GEN.stratified(i)
        cell = GEN.gen_cell(ctx.rng, kind, oc, scale, sub=i // GEN.NK, pbc=pbc)
        run_case(ctx, am, i, cell, pbc, shape, oc, scale, rnd, GEN.NK, npairs, i % GEN.NCOMBO in (3, 83, 167, 248, 329, 407, 488, 569))

    # second group: cells with structured zero patterns (upper / lower triangular, diagonal, permuted axes, blocks,
    # single exact zeros) x 8 periodicity settings x 8 call shapes, scales rotating as above
    for i in ctx.cases('zeros', nz_cases):
        kind, pbc, shape, oc, scale, rnd, m = GEN.stratified_z(i)
        cell = GEN.gen_zcell(ctx.rng, kind, oc, scale, m)
        rec.count('class:zpattern:' + cell['pattern'])
        rec.count('class:zcell:' + kind + ':pbc=' + GEN.pbc_name(pbc))
        rec.count('class:zcell:' + kind + ':shape=' + shape)
        run_case(ctx, am, i, cell, pbc, shape, oc, scale, rnd, GEN.NZ, npairs, i % GEN.NZCOMBO in (5, 70, 139, 204, 269, 334, 399, 464))
    ST.scale = None

    # third group: one Box / System queried, changed in place, queried again through every entry point, restored and
    # queried once more (full cross route x first entry point x relation of the new cell per 270 cases)
    nr_cases = RGEN.NCOMBO * ctx.pick(1, 1 if asan else 8)
    for i in ctx.cases('reuse', nr_cases):
        run_reuse(ctx, am, i, ctx.pick(12, 12 if asan else 24))

    for k, v_ in monitor.calls.items():
        if isinstance(v_, int):
            rec.count('monitor_calls:' + k, v_)
    nerr = sum(v_ for k, v_ in monitor.calls.items() if isinstance(v_, int) and k.endswith(('post_error', 'pre_error')))
    if nerr:
        rec.fail('monitor postconditions evaluate without internal error', 'harness:post_error',
                 tracebacks=monitor.calls.get('_post_tracebacks'))

    # coverage floors: monitors reached, hostile classes generated (reachable on any tier / seed / flavour)
    for ep in ('atomman.dvect', 'atomman.dmag', 'System.dvect', 'System.dmag', 'atomman.displacement'):
        rec.floor('monitor_calls:' + ep, 100)
    for ep in ('dvect', 'dmag', 'System.dvect', 'System.dmag', 'displacement[final]', 'displacement[initial]'):
        rec.floor('rows:' + ep, 500)
    rec.floor('rows:dvect-vs-dmag', 5000)
    rec.floor('guard:dvect:ortho', 1000)
    rec.floor('guard:dvect:tilted', 1000)
    rec.floor('guard:dmag:ortho', 1000)
    rec.floor('guard:dmag:tilted', 1000)
    rec.floor('guard:dvect:outside-guard', 1000)
    rec.floor('info:27-minimum-not-the-true-nearest(outside guard)', 5)
    rec.floor('info:ties(two candidates within the bound)', 100)
    rec.floor('info:unique-nearest-vector-compared', 1000)
    # inputs that defeat shortcuts of the image search: a direct separation below half the shortest cell vector that an
    # image still beats (needs a +-1 combination of periodic cell vectors shorter than every cell vector), seen by the
    # min27 clause of every entry point, by |dvect| = dmag, with both points in the cell, in each of the four settings
    # with two or three periodic axes, and in LAMMPS-normalised cells.  Floors are ~1/4 of the count of ONE build
    # flavour at 3 rounds (by construction: 70 % of the halfshort pairs of flat / skew cells are of this kind).
    for ep, m in (('dvect', 50), ('dmag', 35), ('System.dvect', 8), ('System.dmag', 8), ('displacement[initial]', 4)):
        rec.floor(f'hostile:{ep}:short-direct-beaten', m)
    rec.floor('hostile:dvect:short-direct-beaten:both-inside', 35)
    rec.floor('hostile:dmag:short-direct-beaten:both-inside', 25)
    rec.floor('hostile:dvect-vs-dmag:short-direct-beaten', 25)
    for pbc in PBC2:
        for ep in ('dvect', 'dmag'):
            rec.floor(f'hostile:{ep}:short-direct-beaten:pbc=' + GEN.pbc_name(pbc), 8)
        for kind in ('flat', 'skew'):
            rec.floor(f'class:cell:periodic-combination-shorter-than-every-cell-vector:{kind}:pbc=' + GEN.pbc_name(pbc), 20)
    for ep in ('dvect', 'dmag'):
        rec.floor(f'hostile:{ep}:short-direct-beaten:lammps-normalised-cell', 5)
        rec.floor(f'hostile:{ep}:rel-within-half-beaten', 200)
        rec.floor(f'hostile:{ep}:best-image-is-combination', 2000)
    rec.floor('class:cell:lammps-normalised:flat', 20)
    rec.floor('class:cell:lammps-normalised:needle', 20)
    rec.floor('displacement:atoms-at-generated-partner', 100)
    for kind in GEN.CELL_KINDS:
        rec.floor('class:cell:' + kind, 100)
    for pbc in GEN.PBCS:
        rec.floor('class:pbc:' + GEN.pbc_name(pbc), 100)
    for shape in GEN.SHAPES:
        rec.floor('class:shape:' + shape, 100)
    for c in GEN.PAIR_CLASSES:
        rec.floor('class:pair:' + c, 1000)
    for oc in GEN.ORIGINS:
        rec.floor('class:origin:' + oc, 100)
    for name in ('strided', 'fortran', 'column-slice', 'readonly', 'reversed', 'float32', 'single-row', 'empty'):
        rec.floor('class:layout:' + name, 5)
    for name in ('int,int', 'negint,int', 'list,list', 'slice,slice', 'int,list', 'slice,negint', 'mask,mask', 'position,list',
                 'pairs,pairs', 'pairslice,pairarray'):
        rec.floor('index-form:' + name, 50)
    for sc in ('(3,)x(3,)', '(3,)x(N,3)', '(1,3)x(N,3)', '(N,3)x(3,)', '(N,3)x(1,3)', '(N,3)x(N,3)', '(0,3)x(0,3)', '(1,3)x(1,3)'):
        rec.floor('shape:dvect:' + sc, 5)
        rec.floor('shape:dmag:' + sc, 5)
    # ---- length scales: every clause is evaluated at every scale through every entry point.  rows = rows judged by
    # lattice / periodic-only / min27 (dvect-vs-dmag: by |dvect| = dmag); guard = rows judged by the nearest-image
    # clause; image-needed = rows whose answer is NOT the direct separation.  Floors are ~1/3 of the smallest count of
    # ONE build flavour over seeds 0..5 at the quick tier's size.
    per_scale = {'dvect': (3000, 800, 2000), 'dmag': (2000, 600, 1500), 'System.dvect': (1000, 250, 800),
                 'System.dmag': (1000, 250, 800), 'displacement[final]': (300, 50, 120), 'displacement[initial]': (150, 50, 70)}
    for sc in GEN.SCALES:
        sn = GEN.scale_name(sc)
        rec.floor('class:scale:' + sn, 250)
        for shape in GEN.SHAPES:
            rec.floor('class:scale:' + sn + ':shape=' + shape, 30)
        for ep, (nrows, nguard, nimg) in per_scale.items():
            rec.floor(f'rows:{ep}:scale={sn}', nrows)
            rec.floor(f'guard:{ep}:scale={sn}', nguard)
            rec.floor(f'image-needed:{ep}:scale={sn}', nimg)
        rec.floor(f'rows:dvect-vs-dmag:scale={sn}', 1000)
        rec.floor(f'image-needed:dvect-vs-dmag:scale={sn}', 700)
    # ---- structured zero patterns: generated in every arrangement, with every periodicity setting and call shape,
    # judged through every entry point, and hostile to a "no tilt" shortcut (axis-wrap-wrong: wrapping each Cartesian
    # component on its own gives a wrong length) where the arrangement allows that at all
    for kind in GEN.ZKINDS:
        for pbc in GEN.PBCS:
            rec.floor('class:zcell:' + kind + ':pbc=' + GEN.pbc_name(pbc), 16)
        for shape in GEN.SHAPES:
            rec.floor('class:zcell:' + kind + ':shape=' + shape, 16)
    for sub in GEN.TRI_SUBSETS:
        rec.floor('class:zpattern:upper:' + '+'.join('%d%d' % GEN.UPPER_POS[k] for k in sub), 15)
        rec.floor('class:zpattern:lower:' + '+'.join('%d%d' % GEN.LOWER_POS[k] for k in sub), 15)
    for sg in GEN.DIAG_SIGNS:
        rec.floor('class:zpattern:diag:' + ''.join('+' if x > 0 else '-' for x in sg), 30)
    for perm in GEN.PERMS6[1:]:
        rec.floor('class:zpattern:perm-diag:%d%d%d' % perm, 20)
        for tri in ('upper', 'lower'):
            rec.floor('class:zpattern:perm-tri:%s:rows%d%d%d' % ((tri,) + perm), 8)
    for variant in ('2x2', 'axis-vector', 'plane-vectors'):
        for col in range(3):
            rec.floor('class:zpattern:block:%s:axis%d' % (variant, col), 10)
    for r in range(3):
        for c in range(3):
            rec.floor('class:zpattern:onezero:%d%d' % (r, c), 12)
    rec.floor('class:zpattern:fewzero:2', 60)
    rec.floor('class:zpattern:fewzero:3', 60)
    for zc, m in (('diagonal', 10), ('upper-triangular', 10), ('lower-triangular', 10), ('permuted-diagonal', 10), ('other-zeros', 40)):
        rec.floor('displacement:final-cell-zeros:' + zc, m)
    zrows = {'dvect': (4000, 1700, 12000, 9000, 9000), 'dmag': (2800, 1100, 10000, 7000, 3800),
             'System.dvect': (1600, 640, 6000, 4000, 2000), 'System.dmag': (1600, 640, 6000, 4000, 2000),
             'displacement[final]': (340, 170, 170, 670, 2300), 'displacement[initial]': (210, 85, 680, 500, 380)}
    zwrong = {'dvect': (400, 3400, 2800, 3000), 'dmag': (270, 3000, 2200, 1500), 'System.dvect': (110, 1700, 1200, 750),
              'System.dmag': (110, 1700, 1200, 750), 'displacement[final]': (30, 28, 150, 600),
              'displacement[initial]': (12, 160, 110, 85), 'dvect-vs-dmag': (130, 1300, 950, 700)}
    for zc in ('diagonal', 'upper-triangular', 'lower-triangular', 'permuted-diagonal', 'other-zeros', 'full'):
        rec.floor('class:zeros:' + zc, 100)
    for ep, (ndiag, nup, nlow, noth, nfull) in zrows.items():
        for zc, m in (('diagonal', ndiag), ('permuted-diagonal', nup // 2 if ep.startswith('disp') else nup), ('upper-triangular', nup),
                      ('lower-triangular', nlow), ('other-zeros', noth), ('full', nfull)):
            rec.floor(f'zeros:{ep}:{zc}', m)
    for ep, (nup, nlow, noth, nfull) in zwrong.items():
        for zc, m in (('upper-triangular', nup), ('lower-triangular', nlow), ('other-zeros', noth), ('full', nfull)):
            rec.floor(f'hostile:{ep}:axis-wrap-wrong:{zc}', m)
    for ep in ('dvect', 'dmag'):
        for pbc in GEN.PBCS:
            pn = GEN.pbc_name(pbc)
            if pbc[0] or pbc[1]:                 # upper-triangular: a or b (the tilted vectors) periodic
                rec.floor(f'hostile:{ep}:axis-wrap-wrong:upper-triangular:pbc={pn}', 12)
            if pbc[1] or pbc[2]:                 # lower-triangular: b or c periodic
                rec.floor(f'hostile:{ep}:axis-wrap-wrong:lower-triangular:pbc={pn}', 300)
            if any(pbc):
                rec.floor(f'hostile:{ep}:axis-wrap-wrong:other-zeros:pbc={pn}', 200)
    # ---- third group: one object queried, changed in place and queried again.  Class floors are exact consequences of
    # the stratification (270 cases per build flavour: 18 per route, 3 per route x first entry point, 45 per first entry
    # point); row floors are ~1/4 of the merged count of the quick tier (two build flavours) over seeds 0..3.
    one_atom = ('System.dvect[one-atom system sharing the Box]', 'System.dmag[one-atom system sharing the Box]')
    for route in RGEN.ROUTES:
        rec.floor('class:reuse:route:' + route, 12)
        rec.floor('reuse:cross-checked:' + route, 9)
        rec.floor('reuse:repeat-compared:route:' + route, 9)
        rec.floor('reuse:atoms-moved-in-place:' + route, 100)
        for ep in RGEN.EPS:
            rec.floor(f'class:reuse:route-x-first:{route}:{ep}', 2)
            disp = 2 if ep.startswith('displacement') else 1
            rec.floor(f'reuse:rows:{route}:{ep}', 100 * disp)
            rec.floor(f'reuse:image-needed:{route}:{ep}', 50 * disp)
            if route in RGEN.CELL_ROUTES or route in ('pbc=', 'other-instance'):
                # rows on which the cell / periodicity of the FIRST query gives another answer than those of now
                rec.floor(f'reuse:stale-cell-would-differ:{route}:{ep}', 60 * disp)
        for ep in one_atom:
            rec.floor(f'reuse:rows:{route}:{ep}', 9)
            rec.floor(f'reuse:image-needed:{route}:{ep}', 3)
            if route in RGEN.CELL_ROUTES or route in ('pbc=', 'other-instance'):
                rec.floor(f'reuse:stale-cell-would-differ:{route}:{ep}', 4)
        if route in RGEN.CELL_ROUTES and route != 'set()':
            for rel in RGEN.RELS:
                rec.floor(f'class:reuse:route-x-relation:{route}:{rel}', 3)
    rec.floor('class:reuse:route-x-relation:set():default', 9)
    rec.floor('class:reuse:route-x-relation:other-instance:default', 4)
    rec.floor('reuse:wrap-changed-the-box', 8)
    for ep in RGEN.EPS:
        rec.floor('class:reuse:first:' + ep, 22)
        rec.floor('reuse:kept-result-compared:' + ep, 22)
        rec.floor('reuse:repeat-compared:' + ep, 22)
        rec.floor('reuse:fresh-compared:' + ep, 22)
        rec.floor('alias:memory-checked:' + ep, 130)
    rec.floor('alias:results-overwritten-by-the-caller', 800)
    for cp in RGEN.CPATHS:
        rec.floor('class:reuse:cpath:' + cp, 9)
    for rel in RGEN.RELS:
        rec.floor('class:reuse:rel:' + rel, 45)
    for sc in GEN.SCALES:
        rec.floor('class:reuse:scale:' + GEN.scale_name(sc), 13)
    for pbc in GEN.PBCS:
        rec.floor('class:reuse:pbc:' + GEN.pbc_name(pbc), 16)
    for oc in GEN.ORIGINS:
        rec.floor('class:reuse:origin:' + oc, 45)
    for name in RGEN.INDEX_FORMS:
        rec.floor('class:reuse:index-form:' + name, 33)
    for zc in ('diagonal', 'lower-triangular', 'full'):
        rec.floor('class:reuse:zeros:' + zc, 19)
    rec.floor('boundary:one-atom-system:first', 130)
    rec.floor('boundary:one-atom-system:later', 130)
    for name in ('int64', 'int32', 'narrowest-int', 'unsigned', 'int-list', 'int-tuple', 'float32-of-int', 'int64+pbc-as-int-list',
                 'int64+pbc-as-int-array'):
        rec.floor('class:argform:' + name, 8)
        rec.floor('argform:rows:' + name, 96)
    rec.floor('argform:image-needed', 400)
    for fname in ('list', 'tuple', 'int-array', 'float32'):
        rec.floor('refused:dvect:mismatch:' + fname, 33)
        rec.floor('refused:dmag:mismatch:' + fname, 33)
    rec.floor('refused:System.dvect:mismatch:history', 130)
    rec.floor('refused:System.dmag:mismatch:history', 130)
    rec.floor('refused:displacement:bad-reference:history', 130)
    for ref in ('final', 'initial', None):
        rec.floor(f'refused:displacement:natoms-mismatch:ref={ref}', 45)
    rec.floor('refused:dvect:mismatch', 50)
    rec.floor('refused:dmag:mismatch', 50)
    rec.floor('refused:System.dvect:mismatch', 20)
    rec.floor('refused:displacement:natoms-mismatch', 20)
    rec.floor('displacement:ref=None', 20)
