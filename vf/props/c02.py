"""C02 - Periodic separation is a lattice image of the direct one and the nearest such.

Postcondition monitors sit on atomman.dvect, atomman.dmag, System.dvect,
System.dmag and atomman.displacement (every alias patched, so the internal
calls System.dvect -> dvect and displacement -> dvect are judged too).  Each
judges every returned row against vf.oracle.c02_sep (definitions) with
vf.oracle.geometry's 27-candidate minimum and exhaustive nearest-image search.
"""
from __future__ import annotations

import numpy as np

from ..core import fingerprint
from ..gen import c02_pairs as GEN
from ..oracle import c02_sep as S
from .. import monitor

# monitors are self-sufficient (judge a call from its arguments and result): the repository's own tests run under them
# as an extra workload in the thorough tier (vf/repotests.py)
REPOTESTS = True

RULE = ('case index -> cell kind (orthogonal / mildly tilted / tilted exactly to the LAMMPS limit / beyond it / '
        'crystal family / rotated triclinic / rotated orthogonal / flat: LAMMPS-normalised with one small width, or a '
        'cyclic permutation of it / needle: two short vectors and a long tilted one / skew: a short vector sheared '
        'along a longer one, triangular or rotated; in flat and skew cells a +-1 combination of the PERIODIC cell '
        'vectors of the case is shorter than every cell vector) x 8 periodicity settings x 8 call shapes '
        '(one-one, one-many, many-one, many-many, list/tuple, memory layouts, System index forms, displacement) '
        'by mixed radix; origin class (0, O(L), O(1e3 L)) rotates with the round; the length scale rotates over 1e-10 (a '
        'cell of a few angstrom written in metres), 1e-8 (cm), 1e-7 (mm), 1e-4, 1e-3, 1e-1 (nm), 1, 1e2 (pm), 1e3, 1e4 '
        'so that every (periodicity, call shape) of a round meets all ten; '
        'a second group crosses cells with STRUCTURED ZERO PATTERNS (upper triangular, lower triangular with any subset '
        'of tilts, diagonal with either sign pattern, permuted diagonal, row/column-permuted triangles, one vector '
        'along a Cartesian axis / two in a coordinate plane / 2x2 block, one, two or three exact zeros in an otherwise '
        'general matrix; tilts mild / exactly 0.5 / beyond) x 8 periodicity settings x the same 8 call shapes, scales '
        'rotating likewise, the arrangement inside a kind moving against both periodicity and call shape; '
        'inside a case the pairs rotate over 10 classes (inside, short separation wrapped across faces, on faces, on '
        'corners, exactly half a cell apart, one outside, both outside up to +-5 cells, lattice image of the same site, '
        'direct separation = a shortest +-1 combination s of the cell vectors +- an offset of 1e-6..0.2 |s|, direct '
        'separation = f s + offset with 1/2 <= f < 1 (short, yet beaten by the image d - s; in flat / skew cells mostly '
        'with |d| below half the shortest cell vector); both points of the last two classes lie in the cell). '
        'A case is non-trivial when at least one of its pairs needed a non-zero lattice shift (or the setting is '
        'all-free, where the direct separation is the claim); distinct = fingerprint of (cell, origin, pbc, points).')
ASSUMPTIONS = ['cells are right-handed with smallest perpendicular width >= 0.15 L (>= 0.06 L for the flat / needle / skew kinds; '
               'keeps the exhaustive search small)',
               'comparison bound 64 eps (|p0|+|p1|+3L); nearest-image distances within 4 bounds of w_min/2 are exempt (counted)',
               'every bound of the oracle is relative to the cell (L, |p|, relative coordinates); nothing is compared against an '
               'absolute length, so the same clauses are decided at every scale from 1e-10 to 1e4',
               'a point counts as inside the cell when its relative coordinates are in [-1e-9, 1+1e-9]',
               'the nearest-image clause is asserted only inside the guard the property states; outside it only '
               'lattice membership, the 27-candidate bound and |dvect| = dmag are asserted',
               'integer-valued lists are never passed as *positions* to System.dvect/dmag (documented: anything usable as an index is one)',
               'oracle shares numpy/LAPACK with the code under test']

CONFIG = {'quick': {'timeout': 600}, 'thorough': {'timeout': 3000}}

V_CLAUSES = [
    ('rows', 'one result row per (broadcast) pair'),
    ('lattice', 'separation = direct separation + integer combination of the cell vectors'),
    ('periodic-only', 'the lattice shift is zero along non-periodic directions'),
    ('min27', 'separation is not longer than any of the 27 candidates with shifts -1,0,+1'),
    ('nearest', 'inside the guard the separation has the true nearest-image length'),
    ('nearest-vector', 'inside the guard, where the nearest image is unique, the separation is that image'),
]
M_CLAUSES = [
    ('rows', 'one distance per (broadcast) pair'),
    ('min27', 'distance is not longer than any of the 27 candidates with shifts -1,0,+1'),
    ('nearest', 'inside the guard the distance is the true nearest-image distance'),
    ('not-below-nearest', 'distance is not below the true nearest-image distance'),
]


# entry points whose rows are classified by oracle.c02_sep.hostility (inputs that defeat shortcuts of the image search)
HOSTILE_EPS = ('dvect', 'dmag', 'System.dvect', 'System.dmag', 'displacement[initial]', 'displacement[final]')
PBC2 = [p for p in GEN.PBCS if sum(p) >= 2]      # settings in which a combination of cell vectors is a lattice vector


class State:
    def __init__(self):
        self.memo = {}
        self.shifted = False
        self.sample_outside = 2
        self.scale = None            # label of the length scale of the case being run (None outside the workload)


ST = State()


def _truth(p0, p1, vects, origin, pbc):
    """Oracle values, memoised over the last few identical calls (dvect and dmag see the same arguments)."""
    P0, P1 = S.broadcast_pairs(p0, p1)
    key = (P0.tobytes(), P1.tobytes(), np.asarray(vects, float).tobytes(), np.asarray(origin, float).tobytes(),
           tuple(bool(x) for x in pbc))
    t = ST.memo.get(key)
    if t is None:
        t = S.truth(P0, P1, vects, origin, pbc, want_ni=True, sample_outside=ST.sample_outside)
        if len(ST.memo) > 6:
            ST.memo.clear()
        ST.memo[key] = t
    return t


def _bad_detail(t, ok, got):
    k = int(np.nonzero(~ok)[0][0]) if len(ok) == t.n and t.n else 0
    if t.n == 0 or len(ok) != t.n:
        return dict(n=t.n, got_shape=np.shape(got))
    g = np.asarray(got, float)
    g = g.reshape(t.n, -1)[k] if g.size else g
    return dict(row=k, nbad=int((~ok).sum()), p0=t.P0[k], p1=t.P1[k], vects=t.vects, pbc=t.pbc, got=g, direct=t.d[k],
                min27_len=t.l27[k], min27_vec=t.v27[k], nearest_len=t.lni[k], nearest_vec=t.vni[k], bound=t.bnd[k],
                in_guard=bool(t.guard[k]), inside=bool(t.inside[k]))


def _count_truth(rec, t, ep):
    cell = 'ortho' if t.ortho else 'tilted'
    rec.count(f'rows:{ep}', t.n)
    rec.count(f'guard:{ep}:{cell}', int(t.guard.sum()))
    rec.count(f'guard:{ep}:outside-guard', int((~t.guard & ~t.guard_exempt).sum()))
    rec.count('guard:exempt(threshold-or-search-too-large)', int(t.guard_exempt.sum()))
    if ep == 'dvect' and t.n:
        done = t.ni_done & ~t.guard
        rec.count('info:27-minimum-not-the-true-nearest(outside guard)', int((t.lni[done] < t.l27[done] - 8 * t.bnd[done]).sum()))
        rec.count('info:ties(two candidates within the bound)', int((t.ntie27 > 1).sum()))
        rec.count('info:unique-nearest-vector-compared', int((t.guard & (t.ntie27 == 1)).sum()))
    if ep in HOSTILE_EPS and t.n:
        h = S.hostility(t)
        pn = GEN.pbc_name(t.pbc)
        if ST.scale is not None:
            # the clauses lattice / periodic-only / min27 are judged on every row, nearest on the rows inside the guard;
            # 'image-needed': rows whose answer is not the direct separation (an image search that accepts nothing fails)
            rec.count(f'rows:{ep}:scale={ST.scale}', t.n)
            rec.count(f'guard:{ep}:scale={ST.scale}', int(t.guard.sum()))
            rec.count(f'image-needed:{ep}:scale={ST.scale}', int(h['beaten'].sum()))
        zc = S.zero_class(t.vects)
        rec.count(f'zeros:{ep}:{zc}', t.n)
        naw = int(h['axis_wrap_wrong'].sum())
        rec.count(f'hostile:{ep}:axis-wrap-wrong:{zc}', naw)
        if ep in ('dvect', 'dmag') and zc in ('upper-triangular', 'lower-triangular', 'other-zeros'):
            rec.count(f'hostile:{ep}:axis-wrap-wrong:{zc}:pbc={pn}', naw)
        nb = int(h['short_direct_beaten'].sum())
        rec.count(f'hostile:{ep}:short-direct-beaten', nb)
        rec.count(f'hostile:{ep}:short-direct-beaten:both-inside', int((h['short_direct_beaten'] & t.inside).sum()))
        if ep in ('dvect', 'dmag'):
            rec.count(f'hostile:{ep}:short-direct-beaten:pbc={pn}', nb)
            if nb and S.is_lammps_normalised(t.vects):
                rec.count(f'hostile:{ep}:short-direct-beaten:lammps-normalised-cell', nb)
        rec.count(f'hostile:{ep}:rel-within-half-beaten', int(h['relhalf_beaten'].sum()))
        rec.count(f'hostile:{ep}:best-image-is-combination', int(h['combo_image'].sum()))
    if not S.self_check(t):
        rec.fail('oracle self-check: exhaustive minimum <= 27-candidate minimum', 'harness:oracle-selfcheck')


def judge_vector(rec, t, res, ep):
    j = S.judge_vector(t, res)
    _count_truth(rec, t, ep)
    cell = 'ortho' if t.ortho else 'tilted'
    for cid, text in V_CLAUSES:
        if cid not in j:
            continue
        ok = j[cid]
        key = f'{ep}:{cid}' + (':' + cell if cid.startswith('nearest') else '')
        rec.check(ok.all(), text, key, **({} if ok.all() else _bad_detail(t, ok, res)))
        if cid == 'rows' and not ok.all():
            break
    if '_nint' in j and np.any(j['_nint'] != 0):
        ST.shifted = True
    return j


def judge_mag(rec, t, mag, ep):
    j = S.judge_mag(t, mag)
    _count_truth(rec, t, ep)
    cell = 'ortho' if t.ortho else 'tilted'
    for cid, text in M_CLAUSES:
        if cid not in j:
            continue
        ok = j[cid]
        key = f'{ep}:{cid}' + (':' + cell if cid == 'nearest' else '')
        rec.check(ok.all(), text, key, **({} if ok.all() else _bad_detail(t, ok, mag)))
        if cid == 'rows' and not ok.all():
            break
    return j


def _get(args, kwargs, k, name, default=None):
    if len(args) > k:
        return args[k]
    return kwargs.get(name, default)


def _resolve(pos, arg):
    """System.dvect/dmag argument -> positions, by the documented rule (an index selects atoms)."""
    if isinstance(arg, (int, np.integer, slice)):
        return pos[arg]
    if isinstance(arg, (list, tuple, np.ndarray)):
        a = np.asarray(arg)
        if a.dtype.kind in 'iub' and not isinstance(arg, tuple):
            return pos[a]
    return np.asarray(arg, dtype=float)


def install_monitors(rec, am):
    def post_fn(ep, judge):
        def post(args, kwargs, result, exc, old):
            p0, p1 = _get(args, kwargs, 0, 'pos_0'), _get(args, kwargs, 1, 'pos_1')
            box, pbc = _get(args, kwargs, 2, 'box'), _get(args, kwargs, 3, 'pbc')
            rec.count(f'shape:{ep}:{S.shape_class(p0)}x{S.shape_class(p1)}')
            try:
                t = _truth(p0, p1, box.vects, box.origin, pbc)
            except S.Mismatch:
                rec.check(isinstance(exc, ValueError), 'positions of incompatible lengths are refused with ValueError',
                          f'{ep}:mismatch-not-refused', got=repr(exc), n0=len(np.asarray(p0)), n1=len(np.asarray(p1)))
                return
            if exc is not None:
                return                       # the harness guard reports it
            judge(rec, t, result, ep)
        return post

    monitor.observe_function(am.dvect, post_fn('dvect', judge_vector), label='atomman.dvect')
    monitor.observe_function(am.dmag, post_fn('dmag', judge_mag), label='atomman.dmag')

    def post_sys(ep, judge):
        def post(args, kwargs, result, exc, old):
            if exc is not None:
                return
            s = args[0]
            pos = s.atoms.pos
            p0 = _resolve(pos, _get(args, kwargs, 1, 'pos_0'))
            p1 = _resolve(pos, _get(args, kwargs, 2, 'pos_1'))
            t = _truth(p0, p1, s.box.vects, s.box.origin, s.pbc)
            r = np.asarray(result)
            want = ((3,) if ep == 'System.dvect' else ()) if t.n == 1 else ((t.n, 3) if ep == 'System.dvect' else (t.n,))
            rec.check(r.shape == want, 'System.dvect/dmag return one row per pair (a single pair unwrapped)', f'{ep}:shape',
                      got=r.shape, expected=want)
            judge(rec, t, r, ep)
        return post

    monitor.observe(am.System, 'dvect', post_sys('System.dvect', judge_vector), label='System.dvect')
    monitor.observe(am.System, 'dmag', post_sys('System.dmag', judge_mag), label='System.dmag')

    def post_disp(args, kwargs, result, exc, old):
        if exc is not None:
            return
        s0, s1 = _get(args, kwargs, 0, 'system_0'), _get(args, kwargs, 1, 'system_1')
        ref = _get(args, kwargs, 2, 'box_reference', 'final')
        rec.count(f'displacement:ref={ref}')
        p0, p1 = s0.atoms.pos, s1.atoms.pos
        if ref is None:
            rec.check(np.array_equal(np.asarray(result), p1 - p0), 'displacement(None) is the plain difference of positions',
                      'displacement:none', got=result, expected=p1 - p0)
            return
        sref = s1 if ref == 'final' else s0
        t = _truth(p0, p1, sref.box.vects, sref.box.origin, sref.pbc)
        r = np.asarray(result)
        rec.check(r.shape == (t.n, 3), 'displacement returns one vector per atom', 'displacement:shape', got=r.shape)
        judge_vector(rec, t, r, f'displacement[{ref}]')

    monitor.observe_function(am.displacement, post_disp, label='atomman.displacement')


# ---------------------------------------------------------------------------------------------------------------
def call_both(ctx, am, p0, p1, box, pbc, tag):
    """The same arguments through dvect and dmag (monitors judge each); here: |dvect| = dmag."""
    rec = ctx.rec
    res = mag = None
    with ctx.guard('dvect accepts the documented argument forms', f'dvect:exception:{tag}'):
        res = am.dvect(p0, p1, box, pbc)
    with ctx.guard('dmag accepts the documented argument forms', f'dmag:exception:{tag}'):
        mag = am.dmag(p0, p1, box, pbc)
    if res is None or mag is None:
        return res, mag
    res_ = np.asarray(res, float).reshape(-1, 3)
    mag_ = np.asarray(mag, float).reshape(-1)
    if len(res_) != len(mag_):
        rec.fail('length of the separation vector equals the scalar periodic distance', 'dvect-vs-dmag:rows',
                 rows_dvect=len(res_), rows_dmag=len(mag_))
        return res, mag
    P0, P1 = S.broadcast_pairs(p0, p1)
    bnd = 64 * S.EPS * (np.linalg.norm(P0, axis=1) + np.linalg.norm(P1, axis=1) + 3 * np.linalg.norm(box.vects, axis=1).max())
    with np.errstate(all='ignore'):
        err = np.abs(np.linalg.norm(res_, axis=1) - mag_)
        ok = err <= bnd
    rec.count('rows:dvect-vs-dmag', len(mag_))
    if ST.scale is not None:
        rec.count(f'rows:dvect-vs-dmag:scale={ST.scale}', len(mag_))
    try:
        t = _truth(p0, p1, box.vects, box.origin, pbc)
        h = S.hostility(t)
        rec.count('hostile:dvect-vs-dmag:short-direct-beaten', int(h['short_direct_beaten'].sum()))
        rec.count('hostile:dvect-vs-dmag:axis-wrap-wrong:' + S.zero_class(t.vects), int(h['axis_wrap_wrong'].sum()))
        if ST.scale is not None:
            rec.count(f'image-needed:dvect-vs-dmag:scale={ST.scale}', int(h['beaten'].sum()))
    except S.Mismatch:
        pass
    rec.check(ok.all(), 'length of the separation vector equals the scalar periodic distance', 'dvect-vs-dmag',
              **({} if ok.all() else dict(row=int(np.nonzero(~ok)[0][0]), err=err[~ok][:3], bound=bnd[~ok][:3],
                                          dvect=res_[~ok][:3], dmag=mag_[~ok][:3], vects=box.vects, pbc=pbc)))
    return res, mag


def must_refuse(ctx, fn, what, key, *args):
    rec = ctx.rec
    try:
        fn(*args)
    except ValueError:
        rec.refusal(what + ':ValueError')
        rec.count('refused:' + key)
        rec.check(True, what, key)
        return
    except Exception as e:          # another exception type, or a native failure surfaced as IndexError
        rec.check(False, what, key, got=e)
        return
    rec.check(False, what, key, got='no exception')


def layouts(rng, p0, p1, j):
    """The same numbers in a hostile memory layout / dtype (values must not change the answer's validity)."""
    n = len(p0)
    k = j % 8
    if k == 0:                                            # strided views of a larger buffer
        big0 = np.full((2 * n, 3), np.nan)
        big1 = np.full((2 * n, 3), np.nan)
        big0[::2], big1[1::2] = p0, p1
        return 'strided', big0[::2], big1[1::2]
    if k == 1:                                            # Fortran order
        return 'fortran', np.asfortranarray(p0), np.asfortranarray(p1)
    if k == 2:                                            # columns sliced out of a wider array (row stride 5)
        w0 = np.full((n, 5), np.nan)
        w1 = np.full((n, 5), np.nan)
        w0[:, 1:4], w1[:, 2:5] = p0, p1
        return 'column-slice', w0[:, 1:4], w1[:, 2:5]
    if k == 3:                                            # read-only
        a, b = p0.copy(), p1.copy()
        a.flags.writeable = False
        b.flags.writeable = False
        return 'readonly', a, b
    if k == 4:                                            # reversed (negative stride)
        return 'reversed', p0[::-1], p1[::-1]
    if k == 5:                                            # single precision input
        return 'float32', p0.astype(np.float32), p1.astype(np.float32)
    if k == 6:                                            # one pair given as (1,3) x (1,3)
        return 'single-row', p0[:1], p1[:1]
    return 'empty', np.zeros((0, 3)), np.zeros((0, 3))


def run_system_forms(ctx, am, cell, box, pbc, pos, i):
    """Index forms of System.dvect/dmag against the same call made with positions."""
    rec, rng = ctx.rec, ctx.rng
    n = len(pos)
    h = n // 2                                   # atoms k and h + k are the k-th generated pair
    s = None
    with ctx.guard('System can be built from positions, box and pbc', 'system:build'):
        s = am.System(atoms=am.Atoms(pos=pos.copy()), box=box, pbc=pbc)
    if s is None:
        return
    spos = s.atoms.pos
    rec.check(np.array_equal(spos, pos), 'System keeps the positions it was given', 'system:pos-changed')
    a, b = (int(x) for x in rng.choice(n, 2, replace=False))
    k = int(rng.integers(2, n // 2 + 1))
    la = [int(x) for x in rng.choice(n, k)]
    lb = [int(x) for x in rng.choice(n, k)]
    st = int(rng.integers(0, n - k + 1))
    st2 = int(rng.integers(0, n - k + 1))
    mask_a = np.zeros(n, bool)
    mask_b = np.zeros(n, bool)
    mask_a[rng.choice(n, k, replace=False)] = True
    mask_b[rng.choice(n, k, replace=False)] = True
    forms = [
        ('int,int', a, b),
        ('negint,int', a - n, b),
        ('int,negint', a, -1 - int(rng.integers(0, n - 1))),
        ('list,list', la, lb),
        ('slice,slice', slice(st, st + k), slice(st2, st2 + k)),
        ('stepslice,list', slice(0, 2 * k, 2) if 2 * k <= n else slice(0, k), lb),
        ('int,list', a, lb),
        ('slice,negint', slice(st, st + k), b - n),
        ('intarray,list', np.array(la), lb),
        ('mask,mask', mask_a, mask_b),
        ('position,list', spos[a] + rng.uniform(-0.3, 0.3, 3) * cell['L'], lb),
        ('positions,slice', spos[la] + 0.25 * cell['L'], slice(st, st + k)),
        ('all,int', slice(None), b),
        ('pairs,pairs', list(range(h)), list(range(h, 2 * h))),
        ('pairslice,pairarray', slice(0, h), np.arange(h, 2 * h)),
    ]
    for name, f0, f1 in forms:
        rec.count('index-form:' + name)
        e0, e1 = _resolve(spos, f0), _resolve(spos, f1)
        for meth in ('dvect', 'dmag'):
            got = exp = None
            with ctx.guard(f'System.{meth} accepts index form {name}', f'System.{meth}:exception:{name}'):
                got = getattr(s, meth)(f0, f1)
            with ctx.guard(f'System.{meth} accepts float positions', f'System.{meth}:exception:positions'):
                exp = getattr(s, meth)(np.array(e0, float), np.array(e1, float))
            if got is None or exp is None:
                continue
            same = np.shape(got) == np.shape(exp) and np.array_equal(got, exp)
            rec.check(same, 'System.dvect/dmag with atom indices equals the same call with those atoms\' positions',
                      f'System.{meth}:index-vs-position:{name}', form=name, got=got, expected=exp)
    # module-level call must agree with the method
    call_both(ctx, am, spos[:h], spos[h:2 * h], box, pbc, 'system-pairs')
    res, mag = call_both(ctx, am, spos[la], spos[lb], box, pbc, 'system')
    with ctx.guard('System.dvect accepts index lists', 'System.dvect:exception:list,list'):
        rec.check(np.array_equal(np.reshape(s.dvect(la, lb), (-1, 3)), np.reshape(res, (-1, 3))),
                  'System.dvect equals atomman.dvect under the system\'s own box and pbc', 'System.dvect:vs-module')
    with ctx.guard('System.dmag accepts index lists', 'System.dmag:exception:list,list'):
        rec.check(np.array_equal(np.reshape(s.dmag(la, lb), (-1,)), np.reshape(mag, (-1,))),
                  'System.dmag equals atomman.dmag under the system\'s own box and pbc', 'System.dmag:vs-module')
    must_refuse(ctx, s.dvect, 'System.dvect refuses index lists of different lengths with ValueError', 'System.dvect:mismatch',
                [0, 1, 2], [0, 1])
    must_refuse(ctx, s.dmag, 'System.dmag refuses index lists of different lengths with ValueError', 'System.dmag:mismatch',
                slice(0, 3), [0, 1])


def run_displacement(ctx, am, cell, box, pbc, pos, rnd, keep=None, pos_keep=None):
    """keep (bool mask) / pos_keep: atoms whose final position is the generated partner point itself (pairs placed near
    short lattice vectors of the initial cell), instead of deformation + thermal move + hop."""
    rec, rng = ctx.rec, ctx.rng
    v0, o0 = box.vects, box.origin
    n = len(pos)
    if 'pattern' in cell:
        # structured-zero cells: every entry rescaled on its own (the final cell keeps the arrangement of exact zeros),
        # every third round a general strain instead
        v1 = v0 * (1.0 + rng.uniform(-0.04, 0.04, (3, 3))) if rnd % 3 != 2 else GEN.strained(rng, v0)
        rec.count('displacement:final-cell-zeros:' + S.zero_class(v1))
    else:
        # orthogonal cells get a pure stretch every other round so that the 'final' reference cell is orthogonal too
        v1 = GEN.strained(rng, v0, diagonal=bool(cell['ortho'] and rnd % 2 == 0))
    o1 = o0 + rng.uniform(-0.05, 0.05, 3) * cell['L']
    pbc1 = GEN.PBCS[(GEN.PBCS.index(tuple(pbc)) + 1 + rnd % 7) % 8]      # always differs from pbc
    s0 = s1 = None
    # final positions: follow the deformation, move a little, and let some atoms re-enter through the other side
    rel = S.G.rel(pos, v0, o0)
    pos1 = S.G.cart(rel, v1, o1) + rng.normal(0, 0.03, (n, 3)) * cell['L']
    hop = rng.integers(-1, 2, (n, 3)).astype(float) * (rng.random((n, 1)) < 0.5)
    pos1 = pos1 + hop @ v1
    if keep is not None and np.any(keep):
        pos1[keep] = pos_keep[keep]
        rec.count('displacement:atoms-at-generated-partner', int(np.sum(keep)))
    with ctx.guard('Systems can be built from positions, box and pbc', 'system:build'):
        s0 = am.System(atoms=am.Atoms(pos=pos.copy()), box=box, pbc=pbc)
        s1 = am.System(atoms=am.Atoms(pos=pos1), box=am.Box(vects=v1, origin=o1), pbc=pbc1)
    if s0 is None or s1 is None:
        return
    p0, p1 = s0.atoms.pos, s1.atoms.pos
    for ref in ('final', 'initial', None, 'default'):
        disp = None
        with ctx.guard(f'displacement(box_reference={ref})', f'displacement:exception:{ref}'):
            disp = am.displacement(s0, s1) if ref == 'default' else am.displacement(s0, s1, box_reference=ref)
        if disp is None:
            continue
        rec.count('displacement:calls')
        if ref is None:
            rec.check(np.array_equal(disp, p1 - p0), 'displacement(None) is the plain difference of positions', 'displacement:none')
            continue
        sref = s0 if ref == 'initial' else s1
        rows = []
        with ctx.guard('dvect one pair at a time', 'dvect:exception:one-one'):
            for k in range(n):
                rows.append(np.asarray(am.dvect(p0[k], p1[k], sref.box, sref.pbc)).reshape(3))
        if len(rows) == n:
            rec.check(np.shape(disp) == (n, 3) and np.array_equal(disp, np.array(rows)),
                      'displacement equals dvect atom by atom under the chosen reference box and pbc',
                      f'displacement:vs-dvect:{"final" if ref == "default" else ref}', ref=ref, got=disp, expected=np.array(rows),
                      pbc0=s0.pbc, pbc1=s1.pbc)
    s_short = am.System(atoms=am.Atoms(pos=pos[:-1].copy()), box=box, pbc=pbc)
    must_refuse(ctx, am.displacement, 'displacement refuses systems with different numbers of atoms with ValueError',
                'displacement:natoms-mismatch', s0, s_short)
    must_refuse(ctx, am.displacement, 'displacement refuses an unknown box_reference with ValueError',
                'displacement:bad-reference', s0, s1, 'middle')


def run_case(ctx, am, i, cell, pbc, shape, oc, scale, rnd, nk, npairs, sample):
    """One case of either group: the cell through Box, the pairs of all classes through the call shape of the case.
    nk = number of cell kinds of the group (the fastest digit of the case index)."""
    rec, rng = ctx.rec, ctx.rng
    kind = cell['kind']
    sname = GEN.scale_name(scale)
    ST.scale = sname
    box = None
    with ctx.guard('Box can be built from vectors and origin', 'box:build'):
        box = am.Box(vects=cell['vects'], origin=cell['origin'])
    if box is None:
        return
    given = cell['vects']
    # the cell the functions are given is the Box's (its setter zeroes components below 1e-9 max)
    cell = dict(cell, vects=np.array(box.vects), origin=np.array(box.origin))
    # (information, not a clause of this property) the Box changed the arrangement of zeros it was given
    rec.count('info:box-changed-the-zero-pattern', int(not np.array_equal(cell['vects'] == 0.0, given == 0.0)))
    pname = GEN.pbc_name(pbc)
    ST.shifted = False
    pbc_arg = [pbc, list(pbc), np.array(pbc)][i % 3]
    rec.count('class:cell:' + kind)
    rec.count('class:pbc:' + pname)
    rec.count('class:shape:' + shape)
    rec.count('class:origin:' + oc)
    rec.count('class:scale:' + sname)
    rec.count('class:scale:' + sname + ':shape=' + shape)
    rec.count('class:zeros:' + S.zero_class(cell['vects']))
    single0 = ['inside', 'face', 'corner', 'outside'][(i + rnd) % 4] if shape in ('one-many', 'many-one') else None
    n = 8 if shape == 'one-one' else npairs
    # offset: the pair classes rotate against the cell kind (nk and the number of pair classes are not coprime)
    rel0, rel1, classes, p0, p1 = GEN.gen_pairs(rng, cell, n, offset=i + i // nk, single0=single0, pbc=pbc)
    for c in classes:
        rec.count('class:pair:' + c)
    if kind in GEN.COMBO_KINDS:
        cr = GEN.combo_ratio(cell['vects'], pbc)
        rec.count('class:cell:periodic-combination-shorter-than-every-cell-vector', int(cr < 1.0))
        if cr < 1.0:
            rec.count('class:cell:periodic-combination-shorter-than-every-cell-vector:' + kind + ':pbc=' + pname)
        rec.count('class:cell:lammps-normalised:' + kind, int(S.is_lammps_normalised(cell['vects'])))

    if shape == 'one-one':
        for k in range(n):
            call_both(ctx, am, p0[k], p1[k], box, pbc_arg, 'one-one')
    elif shape == 'one-many':
        a = p0[0] if i % 2 == 0 else p0[:1]
        call_both(ctx, am, a, p1, box, pbc_arg, 'one-many')
    elif shape == 'many-one':
        a = p0[0] if i % 2 == 1 else p0[:1]
        call_both(ctx, am, p1, a, box, pbc_arg, 'many-one')
    elif shape == 'many-many':
        call_both(ctx, am, p0, p1, box, pbc_arg, 'many-many')
    elif shape == 'list-tuple':
        sub = (rnd + i) % 4
        if sub == 0:
            call_both(ctx, am, p0.tolist(), p1.tolist(), box, pbc_arg, 'list,list')
        elif sub == 1:
            call_both(ctx, am, tuple(map(tuple, p0)), p1.tolist(), box, pbc_arg, 'tuple,list')
        elif sub == 2:
            call_both(ctx, am, tuple(p0[0]), [list(r) for r in p1], box, pbc_arg, 'tuple1,list')
        else:
            call_both(ctx, am, [tuple(r) for r in p1], list(p0[0]), box, pbc_arg, 'list,list1')
        rec.count('class:list-tuple:%d' % sub)
    elif shape == 'layout':
        name, a, b = layouts(rng, p0, p1, i // nk + rnd)
        rec.count('class:layout:' + name)
        fa, fb = fingerprint(np.array(a)), fingerprint(np.array(b))
        call_both(ctx, am, a, b, box, pbc_arg, 'layout:' + name)
        rec.check(fingerprint(np.array(a)) == fa and fingerprint(np.array(b)) == fb,
                  'the position arguments are left unchanged', 'inputs-modified')
    elif shape == 'system-index':
        hs = max(6, n // 4)                  # the first hs generated pairs: atoms k and hs + k
        run_system_forms(ctx, am, cell, box, pbc_arg, np.vstack([p0[:hs], p1[:hs]]), i)
    elif shape == 'displacement':
        run_displacement(ctx, am, cell, box, pbc_arg, p0, rnd, keep=np.array([c in GEN.NEAR_SHORT for c in classes]), pos_keep=p1)

    # incompatible lengths are refused, whatever the case class
    m0, m1 = [(3, 2), (2, 5), (4, 3), (0, 4)][i % 4]
    fn = am.dvect if (i // 4) % 2 == 0 else am.dmag
    must_refuse(ctx, fn, 'positions of incompatible lengths are refused with ValueError',
                ('dvect' if fn is am.dvect else 'dmag') + ':mismatch', p0[:m0], p1[:m1], box, pbc_arg)

    nontrivial = ST.shifted or not any(pbc)
    rec.case((kind, pname, shape, oc, sname), nontrivial=nontrivial,
             fp=fingerprint(cell['vects'], cell['origin'], pname, p0, p1))
    if sample:
        rec.sample(dict(kind=kind, pattern=cell.get('pattern'), pbc=pname, shape=shape, origin_class=oc, scale=sname,
                        vects=cell['vects'], origin=cell['origin'], pair_classes=classes[:8], p0=p0[:3], p1=p1[:3]),
                   group=('sample:zeros:' if 'pattern' in cell else 'sample:') + shape)


def run(ctx):
    import atomman as am
    rec = ctx.rec
    install_monitors(rec, am)

    asan = ctx.flavour == 'asan'
    rounds = ctx.pick(3, 3 if asan else 24)
    n_cases = GEN.NCOMBO * rounds
    nz_cases = GEN.NZCOMBO * ctx.pick(2, 2 if asan else 9)
    npairs = ctx.pick(16, 16 if asan else 48)
    ST.sample_outside = 2

    for i in ctx.cases('pairs', n_cases):
        kind, pbc, shape, oc, scale, rnd = GEN.stratified(i)
        cell = GEN.gen_cell(ctx.rng, kind, oc, scale, sub=i // GEN.NK, pbc=pbc)
        run_case(ctx, am, i, cell, pbc, shape, oc, scale, rnd, GEN.NK, npairs, i % GEN.NCOMBO in (3, 83, 167, 248, 329, 407, 488, 569))

    # second group: cells with structured zero patterns (upper / lower triangular, diagonal, permuted axes, blocks,
    # single exact zeros) x 8 periodicity settings x 8 call shapes, scales rotating as above
    for i in ctx.cases('zeros', nz_cases):
        kind, pbc, shape, oc, scale, rnd, m = GEN.stratified_z(i)
        cell = GEN.gen_zcell(ctx.rng, kind, oc, scale, m)
        rec.count('class:zpattern:' + cell['pattern'])
        rec.count('class:zcell:' + kind + ':pbc=' + GEN.pbc_name(pbc))
        rec.count('class:zcell:' + kind + ':shape=' + shape)
        run_case(ctx, am, i, cell, pbc, shape, oc, scale, rnd, GEN.NZ, npairs, i % GEN.NZCOMBO in (5, 70, 139, 204, 269, 334, 399, 464))
    ST.scale = None

    for k, v_ in monitor.calls.items():
        if isinstance(v_, int):
            rec.count('monitor_calls:' + k, v_)
    nerr = sum(v_ for k, v_ in monitor.calls.items() if isinstance(v_, int) and k.endswith(('post_error', 'pre_error')))
    if nerr:
        rec.fail('monitor postconditions evaluate without internal error', 'harness:post_error',
                 tracebacks=monitor.calls.get('_post_tracebacks'))

    # coverage floors: monitors reached, hostile classes generated (reachable on any tier / seed / flavour)
    for ep in ('atomman.dvect', 'atomman.dmag', 'System.dvect', 'System.dmag', 'atomman.displacement'):
        rec.floor('monitor_calls:' + ep, 100)
    for ep in ('dvect', 'dmag', 'System.dvect', 'System.dmag', 'displacement[final]', 'displacement[initial]'):
        rec.floor('rows:' + ep, 500)
    rec.floor('rows:dvect-vs-dmag', 5000)
    rec.floor('guard:dvect:ortho', 1000)
    rec.floor('guard:dvect:tilted', 1000)
    rec.floor('guard:dmag:ortho', 1000)
    rec.floor('guard:dmag:tilted', 1000)
    rec.floor('guard:dvect:outside-guard', 1000)
    rec.floor('info:27-minimum-not-the-true-nearest(outside guard)', 5)
    rec.floor('info:ties(two candidates within the bound)', 100)
    rec.floor('info:unique-nearest-vector-compared', 1000)
    # inputs that defeat shortcuts of the image search: a direct separation below half the shortest cell vector that an
    # image still beats (needs a +-1 combination of periodic cell vectors shorter than every cell vector), seen by the
    # min27 clause of every entry point, by |dvect| = dmag, with both points in the cell, in each of the four settings
    # with two or three periodic axes, and in LAMMPS-normalised cells.  Floors are ~1/4 of the count of ONE build
    # flavour at 3 rounds (by construction: 70 % of the halfshort pairs of flat / skew cells are of this kind).
    for ep, m in (('dvect', 50), ('dmag', 35), ('System.dvect', 8), ('System.dmag', 8), ('displacement[initial]', 4)):
        rec.floor(f'hostile:{ep}:short-direct-beaten', m)
    rec.floor('hostile:dvect:short-direct-beaten:both-inside', 35)
    rec.floor('hostile:dmag:short-direct-beaten:both-inside', 25)
    rec.floor('hostile:dvect-vs-dmag:short-direct-beaten', 25)
    for pbc in PBC2:
        for ep in ('dvect', 'dmag'):
            rec.floor(f'hostile:{ep}:short-direct-beaten:pbc=' + GEN.pbc_name(pbc), 8)
        for kind in ('flat', 'skew'):
            rec.floor(f'class:cell:periodic-combination-shorter-than-every-cell-vector:{kind}:pbc=' + GEN.pbc_name(pbc), 20)
    for ep in ('dvect', 'dmag'):
        rec.floor(f'hostile:{ep}:short-direct-beaten:lammps-normalised-cell', 5)
        rec.floor(f'hostile:{ep}:rel-within-half-beaten', 200)
        rec.floor(f'hostile:{ep}:best-image-is-combination', 2000)
    rec.floor('class:cell:lammps-normalised:flat', 20)
    rec.floor('class:cell:lammps-normalised:needle', 20)
    rec.floor('displacement:atoms-at-generated-partner', 100)
    for kind in GEN.CELL_KINDS:
        rec.floor('class:cell:' + kind, 100)
    for pbc in GEN.PBCS:
        rec.floor('class:pbc:' + GEN.pbc_name(pbc), 100)
    for shape in GEN.SHAPES:
        rec.floor('class:shape:' + shape, 100)
    for c in GEN.PAIR_CLASSES:
        rec.floor('class:pair:' + c, 1000)
    for oc in GEN.ORIGINS:
        rec.floor('class:origin:' + oc, 100)
    for name in ('strided', 'fortran', 'column-slice', 'readonly', 'reversed', 'float32', 'single-row', 'empty'):
        rec.floor('class:layout:' + name, 5)
    for name in ('int,int', 'negint,int', 'list,list', 'slice,slice', 'int,list', 'slice,negint', 'mask,mask', 'position,list',
                 'pairs,pairs', 'pairslice,pairarray'):
        rec.floor('index-form:' + name, 50)
    for sc in ('(3,)x(3,)', '(3,)x(N,3)', '(1,3)x(N,3)', '(N,3)x(3,)', '(N,3)x(1,3)', '(N,3)x(N,3)', '(0,3)x(0,3)', '(1,3)x(1,3)'):
        rec.floor('shape:dvect:' + sc, 5)
        rec.floor('shape:dmag:' + sc, 5)
    # ---- length scales: every clause is evaluated at every scale through every entry point.  rows = rows judged by
    # lattice / periodic-only / min27 (dvect-vs-dmag: by |dvect| = dmag); guard = rows judged by the nearest-image
    # clause; image-needed = rows whose answer is NOT the direct separation.  Floors are ~1/3 of the smallest count of
    # ONE build flavour over seeds 0..5 at the quick tier's size.
    per_scale = {'dvect': (3000, 800, 2000), 'dmag': (2000, 600, 1500), 'System.dvect': (1000, 250, 800),
                 'System.dmag': (1000, 250, 800), 'displacement[final]': (300, 50, 120), 'displacement[initial]': (150, 50, 70)}
    for sc in GEN.SCALES:
        sn = GEN.scale_name(sc)
        rec.floor('class:scale:' + sn, 250)
        for shape in GEN.SHAPES:
            rec.floor('class:scale:' + sn + ':shape=' + shape, 30)
        for ep, (nrows, nguard, nimg) in per_scale.items():
            rec.floor(f'rows:{ep}:scale={sn}', nrows)
            rec.floor(f'guard:{ep}:scale={sn}', nguard)
            rec.floor(f'image-needed:{ep}:scale={sn}', nimg)
        rec.floor(f'rows:dvect-vs-dmag:scale={sn}', 1000)
        rec.floor(f'image-needed:dvect-vs-dmag:scale={sn}', 700)
    # ---- structured zero patterns: generated in every arrangement, with every periodicity setting and call shape,
    # judged through every entry point, and hostile to a "no tilt" shortcut (axis-wrap-wrong: wrapping each Cartesian
    # component on its own gives a wrong length) where the arrangement allows that at all
    for kind in GEN.ZKINDS:
        for pbc in GEN.PBCS:
            rec.floor('class:zcell:' + kind + ':pbc=' + GEN.pbc_name(pbc), 16)
        for shape in GEN.SHAPES:
            rec.floor('class:zcell:' + kind + ':shape=' + shape, 16)
    for sub in GEN.TRI_SUBSETS:
        rec.floor('class:zpattern:upper:' + '+'.join('%d%d' % GEN.UPPER_POS[k] for k in sub), 15)
        rec.floor('class:zpattern:lower:' + '+'.join('%d%d' % GEN.LOWER_POS[k] for k in sub), 15)
    for sg in GEN.DIAG_SIGNS:
        rec.floor('class:zpattern:diag:' + ''.join('+' if x > 0 else '-' for x in sg), 30)
    for perm in GEN.PERMS6[1:]:
        rec.floor('class:zpattern:perm-diag:%d%d%d' % perm, 20)
        for tri in ('upper', 'lower'):
            rec.floor('class:zpattern:perm-tri:%s:rows%d%d%d' % ((tri,) + perm), 8)
    for variant in ('2x2', 'axis-vector', 'plane-vectors'):
        for col in range(3):
            rec.floor('class:zpattern:block:%s:axis%d' % (variant, col), 10)
    for r in range(3):
        for c in range(3):
            rec.floor('class:zpattern:onezero:%d%d' % (r, c), 12)
    rec.floor('class:zpattern:fewzero:2', 60)
    rec.floor('class:zpattern:fewzero:3', 60)
    for zc, m in (('diagonal', 10), ('upper-triangular', 10), ('lower-triangular', 10), ('permuted-diagonal', 10), ('other-zeros', 40)):
        rec.floor('displacement:final-cell-zeros:' + zc, m)
    zrows = {'dvect': (4000, 1700, 12000, 9000, 9000), 'dmag': (2800, 1100, 10000, 7000, 3800),
             'System.dvect': (1600, 640, 6000, 4000, 2000), 'System.dmag': (1600, 640, 6000, 4000, 2000),
             'displacement[final]': (340, 170, 170, 670, 2300), 'displacement[initial]': (210, 85, 680, 500, 380)}
    zwrong = {'dvect': (400, 3400, 2800, 3000), 'dmag': (270, 3000, 2200, 1500), 'System.dvect': (110, 1700, 1200, 750),
              'System.dmag': (110, 1700, 1200, 750), 'displacement[final]': (30, 28, 150, 600),
              'displacement[initial]': (12, 160, 110, 85), 'dvect-vs-dmag': (130, 1300, 950, 700)}
    for zc in ('diagonal', 'upper-triangular', 'lower-triangular', 'permuted-diagonal', 'other-zeros', 'full'):
        rec.floor('class:zeros:' + zc, 100)
    for ep, (ndiag, nup, nlow, noth, nfull) in zrows.items():
        for zc, m in (('diagonal', ndiag), ('permuted-diagonal', nup // 2 if ep.startswith('disp') else nup), ('upper-triangular', nup),
                      ('lower-triangular', nlow), ('other-zeros', noth), ('full', nfull)):
            rec.floor(f'zeros:{ep}:{zc}', m)
    for ep, (nup, nlow, noth, nfull) in zwrong.items():
        for zc, m in (('upper-triangular', nup), ('lower-triangular', nlow), ('other-zeros', noth), ('full', nfull)):
            rec.floor(f'hostile:{ep}:axis-wrap-wrong:{zc}', m)
    for ep in ('dvect', 'dmag'):
        for pbc in GEN.PBCS:
            pn = GEN.pbc_name(pbc)
            if pbc[0] or pbc[1]:                 # upper-triangular: a or b (the tilted vectors) periodic
                rec.floor(f'hostile:{ep}:axis-wrap-wrong:upper-triangular:pbc={pn}', 12)
            if pbc[1] or pbc[2]:                 # lower-triangular: b or c periodic
                rec.floor(f'hostile:{ep}:axis-wrap-wrong:lower-triangular:pbc={pn}', 300)
            if any(pbc):
                rec.floor(f'hostile:{ep}:axis-wrap-wrong:other-zeros:pbc={pn}', 200)
    rec.floor('refused:dvect:mismatch', 50)
    rec.floor('refused:dmag:mismatch', 50)
    rec.floor('refused:System.dvect:mismatch', 20)
    rec.floor('refused:displacement:natoms-mismatch', 20)
    rec.floor('displacement:ref=None', 20)
